//! Instrumented `PartialSource`: records every lookup (name, thread, enter/leave stamps from
//! one global atomic counter) and can inject yields/sleeps *inside* the lookup — for the lazy
//! store that is while its mutex is held, so other threads pile up on it.
use liquid::partials::{InMemorySource, PartialSource};
use std::borrow::Cow;
use std::sync::atomic::{AtomicU64, Ordering};
use std::sync::{Arc, Mutex};

pub static STAMP: AtomicU64 = AtomicU64::new(1);
pub fn stamp() -> u64 {
    STAMP.fetch_add(1, Ordering::SeqCst)
}

#[derive(Clone, Debug)]
pub struct Lookup {
    pub name: String,
    pub thread: u64,
    pub enter: u64,
    pub leave: u64,
    pub found: bool,
}

#[derive(Clone, Debug, Default)]
pub struct Log(pub Arc<Mutex<Vec<Lookup>>>);

impl Log {
    pub fn take(&self) -> Vec<Lookup> {
        std::mem::take(&mut *self.0.lock().unwrap())
    }
    pub fn names(&self) -> Vec<String> {
        self.0.lock().unwrap().iter().map(|l| l.name.clone()).collect()
    }
}

thread_local! {
    pub static THREAD_ID: std::cell::Cell<u64> = const { std::cell::Cell::new(0) };
}

#[derive(Clone, Copy, Debug, PartialEq)]
pub enum Delay {
    None,
    Yield,
    /// microseconds
    Sleep(u64),
}

#[derive(Debug)]
pub struct RecSource {
    inner: InMemorySource,
    pub log: Log,
    pub delay: Delay,
}

impl RecSource {
    pub fn new(partials: &[(String, String)], log: Log, delay: Delay) -> RecSource {
        RecSource {
            inner: crate::cfg::source(partials),
            log,
            delay,
        }
    }
}

impl PartialSource for RecSource {
    fn contains(&self, name: &str) -> bool {
        self.inner.contains(name)
    }
    fn names(&self) -> Vec<&str> {
        self.inner.names()
    }
    fn try_get<'a>(&'a self, name: &str) -> Option<Cow<'a, str>> {
        let enter = stamp();
        match self.delay {
            Delay::None => {}
            Delay::Yield => {
                for _ in 0..8 {
                    std::thread::yield_now();
                }
            }
            Delay::Sleep(us) => std::thread::sleep(std::time::Duration::from_micros(us)),
        }
        let r = self.inner.try_get(name);
        let leave = stamp();
        self.log.0.lock().unwrap().push(Lookup {
            name: name.to_string(),
            thread: THREAD_ID.with(|t| t.get()),
            enter,
            leave,
            found: r.is_some(),
        });
        r
    }
}

// ---- instrumented PartialCompiler / PartialStore (client boundary of the store) ----
use liquid::partials::PartialCompiler;
use liquid_core::runtime::PartialStore;
use liquid_core::Renderable;

#[derive(Clone, Debug)]
pub struct StoreEvent {
    pub op: &'static str,
    pub name: String,
    pub thread: u64,
    pub enter: u64,
    pub leave: u64,
    pub ok: bool,
}

#[derive(Clone, Debug, Default)]
pub struct StoreLog(pub Arc<Mutex<Vec<StoreEvent>>>);

pub struct RecCompiler<C> {
    pub inner: C,
    pub log: StoreLog,
}

impl<C: PartialCompiler> PartialCompiler for RecCompiler<C> {
    fn compile(
        self,
        language: Arc<liquid_core::Language>,
    ) -> liquid_core::Result<Box<dyn PartialStore + Send + Sync>> {
        let log = self.log.clone();
        let inner = self.inner.compile(language)?;
        Ok(Box::new(RecStore { inner, log }))
    }
    fn source(&self) -> &dyn PartialSource {
        self.inner.source()
    }
}

struct RecStore {
    inner: Box<dyn PartialStore + Send + Sync>,
    log: StoreLog,
}

impl std::fmt::Debug for RecStore {
    fn fmt(&self, f: &mut std::fmt::Formatter<'_>) -> std::fmt::Result {
        self.inner.fmt(f)
    }
}

impl PartialStore for RecStore {
    fn contains(&self, name: &str) -> bool {
        self.inner.contains(name)
    }
    fn names(&self) -> Vec<&str> {
        self.inner.names()
    }
    fn try_get(&self, name: &str) -> Option<Arc<dyn Renderable>> {
        let enter = stamp();
        let r = self.inner.try_get(name);
        let leave = stamp();
        self.log.0.lock().unwrap().push(StoreEvent {
            op: "try_get",
            name: name.to_string(),
            thread: THREAD_ID.with(|t| t.get()),
            enter,
            leave,
            ok: r.is_some(),
        });
        r
    }
    fn get(&self, name: &str) -> liquid_core::Result<Arc<dyn Renderable>> {
        let enter = stamp();
        let r = self.inner.get(name);
        let leave = stamp();
        self.log.0.lock().unwrap().push(StoreEvent {
            op: "get",
            name: name.to_string(),
            thread: THREAD_ID.with(|t| t.get()),
            enter,
            leave,
            ok: r.is_ok(),
        });
        r
    }
}
