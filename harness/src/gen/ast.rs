//! Generator AST for Liquid programs, with source-text printing. The reference interpreter
//! (`refm::interp`) runs on this AST, so no reference *parser* is ever needed.
use crate::rng::Rng;
use crate::val::RVal;

#[derive(Clone, Debug)]
pub enum Seg {
    /// `.name`
    Dot(String),
    /// `[literal]` (integer or string literal)
    Lit(RVal),
    /// `[path]`
    Var(Path),
}

#[derive(Clone, Debug)]
pub struct Path {
    pub root: String,
    pub segs: Vec<Seg>,
}

impl Path {
    pub fn name(n: &str) -> Path {
        Path {
            root: n.to_string(),
            segs: vec![],
        }
    }
    pub fn dot(mut self, n: &str) -> Path {
        self.segs.push(Seg::Dot(n.to_string()));
        self
    }
}

#[derive(Clone, Debug)]
pub enum Expr {
    Lit(RVal),
    Var(Path),
}

impl Expr {
    pub fn var(n: &str) -> Expr {
        Expr::Var(Path::name(n))
    }
    pub fn int(i: i64) -> Expr {
        Expr::Lit(RVal::Int(i))
    }
    pub fn str(s: &str) -> Expr {
        Expr::Lit(RVal::Str(s.to_string()))
    }
}

#[derive(Clone, Debug)]
pub struct FilterCall {
    pub name: String,
    pub args: Vec<Expr>,
}

#[derive(Clone, Copy, Debug, PartialEq, Eq)]
pub enum Op {
    Eq,
    Ne,
    NeAlt, // <>
    Lt,
    Gt,
    Le,
    Ge,
    Contains,
}
impl Op {
    pub fn src(self) -> &'static str {
        match self {
            Op::Eq => "==",
            Op::Ne => "!=",
            Op::NeAlt => "<>",
            Op::Lt => "<",
            Op::Gt => ">",
            Op::Le => "<=",
            Op::Ge => ">=",
            Op::Contains => "contains",
        }
    }
    pub const ALL: [Op; 8] = [
        Op::Eq,
        Op::Ne,
        Op::NeAlt,
        Op::Lt,
        Op::Gt,
        Op::Le,
        Op::Ge,
        Op::Contains,
    ];
}

#[derive(Clone, Debug)]
pub enum Atom {
    Truthy(Expr),
    Cmp(Expr, Op, Expr),
}

/// `or` of `and`s of atoms — the grouping the language claims
#[derive(Clone, Debug)]
pub struct Cond {
    pub ors: Vec<Vec<Atom>>,
}
impl Cond {
    pub fn atom(a: Atom) -> Cond {
        Cond { ors: vec![vec![a]] }
    }
}

#[derive(Clone, Debug)]
pub enum Coll {
    Expr(Expr),
    Range(Expr, Expr),
}

#[derive(Clone, Debug)]
pub enum RenderMode {
    Plain,
    /// `with <expr> as <alias>`
    With(Expr, String),
    /// `for <coll> as <alias>`
    For(Coll, String),
}

#[derive(Clone, Debug)]
pub enum Node {
    Text(String),
    Out(Expr, Vec<FilterCall>),
    Assign(String, Expr, Vec<FilterCall>),
    Capture(String, Vec<Node>),
    Incr(String),
    Decr(String),
    For {
        var: String,
        coll: Coll,
        limit: Option<Expr>,
        offset: Option<Expr>,
        reversed: bool,
        body: Vec<Node>,
        else_: Option<Vec<Node>>,
    },
    TableRow {
        var: String,
        coll: Coll,
        cols: Option<Expr>,
        limit: Option<Expr>,
        offset: Option<Expr>,
        body: Vec<Node>,
    },
    If {
        arms: Vec<(Cond, Vec<Node>)>,
        else_: Option<Vec<Node>>,
    },
    Unless {
        cond: Cond,
        body: Vec<Node>,
        else_: Option<Vec<Node>>,
    },
    Case {
        target: Expr,
        /// (values, separator-is-"or", body)
        arms: Vec<(Vec<Expr>, bool, Vec<Node>)>,
        else_: Option<Vec<Node>>,
    },
    Cycle {
        group: Option<Expr>,
        values: Vec<Expr>,
    },
    IfChanged(Vec<Node>),
    Break,
    Continue,
    Raw(String),
    Comment(String),
    Include {
        name: Expr,
        args: Vec<(String, Expr)>,
    },
    Render {
        name: Expr,
        mode: RenderMode,
        args: Vec<(String, Expr)>,
    },
    EnvDump(Vec<String>),
}

/// How source text is laid out: spaces inside delimiters are randomised when `rng` is set.
pub struct Style {
    pub rng: Option<Rng>,
}
impl Style {
    pub fn plain() -> Style {
        Style { rng: None }
    }
    pub fn random(rng: Rng) -> Style {
        Style { rng: Some(rng) }
    }
    fn pad(&mut self) -> &'static str {
        match &mut self.rng {
            None => " ",
            Some(r) => *r.pick(&["", " ", " ", "  "]),
        }
    }
    fn tag(&mut self, out: &mut String, inner: &str) {
        out.push_str("{%");
        // an identifier must not be glued to a '-' (would read as a trim marker); inner never
        // starts with '-', so empty padding is safe
        out.push_str(self.pad());
        out.push_str(inner);
        let p = self.pad();
        // avoid `-%}` being produced by an inner text ending in '-'
        if inner.ends_with('-') && p.is_empty() {
            out.push(' ');
        }
        out.push_str(p);
        out.push_str("%}");
    }
    fn expr(&mut self, out: &mut String, inner: &str) {
        out.push_str("{{");
        let p = self.pad();
        if inner.starts_with('-') && p.is_empty() {
            // `{{-1}}` would be a trim marker followed by 1
            out.push(' ');
        }
        out.push_str(p);
        out.push_str(inner);
        let p = self.pad();
        if inner.ends_with('-') && p.is_empty() {
            out.push(' ');
        }
        out.push_str(p);
        out.push_str("}}");
    }
}

pub fn lit_src(v: &RVal) -> String {
    match v {
        RVal::Nil => "nil".into(),
        RVal::Bool(b) => b.to_string(),
        RVal::Int(i) => i.to_string(),
        RVal::Float(f) => {
            // FloatLiteral needs digits '.' digits
            let s = format!("{f:?}");
            if s.contains('e') || s.contains("inf") || s.contains("NaN") {
                format!("{:.1}", f)
            } else {
                s
            }
        }
        RVal::Str(s) => {
            if !s.contains('\'') {
                format!("'{s}'")
            } else {
                format!("\"{s}\"")
            }
        }
        RVal::Empty => "empty".into(),
        RVal::Blank => "blank".into(),
        _ => panic!("harness: no literal syntax for {:?}", v),
    }
}

pub fn path_src(p: &Path) -> String {
    let mut s = p.root.clone();
    for seg in &p.segs {
        match seg {
            Seg::Dot(n) => {
                s.push('.');
                s.push_str(n);
            }
            Seg::Lit(v) => {
                s.push('[');
                s.push_str(&lit_src(v));
                s.push(']');
            }
            Seg::Var(p) => {
                s.push('[');
                s.push_str(&path_src(p));
                s.push(']');
            }
        }
    }
    s
}

pub fn expr_src(e: &Expr) -> String {
    match e {
        Expr::Lit(v) => lit_src(v),
        Expr::Var(p) => path_src(p),
    }
}

pub fn chain_src(e: &Expr, fs: &[FilterCall]) -> String {
    let mut s = expr_src(e);
    for f in fs {
        s.push_str(" | ");
        s.push_str(&f.name);
        for (i, a) in f.args.iter().enumerate() {
            s.push_str(if i == 0 { ": " } else { ", " });
            s.push_str(&expr_src(a));
        }
    }
    s
}

pub fn atom_src(a: &Atom) -> String {
    match a {
        Atom::Truthy(e) => expr_src(e),
        Atom::Cmp(l, op, r) => format!("{} {} {}", expr_src(l), op.src(), expr_src(r)),
    }
}

pub fn cond_src(c: &Cond) -> String {
    c.ors
        .iter()
        .map(|ands| ands.iter().map(atom_src).collect::<Vec<_>>().join(" and "))
        .collect::<Vec<_>>()
        .join(" or ")
}

pub fn coll_src(c: &Coll) -> String {
    match c {
        Coll::Expr(e) => expr_src(e),
        Coll::Range(a, b) => format!("({}..{})", expr_src(a), expr_src(b)),
    }
}

fn args_src(args: &[(String, Expr)]) -> String {
    args.iter()
        .map(|(k, v)| format!("{k}: {}", expr_src(v)))
        .collect::<Vec<_>>()
        .join(", ")
}

pub fn to_source(nodes: &[Node], st: &mut Style) -> String {
    let mut out = String::new();
    nodes_src(nodes, st, &mut out);
    out
}

fn nodes_src(nodes: &[Node], st: &mut Style, out: &mut String) {
    for n in nodes {
        node_src(n, st, out);
    }
}

fn node_src(n: &Node, st: &mut Style, out: &mut String) {
    match n {
        Node::Text(t) => out.push_str(t),
        Node::Out(e, fs) => st.expr(out, &chain_src(e, fs)),
        Node::Assign(name, e, fs) => st.tag(out, &format!("assign {name} = {}", chain_src(e, fs))),
        Node::Capture(name, body) => {
            st.tag(out, &format!("capture {name}"));
            nodes_src(body, st, out);
            st.tag(out, "endcapture");
        }
        Node::Incr(n) => st.tag(out, &format!("increment {n}")),
        Node::Decr(n) => st.tag(out, &format!("decrement {n}")),
        Node::For {
            var,
            coll,
            limit,
            offset,
            reversed,
            body,
            else_,
        } => {
            let mut s = format!("for {var} in {}", coll_src(coll));
            if let Some(l) = limit {
                s.push_str(&format!(" limit:{}", expr_src(l)));
            }
            if let Some(o) = offset {
                s.push_str(&format!(" offset: {}", expr_src(o)));
            }
            if *reversed {
                s.push_str(" reversed");
            }
            st.tag(out, &s);
            nodes_src(body, st, out);
            if let Some(e) = else_ {
                st.tag(out, "else");
                nodes_src(e, st, out);
            }
            st.tag(out, "endfor");
        }
        Node::TableRow {
            var,
            coll,
            cols,
            limit,
            offset,
            body,
        } => {
            let mut s = format!("tablerow {var} in {}", coll_src(coll));
            if let Some(c) = cols {
                s.push_str(&format!(" cols:{}", expr_src(c)));
            }
            if let Some(l) = limit {
                s.push_str(&format!(" limit:{}", expr_src(l)));
            }
            if let Some(o) = offset {
                s.push_str(&format!(" offset:{}", expr_src(o)));
            }
            st.tag(out, &s);
            nodes_src(body, st, out);
            st.tag(out, "endtablerow");
        }
        Node::If { arms, else_ } => {
            for (i, (c, body)) in arms.iter().enumerate() {
                st.tag(
                    out,
                    &format!("{} {}", if i == 0 { "if" } else { "elsif" }, cond_src(c)),
                );
                nodes_src(body, st, out);
            }
            if let Some(e) = else_ {
                st.tag(out, "else");
                nodes_src(e, st, out);
            }
            st.tag(out, "endif");
        }
        Node::Unless { cond, body, else_ } => {
            st.tag(out, &format!("unless {}", cond_src(cond)));
            nodes_src(body, st, out);
            if let Some(e) = else_ {
                st.tag(out, "else");
                nodes_src(e, st, out);
            }
            st.tag(out, "endunless");
        }
        Node::Case {
            target,
            arms,
            else_,
        } => {
            st.tag(out, &format!("case {}", expr_src(target)));
            for (vals, use_or, body) in arms {
                let sep = if *use_or { " or " } else { ", " };
                st.tag(
                    out,
                    &format!(
                        "when {}",
                        vals.iter().map(expr_src).collect::<Vec<_>>().join(sep)
                    ),
                );
                nodes_src(body, st, out);
            }
            if let Some(e) = else_ {
                st.tag(out, "else");
                nodes_src(e, st, out);
            }
            st.tag(out, "endcase");
        }
        Node::Cycle { group, values } => {
            let vs = values.iter().map(expr_src).collect::<Vec<_>>().join(", ");
            match group {
                Some(g) => st.tag(out, &format!("cycle {}: {}", expr_src(g), vs)),
                None => st.tag(out, &format!("cycle {vs}")),
            }
        }
        Node::IfChanged(body) => {
            st.tag(out, "ifchanged");
            nodes_src(body, st, out);
            st.tag(out, "endifchanged");
        }
        Node::Break => st.tag(out, "break"),
        Node::Continue => st.tag(out, "continue"),
        Node::Raw(body) => {
            st.tag(out, "raw");
            out.push_str(body);
            st.tag(out, "endraw");
        }
        Node::Comment(body) => {
            st.tag(out, "comment");
            out.push_str(body);
            st.tag(out, "endcomment");
        }
        Node::Include { name, args } => {
            let mut s = format!("include {}", expr_src(name));
            if !args.is_empty() {
                s.push(' ');
                s.push_str(&args_src(args));
            }
            st.tag(out, &s);
        }
        Node::Render { name, mode, args } => {
            let mut s = format!("render {}", expr_src(name));
            match mode {
                RenderMode::Plain => {}
                RenderMode::With(e, a) => s.push_str(&format!(" with {} as {a}", expr_src(e))),
                RenderMode::For(c, a) => s.push_str(&format!(" for {} as {a}", coll_src(c))),
            }
            if !args.is_empty() {
                s.push_str(", ");
                s.push_str(&args_src(args));
            }
            st.tag(out, &s);
        }
        Node::EnvDump(names) => st.tag(out, &format!("envdump {}", names.join(" "))),
    }
}

/// number of nodes (size measure)
pub fn size(nodes: &[Node]) -> usize {
    nodes
        .iter()
        .map(|n| {
            1 + match n {
                Node::Capture(_, b) | Node::IfChanged(b) => size(b),
                Node::For { body, else_, .. } => {
                    size(body) + else_.as_ref().map(|e| size(e)).unwrap_or(0)
                }
                Node::TableRow { body, .. } => size(body),
                Node::If { arms, else_ } => {
                    arms.iter().map(|(_, b)| size(b)).sum::<usize>()
                        + else_.as_ref().map(|e| size(e)).unwrap_or(0)
                }
                Node::Unless { body, else_, .. } => {
                    size(body) + else_.as_ref().map(|e| size(e)).unwrap_or(0)
                }
                Node::Case { arms, else_, .. } => {
                    arms.iter().map(|(_, _, b)| size(b)).sum::<usize>()
                        + else_.as_ref().map(|e| size(e)).unwrap_or(0)
                }
                _ => 0,
            }
        })
        .sum()
}

/// names of the constructs used (for evidence counters)
pub fn constructs(nodes: &[Node], acc: &mut std::collections::BTreeSet<&'static str>) {
    for n in nodes {
        match n {
            Node::Text(_) => {
                acc.insert("text");
            }
            Node::Out(..) => {
                acc.insert("output");
            }
            Node::Assign(..) => {
                acc.insert("assign");
            }
            Node::Capture(_, b) => {
                acc.insert("capture");
                constructs(b, acc);
            }
            Node::Incr(_) => {
                acc.insert("increment");
            }
            Node::Decr(_) => {
                acc.insert("decrement");
            }
            Node::For { body, else_, .. } => {
                acc.insert("for");
                constructs(body, acc);
                if let Some(e) = else_ {
                    constructs(e, acc);
                }
            }
            Node::TableRow { body, .. } => {
                acc.insert("tablerow");
                constructs(body, acc);
            }
            Node::If { arms, else_ } => {
                acc.insert("if");
                for (_, b) in arms {
                    constructs(b, acc);
                }
                if let Some(e) = else_ {
                    constructs(e, acc);
                }
            }
            Node::Unless { body, else_, .. } => {
                acc.insert("unless");
                constructs(body, acc);
                if let Some(e) = else_ {
                    constructs(e, acc);
                }
            }
            Node::Case { arms, else_, .. } => {
                acc.insert("case");
                for (_, _, b) in arms {
                    constructs(b, acc);
                }
                if let Some(e) = else_ {
                    constructs(e, acc);
                }
            }
            Node::Cycle { .. } => {
                acc.insert("cycle");
            }
            Node::IfChanged(b) => {
                acc.insert("ifchanged");
                constructs(b, acc);
            }
            Node::Break => {
                acc.insert("break");
            }
            Node::Continue => {
                acc.insert("continue");
            }
            Node::Raw(_) => {
                acc.insert("raw");
            }
            Node::Comment(_) => {
                acc.insert("comment");
            }
            Node::Include { .. } => {
                acc.insert("include");
            }
            Node::Render { .. } => {
                acc.insert("render");
            }
            Node::EnvDump(_) => {
                acc.insert("envdump");
            }
        }
    }
}
