//! Random generator of rich, mostly-renderable programs over a tiny name alphabet, with
//! partials and data. Used differentially (C01 mutation base, C02c, C09, C10, C19, C20).
use super::ast::*;
use crate::rng::Rng;
use crate::val::{arr, obj, s, RVal};

pub const NAMES: [&str; 4] = ["a", "b", "c", "d"];

#[derive(Clone)]
pub struct Opts {
    pub max_depth: usize,
    pub max_len: usize,
    /// partial names that may be referenced (caller decides which exist / are broken)
    pub partials: Vec<String>,
    pub allow_partials: bool,
    pub allow_tablerow: bool,
    pub allow_toplevel_interrupt: bool,
    /// probability (in 1/1000) that an expression names the never-defined variable `u`
    pub undefined_pct: u32,
    pub allow_envdump: bool,
    /// partial names may be given through the variable `pn` (main template only: a partial
    /// using a dynamic name could name itself, and recursion is outside the stated bounds)
    pub dynamic_names: bool,
}

impl Default for Opts {
    fn default() -> Self {
        Opts {
            max_depth: 3,
            max_len: 5,
            partials: vec![],
            allow_partials: false,
            allow_tablerow: true,
            allow_toplevel_interrupt: false,
            undefined_pct: 2,
            allow_envdump: false,
            dynamic_names: false,
        }
    }
}

pub struct Gen<'a> {
    pub rng: &'a mut Rng,
    pub o: Opts,
}

const WORDS: [&str; 8] = ["x", "Yy", " ", "é", "1", "-", "<b>", "\n"];
const SAFE_FILTERS0: [&str; 9] = [
    "upcase",
    "downcase",
    "size",
    "strip",
    "escape",
    "capitalize",
    "first",
    "last",
    "compact",
];

impl<'a> Gen<'a> {
    pub fn new(rng: &'a mut Rng, o: Opts) -> Self {
        Gen { rng, o }
    }

    fn name(&mut self) -> String {
        self.rng.choose(&NAMES).to_string()
    }

    /// assignment targets: mostly the string `c` and the initially undefined `e`, sometimes any
    fn target(&mut self) -> String {
        match self.rng.below(8) {
            0 => self.name(),
            1..=3 => "e".to_string(),
            _ => "c".to_string(),
        }
    }

    pub fn scalar_lit(&mut self) -> RVal {
        match self.rng.below(8) {
            0 => RVal::Int(self.rng.range(-3, 12)),
            1 => RVal::Int(self.rng.choose(&[0, 1, 2, 3, 7, 100])),
            2 => s(self.rng.choose(&WORDS)),
            3 => s(self.rng.choose(&["a", "b", "c", "hello world", ""])),
            4 => RVal::Bool(self.rng.chance(1, 2)),
            5 => RVal::Float(self.rng.choose(&[0.5, 1.5, -2.25, 3.0])),
            6 => RVal::Nil,
            _ => RVal::Int(self.rng.range(0, 4)),
        }
    }

    pub fn expr(&mut self, loop_vars: &[String]) -> Expr {
        if self.rng.chance(self.o.undefined_pct, 1000) {
            return Expr::var("u");
        }
        match self.rng.below(10) {
            0..=2 => Expr::Lit(self.scalar_lit()),
            3..=5 => Expr::var(&self.name()),
            6 if !loop_vars.is_empty() => {
                let v = self.rng.pick(loop_vars).clone();
                Expr::var(&v)
            }
            7 if !loop_vars.is_empty() => Expr::Var(
                Path::name("forloop").dot(self.rng.choose(&["index", "index0", "rindex", "first", "last", "length"])),
            ),
            8 => {
                // typed path steps: `a` is (initially) an array, `d` an object with key k
                match self.rng.below(6) {
                    0 => Expr::Var(Path::name("a").dot("size")),
                    1 => Expr::Var(Path::name("a").dot(self.rng.choose(&["first", "last"]))),
                    2 => Expr::Var(Path { root: "a".into(), segs: vec![Seg::Lit(RVal::Int(self.rng.range(-1, 1)))] }),
                    3 => Expr::Var(Path::name("d").dot("k")),
                    4 => Expr::Var(Path { root: "a".into(), segs: vec![Seg::Var(Path::name("b"))] }),
                    _ => Expr::Var(Path::name("c").dot("size")),
                }
            }
            _ => Expr::var(&self.name()),
        }
    }

    fn filters(&mut self, lv: &[String]) -> Vec<FilterCall> {
        let mut fs = vec![];
        while self.rng.chance(1, 4) && fs.len() < 3 {
            let f = match self.rng.below(6) {
                0 => FilterCall {
                    name: "append".into(),
                    args: vec![self.expr(lv)],
                },
                1 => FilterCall {
                    name: "default".into(),
                    args: vec![self.expr(lv)],
                },
                2 => FilterCall {
                    name: "plus".into(),
                    args: vec![Expr::int(self.rng.range(-2, 5))],
                },
                3 => FilterCall {
                    name: "join".into(),
                    args: vec![Expr::str(",")],
                },
                _ => FilterCall {
                    name: self.rng.choose(&SAFE_FILTERS0).to_string(),
                    args: vec![],
                },
            };
            fs.push(f);
        }
        fs
    }

    pub fn atom(&mut self, lv: &[String]) -> Atom {
        match self.rng.below(4) {
            0 => Atom::Truthy(self.expr(lv)),
            1 if !lv.is_empty() => Atom::Cmp(
                Expr::Var(Path::name("forloop").dot("index")),
                self.rng.choose(&[Op::Eq, Op::Ge, Op::Lt]),
                Expr::int(self.rng.range(1, 3)),
            ),
            _ => {
                let l = self.expr(lv);
                let op = self.rng.choose(&Op::ALL);
                let r = self.expr(lv);
                Atom::Cmp(l, op, r)
            }
        }
    }

    pub fn cond(&mut self, lv: &[String]) -> Cond {
        let n_or = 1 + self.rng.below(2);
        let mut ors = vec![];
        for _ in 0..n_or {
            let n_and = 1 + if self.rng.chance(1, 4) { 1 } else { 0 };
            ors.push((0..n_and).map(|_| self.atom(lv)).collect());
        }
        Cond { ors }
    }

    fn coll(&mut self, lv: &[String]) -> Coll {
        match self.rng.below(12) {
            0 => Coll::Range(Expr::int(self.rng.range(0, 2)), Expr::int(self.rng.range(1, 4))),
            // the bound is a dedicated, never-assigned small integer: a bound taken from a name
            // that programs capture digits into can become astronomically large (outside the
            // "widths <= 10^4" bound of the properties, and an allocation abort in practice)
            1 => Coll::Range(Expr::int(1), Expr::var("n")),
            2 => Coll::Expr(self.expr(lv)),
            3 => Coll::Expr(Expr::var("d")),
            _ => Coll::Expr(Expr::var("a")),
        }
    }

    fn partial_name(&mut self, lv: &[String]) -> Expr {
        if self.o.partials.is_empty() {
            return Expr::str("nope");
        }
        let p = self.rng.pick(&self.o.partials).clone();
        if self.o.dynamic_names && self.rng.chance(1, 6) {
            // dynamic name through a variable (data binds `pn` to a partial name)
            let _ = lv;
            Expr::var("pn")
        } else {
            Expr::str(&p)
        }
    }

    fn args(&mut self, lv: &[String]) -> Vec<(String, Expr)> {
        let n = self.rng.below(3);
        (0..n).map(|_| (self.name(), self.expr(lv))).collect()
    }

    pub fn block(&mut self, depth: usize, lv: &[String]) -> Vec<Node> {
        let n = 1 + self.rng.below(self.o.max_len);
        let mut out = Vec::new();
        for _ in 0..n {
            let node = self.node(depth, lv);
            let captured = match &node {
                Node::Capture(name, _) => Some(name.clone()),
                _ => None,
            };
            out.push(node);
            if let Some(name) = captured {
                // keep captured text bounded: a capture whose body prints its own previous value,
                // inside nested loops, otherwise grows exponentially (gigabytes: an allocation abort
                // of the *workload*, not a defect of the library)
                out.push(Node::Assign(
                    name.clone(),
                    Expr::var(&name),
                    vec![FilterCall { name: "truncate".into(), args: vec![Expr::int(48), Expr::str("~")] }],
                ));
            }
        }
        out
    }

    pub fn node(&mut self, depth: usize, lv: &[String]) -> Node {
        let deep = depth >= self.o.max_depth;
        let in_loop = !lv.is_empty();
        loop {
            let k = self.rng.below(30);
            return match k {
                0..=4 => Node::Text(self.rng.choose(&["x", " ", "\n", "<p>", "é,", "}", "%", "-", "ab "]).to_string()),
                5..=8 => {
                    let e = self.expr(lv);
                    let f = self.filters(lv);
                    Node::Out(e, f)
                }
                9..=10 => {
                    let n = self.target();
                    let e = self.expr(lv);
                    let f = self.filters(lv);
                    Node::Assign(n, e, f)
                }
                11 if !deep => {
                    let n = self.target();
                    Node::Capture(n, self.block(depth + 1, lv))
                }
                12 => Node::Incr(self.name()),
                13 => Node::Decr(self.name()),
                14..=16 if !deep => {
                    let var = self.rng.choose(&["i", "j", "i", "c"]).to_string();
                    let coll = self.coll(lv);
                    let limit = if self.rng.chance(1, 4) {
                        Some(Expr::int(self.rng.range(0, 3)))
                    } else {
                        None
                    };
                    let offset = if self.rng.chance(1, 4) {
                        Some(Expr::int(self.rng.range(0, 2)))
                    } else {
                        None
                    };
                    let mut lv2 = lv.to_vec();
                    lv2.push(var.clone());
                    let body = self.block(depth + 1, &lv2);
                    let else_ = if self.rng.chance(1, 3) {
                        Some(self.block(depth + 1, lv))
                    } else {
                        None
                    };
                    Node::For {
                        var,
                        coll,
                        limit,
                        offset,
                        reversed: self.rng.chance(1, 4),
                        body,
                        else_,
                    }
                }
                17 if !deep && self.o.allow_tablerow => {
                    let var = "i".to_string();
                    let coll = self.coll(lv);
                    let cols = if self.rng.chance(1, 2) {
                        Some(Expr::int(self.rng.range(1, 3)))
                    } else {
                        None
                    };
                    let mut lv2 = lv.to_vec();
                    lv2.push(var.clone());
                    // no break/continue in tablerow bodies: use a fresh non-loop context flag
                    let body = self.block(depth + 1, &[]);
                    let _ = lv2;
                    Node::TableRow {
                        var,
                        coll,
                        cols,
                        limit: None,
                        offset: None,
                        body,
                    }
                }
                18..=19 if !deep => {
                    let n_arms = 1 + self.rng.below(2);
                    let arms = (0..n_arms)
                        .map(|_| (self.cond(lv), self.block(depth + 1, lv)))
                        .collect();
                    let else_ = if self.rng.chance(1, 2) {
                        Some(self.block(depth + 1, lv))
                    } else {
                        None
                    };
                    Node::If { arms, else_ }
                }
                20 if !deep => {
                    let cond = self.cond(lv);
                    let body = self.block(depth + 1, lv);
                    Node::Unless {
                        cond,
                        body,
                        else_: None,
                    }
                }
                21 if !deep => {
                    let target = self.expr(lv);
                    let n_arms = 1 + self.rng.below(2);
                    let arms = (0..n_arms)
                        .map(|_| {
                            let nv = 1 + self.rng.below(2);
                            (
                                (0..nv).map(|_| Expr::Lit(self.scalar_lit())).collect(),
                                self.rng.chance(1, 2),
                                self.block(depth + 1, lv),
                            )
                        })
                        .collect();
                    let else_ = if self.rng.chance(1, 2) {
                        Some(self.block(depth + 1, lv))
                    } else {
                        None
                    };
                    Node::Case {
                        target,
                        arms,
                        else_,
                    }
                }
                22 => {
                    let group = match self.rng.below(3) {
                        0 => Some(Expr::str("g")),
                        1 => Some(Expr::var("g2")),
                        _ => None,
                    };
                    // `cycle g2: ...` treats an identifier as the literal group name
                    let nv = 1 + self.rng.below(3);
                    let values = (0..nv).map(|_| Expr::Lit(self.scalar_lit())).collect();
                    Node::Cycle { group, values }
                }
                23 if !deep => Node::IfChanged(self.block(depth + 1, lv)),
                24 if in_loop || self.o.allow_toplevel_interrupt => {
                    if self.rng.chance(1, 2) {
                        Node::Break
                    } else {
                        Node::Continue
                    }
                }
                25 => Node::Raw(self.rng.choose(&["{{ a }}", "{% if %}", "plain", "", "{{"]).to_string()),
                26 => Node::Comment(self.rng.choose(&["note", "{% assign a = 1 %}", "{{ a | nofilter }}", ""]).to_string()),
                27 if self.o.allow_partials => {
                    let name = self.partial_name(lv);
                    let args = self.args(lv);
                    Node::Include { name, args }
                }
                28 if self.o.allow_partials => {
                    let name = self.partial_name(lv);
                    // render isolates the partial: usually hand it every name so that its body
                    // (which reads a..d) gets past its first output
                    let args = if self.rng.chance(3, 4) {
                        let mut v: Vec<(String, Expr)> = NAMES.iter().map(|n| (n.to_string(), Expr::var(n))).collect();
                        if self.rng.chance(1, 3) {
                            let k = self.rng.below(v.len());
                            v[k].1 = self.expr(lv);
                        }
                        v
                    } else {
                        self.args(lv)
                    };
                    let mode = match self.rng.below(4) {
                        0 => RenderMode::With(self.expr(lv), self.name()),
                        1 => RenderMode::For(self.coll(lv), self.name()),
                        _ => RenderMode::Plain,
                    };
                    Node::Render { name, mode, args }
                }
                29 if self.o.allow_envdump => Node::EnvDump(NAMES.iter().map(|s| s.to_string()).collect()),
                _ => continue,
            };
        }
    }

    /// data object binding every name in NAMES (never `u`), plus `pn` (a partial name) and `g2`
    pub fn data(&mut self) -> RVal {
        let mut kv: Vec<(String, RVal)> = Vec::new();
        let n = self.rng.below(5);
        let strings = self.rng.chance(1, 3);
        let a = arr((0..n)
            .map(|i| {
                if strings {
                    s(self.rng.choose(&["x", "y", "hello world", "é"]))
                } else if self.rng.chance(1, 8) {
                    self.value(1)
                } else {
                    RVal::Int(i as i64 + self.rng.range(0, 2))
                }
            })
            .collect());
        kv.push(("a".into(), a));
        kv.push(("b".into(), RVal::Int(self.rng.range(0, 5))));
        kv.push(("n".into(), RVal::Int(self.rng.range(0, 5))));
        kv.push(("c".into(), s(self.rng.choose(&["", "a", "hello world", "é", "3"]))));
        let d = if self.rng.chance(1, 6) { self.value(0) } else { obj(vec![("k", self.value(1))]) };
        kv.push(("d".into(), d));
        let pn = if self.o.partials.is_empty() {
            "nope".to_string()
        } else {
            self.rng.pick(&self.o.partials).clone()
        };
        kv.push(("pn".into(), RVal::Str(pn)));
        RVal::Object(kv)
    }

    pub fn value(&mut self, depth: usize) -> RVal {
        match self.rng.below(if depth >= 2 { 6 } else { 10 }) {
            0 => RVal::Int(self.rng.range(-2, 9)),
            1 => s(self.rng.choose(&["", "a", "hello world", "é", "3", " "])),
            2 => RVal::Nil,
            3 => RVal::Bool(self.rng.chance(1, 2)),
            4 => RVal::Float(self.rng.choose(&[0.5, 2.0, -1.25])),
            5 => RVal::Int(self.rng.range(0, 3)),
            6 | 7 => {
                let n = self.rng.below(5);
                arr((0..n).map(|_| self.value(depth + 1)).collect())
            }
            8 => obj(vec![("k", self.value(depth + 1))]),
            _ => arr((0..self.rng.below(4)).map(|i| RVal::Int(i as i64 + 1)).collect()),
        }
    }
}

/// A complete scenario: main template, partial sources, data.
#[derive(Clone, Debug)]
pub struct Scenario {
    pub main: String,
    pub partials: Vec<(String, String)>,
    pub data: RVal,
}

impl Scenario {
    pub fn to_json(&self) -> serde_json::Value {
        serde_json::json!({
            "template": self.main,
            "partials": self.partials.iter().map(|(n, t)| serde_json::json!([n, t])).collect::<Vec<_>>(),
            "data": self.data.to_json(),
        })
    }
}

/// Generate a scenario with `n_partials` partials; partial i may only reference partials
/// with a larger index (no recursion). `broken`/`missing` choose how many referenced names
/// are syntactically broken or absent from the source.
pub fn scenario(rng: &mut Rng, n_partials: usize, with_broken: bool, opts: &Opts) -> Scenario {
    let names: Vec<String> = (0..n_partials).map(|i| format!("p{i}")).collect();
    let mut partials = Vec::new();
    let mut style = Style::random(rng.fork(77));
    let mut all_names = names.clone();
    if with_broken && n_partials > 0 {
        all_names.push("missing".to_string());
    }
    for i in 0..n_partials {
        let mut o = opts.clone();
        o.partials = all_names[(i + 1).min(all_names.len())..].to_vec();
        o.allow_partials = opts.allow_partials && !o.partials.is_empty();
        o.max_depth = opts.max_depth.saturating_sub(1).max(1);
        // partial bodies may break/continue at top level: include propagates it to the caller
        o.allow_toplevel_interrupt = true;
        o.dynamic_names = false;
        let mut g = Gen::new(rng, o);
        let body = g.block(0, &[]);
        let mut src = to_source(&body, &mut style);
        if with_broken && rng.chance(1, 5) {
            src.push_str(rng.choose(&["{% if %}", "{{ a | nofilter }}", "{% endfor %}", "{{ 'x }}", "{% for %}"]));
        }
        partials.push((names[i].clone(), src));
    }
    let mut o = opts.clone();
    o.partials = all_names.clone();
    o.dynamic_names = true;
    o.allow_partials = opts.allow_partials && !all_names.is_empty();
    let mut g = Gen::new(rng, o);
    let body = g.block(0, &[]);
    let data = g.data();
    let main = to_source(&body, &mut style);
    Scenario {
        main,
        partials,
        data,
    }
}

/// A pool for history checks: several main templates and data objects over one partial set.
#[derive(Clone, Debug)]
pub struct Pool {
    pub partials: Vec<(String, String)>,
    pub mains: Vec<String>,
    pub datas: Vec<RVal>,
}

pub fn pool(rng: &mut Rng, n_main: usize, n_data: usize, n_partials: usize, with_broken: bool, opts: &Opts) -> Pool {
    let first = scenario(rng, n_partials, with_broken, opts);
    let mut all_names: Vec<String> = first.partials.iter().map(|(n, _)| n.clone()).collect();
    if with_broken && n_partials > 0 {
        all_names.push("missing".into());
    }
    let mut mains = vec![first.main.clone()];
    let mut datas = vec![first.data.clone()];
    let mut style = Style::random(rng.fork(78));
    for _ in 1..n_main {
        let mut o = opts.clone();
        o.partials = all_names.clone();
        o.allow_partials = opts.allow_partials && !all_names.is_empty();
        o.dynamic_names = true;
        let mut g = Gen::new(rng, o);
        let body = g.block(0, &[]);
        mains.push(to_source(&body, &mut style));
    }
    for _ in 1..n_data {
        let mut o = opts.clone();
        o.partials = first.partials.iter().map(|(n, _)| n.clone()).collect();
        let mut g = Gen::new(rng, o);
        datas.push(g.data());
    }
    Pool {
        partials: first.partials,
        mains,
        datas,
    }
}
