//! Generators for the scoping checks (C04, C08): programs over a tiny name alphabet in which the
//! same name is a caller datum, an assigned variable, a loop variable, a counter and a partial
//! argument, with a state probe after every statement.
use super::ast::*;
use crate::rng::Rng;
use crate::val::{s, RVal};

pub const NAMES: [&str; 3] = ["a", "b", "c"];

/// `{% envdump a b c %}` plus a guarded output read of every name
pub fn probe() -> Vec<Node> {
    let mut v = vec![Node::EnvDump(NAMES.iter().map(|s| s.to_string()).collect())];
    for n in NAMES {
        // guarded read of the whole value (structural dump, bounded) ...
        v.push(Node::If {
            arms: vec![(
                Cond::atom(Atom::Truthy(Expr::var(n))),
                vec![Node::Text(format!("{n}=")), Node::Out(Expr::var(n), vec![FilterCall { name: "vdump".into(), args: vec![] }, FilterCall { name: "digest".into(), args: vec![] }]), Node::Text(";".into())],
            )],
            else_: None,
        });
        // ... and of a member through the non-failing lookup: an inner binding without the member
        // must not let an outer binding's member show through
        v.push(Node::If {
            arms: vec![(Cond::atom(Atom::Truthy(Expr::Var(Path::name(n).dot("k")))), vec![Node::Text(format!("{n}.k=")), Node::Out(Expr::Var(Path::name(n).dot("k")), vec![FilterCall { name: "vdump".into(), args: vec![] }]), Node::Text(";".into())])],
            else_: None,
        });
    }
    v
}

fn with_probe(mut stmt: Vec<Node>) -> Vec<Node> {
    stmt.extend(probe());
    stmt
}

/// leaf statements of the exhaustive C04 grammar (22)
pub fn leaves() -> Vec<Vec<Node>> {
    let mut v = Vec::new();
    for n in NAMES {
        v.push(vec![Node::Assign(n.to_string(), Expr::str(&format!("v{n}")), vec![])]);
        v.push(vec![Node::Capture(n.to_string(), vec![Node::Text("cap".into()), Node::Incr("c".into())])]);
        v.push(vec![Node::Incr(n.to_string())]);
        v.push(vec![Node::Decr(n.to_string())]);
        // re-assigning a name to the value it currently resolves to still creates an assigned
        // binding (it matters once the loop / include / counter binding it was read from ends)
        v.push(vec![Node::Assign(n.to_string(), Expr::var(n), vec![])]);
        // a capture whose body prints nothing still binds (the empty text)
        v.push(vec![Node::Capture(n.to_string(), vec![Node::If { arms: vec![(Cond::atom(Atom::Truthy(Expr::Lit(RVal::Bool(false)))), vec![Node::Text("never".into())])], else_: None }])]);
    }
    v.push(vec![Node::Include { name: Expr::str("pa"), args: vec![] }]);
    v.push(vec![Node::Include { name: Expr::str("pa"), args: vec![("a".into(), Expr::str("arg"))] }]);
    v.push(vec![Node::Include { name: Expr::str("pb"), args: vec![("b".into(), Expr::str("argb")), ("c".into(), Expr::int(9))] }]);
    // the argument's value comes from a name that may be unbound at that point (c is not caller data)
    v.push(vec![Node::Include { name: Expr::str("pa"), args: vec![("a".into(), Expr::var("c"))] }]);
    v
}

/// the partials used by the exhaustive C04 grammar
pub fn c04_partials() -> Vec<(String, Vec<Node>)> {
    let mut pa = probe();
    pa.push(Node::Assign("a".into(), Expr::str("pa"), vec![]));
    pa.push(Node::Incr("c".into()));
    pa.extend(probe());
    let mut pb = probe();
    pb.push(Node::Capture("b".into(), vec![Node::Text("pb".into()), Node::Out(Expr::var("b"), vec![])]));
    pb.push(Node::For { var: "c".into(), coll: Coll::Range(Expr::int(1), Expr::int(2)), limit: None, offset: None, reversed: false, body: probe(), else_: None });
    pb.extend(probe());
    vec![("pa".into(), pa), ("pb".into(), pb)]
}

/// compact statement tree of the exhaustive C04 grammar
#[derive(Clone, Debug)]
pub enum T {
    /// index into `leaves()`
    Leaf(u8),
    /// 0..=2: `for <name> in (1..2)`, 3: `if true`
    Block(u8, Vec<T>),
}

/// all forests with exactly `n` statements (compact form; probes are added by `expand`)
pub fn forests(n: usize, memo: &mut Vec<Option<Vec<Vec<T>>>>) -> Vec<Vec<T>> {
    if let Some(Some(v)) = memo.get(n) {
        return v.clone();
    }
    let n_leaves = leaves().len() as u8;
    let mut out: Vec<Vec<T>> = Vec::new();
    if n == 0 {
        out.push(vec![]);
    } else {
        let rest1 = forests(n - 1, memo);
        for leaf in 0..n_leaves {
            for rest in &rest1 {
                let mut f = vec![T::Leaf(leaf)];
                f.extend(rest.clone());
                out.push(f);
            }
        }
        for k in 2..=n {
            let bodies = forests(k - 1, memo);
            let rests = forests(n - k, memo);
            for body in &bodies {
                for rest in &rests {
                    for b in 0..4u8 {
                        let mut f = vec![T::Block(b, body.clone())];
                        f.extend(rest.clone());
                        out.push(f);
                    }
                }
            }
        }
    }
    while memo.len() <= n {
        memo.push(None);
    }
    memo[n] = Some(out.clone());
    out
}

/// a uniformly-ish random forest with exactly `n` statements
pub fn random_forest(rng: &mut Rng, n: usize) -> Vec<T> {
    let n_leaves = leaves().len();
    let mut out = Vec::new();
    let mut left = n;
    while left > 0 {
        if left >= 2 && rng.chance(1, 3) {
            let k = 2 + rng.below(left - 1);
            out.push(T::Block(rng.below(4) as u8, random_forest(rng, k - 1)));
            left -= k;
        } else {
            out.push(T::Leaf(rng.below(n_leaves) as u8));
            left -= 1;
        }
    }
    out
}

/// expand a compact forest into AST nodes with a probe after every statement
pub fn expand(f: &[T]) -> Vec<Node> {
    let ls = leaves();
    let mut out = Vec::new();
    for t in f {
        match t {
            T::Leaf(i) => out.extend(with_probe(ls[*i as usize].clone())),
            T::Block(b, body) => {
                let mut inner = probe();
                inner.extend(expand(body));
                let block = match b {
                    3 => Node::If { arms: vec![(Cond::atom(Atom::Truthy(Expr::Lit(RVal::Bool(true)))), inner)], else_: None },
                    i => Node::For { var: NAMES[*i as usize].to_string(), coll: Coll::Range(Expr::int(1), Expr::int(2)), limit: None, offset: None, reversed: false, body: inner, else_: None },
                };
                out.extend(with_probe(vec![block]));
            }
        }
    }
    out
}

pub fn c04_data() -> RVal {
    RVal::Object(vec![("a".into(), RVal::Object(vec![("k".into(), s("dak"))])), ("b".into(), RVal::Int(5))])
}

// ---------------------------------------------------------------------------------------------
// random programs (C04 beyond the exhaustive bound, and C08)
// ---------------------------------------------------------------------------------------------

#[derive(Clone)]
pub struct ScopeOpts {
    /// partials that may be invoked from this body: (name, exists-and-parses)
    pub callable: Vec<String>,
    pub allow_render: bool,
    pub allow_cycle_ifchanged: bool,
    pub allow_interrupts_at_top: bool,
    pub max_depth: usize,
    pub dynamic_names: bool,
}

pub struct ScopeGen<'a> {
    pub rng: &'a mut Rng,
    pub o: ScopeOpts,
}

impl ScopeGen<'_> {
    fn name(&mut self) -> String {
        self.rng.choose(&NAMES).to_string()
    }
    fn value(&mut self) -> Expr {
        match self.rng.below(6) {
            0 => Expr::int(self.rng.range(0, 9)),
            1 => Expr::str(self.rng.choose(&["x", "y", "zz"])),
            2 | 3 => Expr::var(&self.name()),
            4 => Expr::Lit(RVal::Nil),
            _ => Expr::str("lit"),
        }
    }
    fn args(&mut self) -> Vec<(String, Expr)> {
        let n = self.rng.below(3);
        let mut v: Vec<(String, Expr)> = Vec::new();
        for _ in 0..n {
            let k = self.name();
            if !v.iter().any(|(kk, _)| *kk == k) {
                // literal, a (possibly currently unbound) name, or the never-defined `u`: an argument
                // whose value is undefined must fail the render or be bound to nil — never be dropped
                let e = match self.rng.below(16) {
                    0 | 1 => Expr::var(&self.name()),
                    2 => Expr::var("u"),
                    3..=9 => Expr::str(&format!("arg{k}")),
                    _ => Expr::int(self.rng.range(0, 5)),
                };
                v.push((k, e));
            }
        }
        v
    }
    /// when the partial is named through a variable, half of the time also pass an argument of
    /// that very name holding another partial's name: arguments are visible only inside the
    /// partial, so the tag must still resolve the caller's value
    fn shadow_name_variable(&mut self, name: &Expr, args: &mut Vec<(String, Expr)>) {
        if let Expr::Var(p) = name {
            let var = p.root.clone();
            if var.starts_with("pn_") && self.rng.chance(1, 2) {
                let other = self.rng.pick(&self.o.callable).clone();
                args.push((var, Expr::str(&other)));
            }
        }
    }
    fn partial_name(&mut self) -> Expr {
        let n = self.rng.pick(&self.o.callable).clone();
        if self.o.dynamic_names && self.rng.chance(1, 3) && n != "missing" && n != "broken" {
            // data binds pn_<name> to the name
            Expr::var(&format!("pn_{n}"))
        } else {
            Expr::str(&n)
        }
    }
    pub fn body(&mut self, depth: usize, in_loop: bool, len: usize) -> Vec<Node> {
        let mut out = probe();
        for _ in 0..len {
            out.extend(self.stmt(depth, in_loop));
            out.extend(probe());
        }
        out
    }
    fn stmt(&mut self, depth: usize, in_loop: bool) -> Vec<Node> {
        let deep = depth >= self.o.max_depth;
        loop {
            let k = self.rng.below(20);
            return match k {
                0 | 1 => {
                    let n = self.name();
                    let v = self.value();
                    // assigning an undefined variable is outside the statement: guard by reading
                    // only names that are certainly defined or literals
                    let v = match v {
                        Expr::Var(_) => Expr::str("av"),
                        other => other,
                    };
                    vec![Node::Assign(n, v, vec![])]
                }
                2 if !deep => {
                    let n = self.name();
                    if self.rng.chance(1, 4) {
                        // body that prints nothing (or only on some iterations)
                        let cond = if in_loop && self.rng.chance(1, 2) {
                            Cond::atom(Atom::Cmp(Expr::Var(Path::name("forloop").dot("index")), Op::Eq, Expr::int(1)))
                        } else {
                            Cond::atom(Atom::Truthy(Expr::Lit(RVal::Bool(false))))
                        };
                        return vec![Node::Capture(n, vec![Node::If { arms: vec![(cond, vec![Node::Text("once".into())])], else_: None }])];
                    }
                    let len = 1 + self.rng.below(2);
                    let mut body = self.body(depth + 1, in_loop, len);
                    if in_loop && self.rng.chance(1, 4) {
                        // an interrupt raised inside the capture body: the capture still binds what
                        // its body printed up to there
                        let op = if self.rng.chance(1, 2) { Node::Break } else { Node::Continue };
                        let pos = self.rng.below(body.len() + 1);
                        body.insert(pos, Node::If { arms: vec![(Cond::atom(Atom::Cmp(Expr::Var(Path::name("forloop").dot("index")), Op::Eq, Expr::int(self.rng.range(1, 3)))), vec![op])], else_: None });
                    }
                    vec![Node::Capture(n, body)]
                }
                3 => vec![Node::Incr(self.name())],
                4 => vec![Node::Decr(self.name())],
                5 | 6 if !deep => {
                    let var = self.name();
                    let len = 1 + self.rng.below(2);
                    let mut body = self.body(depth + 1, true, len);
                    if self.rng.chance(1, 3) {
                        let op = if self.rng.chance(1, 2) { Node::Break } else { Node::Continue };
                        let pos = self.rng.below(body.len() + 1);
                        body.insert(pos, Node::If { arms: vec![(Cond::atom(Atom::Cmp(Expr::Var(Path::name("forloop").dot("index")), Op::Eq, Expr::int(self.rng.range(1, 3)))), vec![op])], else_: None });
                    }
                    vec![Node::For { var, coll: Coll::Range(Expr::int(1), Expr::int(self.rng.range(1, 3))), limit: None, offset: None, reversed: false, body, else_: None }]
                }
                7 if !deep => {
                    let c = match self.rng.below(3) {
                        0 => Cond::atom(Atom::Truthy(Expr::Lit(RVal::Bool(false)))),
                        1 => Cond::atom(Atom::Truthy(Expr::var(&self.name()))),
                        _ => Cond::atom(Atom::Truthy(Expr::Lit(RVal::Bool(true)))),
                    };
                    let len = 1 + self.rng.below(2);
                    vec![Node::If { arms: vec![(c, self.body(depth + 1, in_loop, len))], else_: None }]
                }
                8 | 9 if !self.o.callable.is_empty() => {
                    let name = self.partial_name();
                    let mut args = self.args();
                    self.shadow_name_variable(&name, &mut args);
                    vec![Node::Include { name, args }]
                }
                10 | 11 | 12 if !self.o.callable.is_empty() && self.o.allow_render => {
                    let name = self.partial_name();
                    let mut args = self.args();
                    self.shadow_name_variable(&name, &mut args);
                    // the alias must not also be given as an argument (which one wins is not specified)
                    let free: Vec<&str> = NAMES.iter().filter(|n| !args.iter().any(|(k, _)| k == *n)).cloned().collect();
                    let mode = match (self.rng.below(4), free.is_empty()) {
                        (0, false) => RenderMode::With(Expr::str("wv"), self.rng.choose(&free).to_string()),
                        (1, false) => RenderMode::For(Coll::Range(Expr::int(1), Expr::int(self.rng.range(0, 2))), self.rng.choose(&free).to_string()),
                        _ => RenderMode::Plain,
                    };
                    vec![Node::Render { name, mode, args }]
                }
                13 if self.o.allow_cycle_ifchanged => {
                    vec![Node::Cycle { group: Some(Expr::str(self.rng.choose(&["g", "h"]))), values: vec![Expr::int(1), Expr::int(2), Expr::int(3)] }]
                }
                14 if self.o.allow_cycle_ifchanged => {
                    vec![Node::IfChanged(vec![Node::Text(self.rng.choose(&["q", "w"]).to_string())])]
                }
                15 if in_loop || (depth == 0 && self.o.allow_interrupts_at_top) => {
                    vec![if self.rng.chance(1, 2) { Node::Break } else { Node::Continue }]
                }
                16 => vec![Node::Text(self.rng.choose(&["t", "-", "."]).to_string())],
                _ => continue,
            };
        }
    }
}
