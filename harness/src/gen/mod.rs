pub mod ast;
pub mod prog;
pub mod scope;
