pub mod ast;
pub mod prog;
