//! Small deterministic PRNG (splitmix64 seeding + xorshift64*), no external crates.
#[derive(Clone, Debug)]
pub struct Rng(u64);

pub fn splitmix(mut x: u64) -> u64 {
    x = x.wrapping_add(0x9E3779B97F4A7C15);
    let mut z = x;
    z = (z ^ (z >> 30)).wrapping_mul(0xBF58476D1CE4E5B9);
    z = (z ^ (z >> 27)).wrapping_mul(0x94D049BB133111EB);
    z ^ (z >> 31)
}

impl Rng {
    pub fn new(seed: u64) -> Self {
        let s = splitmix(seed ^ 0xA076_1D64_78BD_642F);
        Rng(if s == 0 { 0x1234_5678_9ABC_DEF1 } else { s })
    }
    /// derive an independent stream
    pub fn fork(&self, tag: u64) -> Rng {
        Rng::new(splitmix(self.0 ^ splitmix(tag)))
    }
    pub fn next(&mut self) -> u64 {
        let mut x = self.0;
        x ^= x >> 12;
        x ^= x << 25;
        x ^= x >> 27;
        self.0 = x;
        x.wrapping_mul(0x2545F4914F6CDD1D)
    }
    pub fn below(&mut self, n: usize) -> usize {
        if n == 0 {
            0
        } else {
            (self.next() % (n as u64)) as usize
        }
    }
    pub fn range(&mut self, lo: i64, hi: i64) -> i64 {
        // inclusive
        let span = (hi - lo + 1) as u64;
        lo + (self.next() % span) as i64
    }
    pub fn chance(&mut self, num: u32, den: u32) -> bool {
        (self.next() % den as u64) < num as u64
    }
    pub fn pick<'a, T>(&mut self, xs: &'a [T]) -> &'a T {
        &xs[self.below(xs.len())]
    }
    pub fn choose<T: Copy>(&mut self, xs: &[T]) -> T {
        xs[self.below(xs.len())]
    }
    pub fn shuffle<T>(&mut self, xs: &mut [T]) {
        for i in (1..xs.len()).rev() {
            let j = self.below(i + 1);
            xs.swap(i, j);
        }
    }
}

/// FNV-1a 64 over bytes, then mixed; the content hash used for sharding and distinct counting.
pub fn hash_bytes(b: &[u8]) -> u64 {
    let mut h: u64 = 0xcbf29ce484222325;
    for &x in b {
        h ^= x as u64;
        h = h.wrapping_mul(0x100000001b3);
    }
    splitmix(h)
}
pub fn hash_str(s: &str) -> u64 {
    hash_bytes(s.as_bytes())
}
pub fn hash_combine(a: u64, b: u64) -> u64 {
    splitmix(a ^ b.rotate_left(23) ^ 0x51_7c_c1_b7_27_22_0a_95)
}
