//! Reference value model (`RVal`), conversion to liquid values, strict structural dump.
use liquid_core::model::{Date, DateTime, Object, State, Value, ValueView};
use serde_json::{json, Value as Json};

#[derive(Clone, Debug)]
pub enum RVal {
    Nil,
    Bool(bool),
    Int(i64),
    Float(f64),
    Str(String),
    /// printed form, e.g. "2020-02-29"
    Date(String),
    /// printed form, e.g. "2020-02-29 10:00:00 +0100"
    DateTime(String),
    Array(Vec<RVal>),
    /// insertion-ordered
    Object(Vec<(String, RVal)>),
    Empty,
    Blank,
}

pub fn s(x: &str) -> RVal {
    RVal::Str(x.to_string())
}
pub fn arr(xs: Vec<RVal>) -> RVal {
    RVal::Array(xs)
}
pub fn obj(xs: Vec<(&str, RVal)>) -> RVal {
    RVal::Object(xs.into_iter().map(|(k, v)| (k.to_string(), v)).collect())
}

impl RVal {
    pub fn to_liquid(&self) -> Value {
        match self {
            RVal::Nil => Value::Nil,
            RVal::Bool(b) => Value::scalar(*b),
            RVal::Int(i) => Value::scalar(*i),
            RVal::Float(f) => Value::scalar(*f),
            RVal::Str(s) => Value::scalar(s.clone()),
            RVal::Date(s) => Value::scalar(Date::from_str(s).expect("valid date in pool")),
            RVal::DateTime(s) => {
                Value::scalar(DateTime::from_str(s).expect("valid datetime in pool"))
            }
            RVal::Array(xs) => Value::Array(xs.iter().map(|x| x.to_liquid()).collect()),
            RVal::Object(kv) => {
                let mut o = Object::new();
                for (k, v) in kv {
                    o.insert(k.clone().into(), v.to_liquid());
                }
                Value::Object(o)
            }
            RVal::Empty => Value::State(State::Empty),
            RVal::Blank => Value::State(State::Blank),
        }
    }
    /// as a globals object (must be an Object)
    pub fn to_object(&self) -> Object {
        match self.to_liquid() {
            Value::Object(o) => o,
            _ => panic!("harness: globals must be an object"),
        }
    }
    pub fn kind(&self) -> &'static str {
        match self {
            RVal::Nil => "nil",
            RVal::Bool(_) => "bool",
            RVal::Int(_) => "int",
            RVal::Float(_) => "float",
            RVal::Str(_) => "str",
            RVal::Date(_) => "date",
            RVal::DateTime(_) => "datetime",
            RVal::Array(_) => "array",
            RVal::Object(_) => "object",
            RVal::Empty => "empty",
            RVal::Blank => "blank",
        }
    }
    /// strict dump computed on the reference side; must coincide with `dump_view` of `to_liquid()`
    pub fn dump(&self) -> String {
        let mut out = String::new();
        self.dump_into(&mut out);
        out
    }
    fn dump_into(&self, out: &mut String) {
        match self {
            RVal::Nil => out.push_str("nil"),
            RVal::Bool(b) => out.push_str(&format!("b:{b}")),
            RVal::Int(i) => out.push_str(&format!("i:{i}")),
            RVal::Float(f) => out.push_str(&format!("f:{:016x}", f.to_bits())),
            RVal::Str(s) => {
                out.push_str("s:");
                out.push_str(&serde_json::to_string(s).unwrap());
            }
            RVal::Date(s) => {
                out.push_str("d:");
                out.push_str(&Date::from_str(s).expect("valid date").to_string());
            }
            RVal::DateTime(s) => {
                out.push_str("t:");
                out.push_str(&DateTime::from_str(s).expect("valid datetime").to_string());
            }
            RVal::Array(xs) => {
                out.push('[');
                for (i, x) in xs.iter().enumerate() {
                    if i > 0 {
                        out.push(',');
                    }
                    x.dump_into(out);
                }
                out.push(']');
            }
            RVal::Object(kv) => {
                // last insertion wins, keys sorted
                let mut m: std::collections::BTreeMap<&str, &RVal> = Default::default();
                for (k, v) in kv {
                    m.insert(k, v);
                }
                out.push('{');
                for (i, (k, v)) in m.iter().enumerate() {
                    if i > 0 {
                        out.push(',');
                    }
                    out.push_str(&serde_json::to_string(k).unwrap());
                    out.push(':');
                    v.dump_into(out);
                }
                out.push('}');
            }
            RVal::Empty => out.push_str("state:Empty"),
            RVal::Blank => out.push_str("state:Blank"),
        }
    }
    /// JSON encoding for replay files (tagged where JSON has no native form)
    pub fn to_json(&self) -> Json {
        match self {
            RVal::Nil => Json::Null,
            RVal::Bool(b) => json!(b),
            RVal::Int(i) => json!(i),
            RVal::Float(f) => json!({"$f": format!("{:016x}", f.to_bits()), "approx": format!("{f:?}")}),
            RVal::Str(s) => json!(s),
            RVal::Date(s) => json!({"$date": s}),
            RVal::DateTime(s) => json!({"$datetime": s}),
            RVal::Array(xs) => Json::Array(xs.iter().map(|x| x.to_json()).collect()),
            RVal::Object(kv) => {
                json!({"$obj": kv.iter().map(|(k, v)| json!([k, v.to_json()])).collect::<Vec<_>>()})
            }
            RVal::Empty => json!({"$state": "empty"}),
            RVal::Blank => json!({"$state": "blank"}),
        }
    }
    pub fn from_json(j: &Json) -> RVal {
        match j {
            Json::Null => RVal::Nil,
            Json::Bool(b) => RVal::Bool(*b),
            Json::Number(n) => {
                if let Some(i) = n.as_i64() {
                    RVal::Int(i)
                } else {
                    RVal::Float(n.as_f64().unwrap_or(0.0))
                }
            }
            Json::String(s) => RVal::Str(s.clone()),
            Json::Array(xs) => RVal::Array(xs.iter().map(RVal::from_json).collect()),
            Json::Object(m) => {
                if let Some(f) = m.get("$f") {
                    let bits = u64::from_str_radix(f.as_str().unwrap_or("0"), 16).unwrap_or(0);
                    RVal::Float(f64::from_bits(bits))
                } else if let Some(d) = m.get("$date") {
                    RVal::Date(d.as_str().unwrap_or("").to_string())
                } else if let Some(d) = m.get("$datetime") {
                    RVal::DateTime(d.as_str().unwrap_or("").to_string())
                } else if let Some(st) = m.get("$state") {
                    if st == "empty" {
                        RVal::Empty
                    } else {
                        RVal::Blank
                    }
                } else if let Some(kv) = m.get("$obj") {
                    RVal::Object(
                        kv.as_array()
                            .map(|a| {
                                a.iter()
                                    .map(|p| {
                                        (
                                            p[0].as_str().unwrap_or("").to_string(),
                                            RVal::from_json(&p[1]),
                                        )
                                    })
                                    .collect()
                            })
                            .unwrap_or_default(),
                    )
                } else {
                    RVal::Object(m.iter().map(|(k, v)| (k.clone(), RVal::from_json(v))).collect())
                }
            }
        }
    }
    /// reference "printed form" for the kinds whose printing the properties fix
    pub fn is_nil(&self) -> bool {
        matches!(self, RVal::Nil)
    }
}

/// Strict structural dump of any liquid view, using only the public `ValueView` surface.
pub fn dump_view(v: &dyn ValueView) -> String {
    let mut out = String::new();
    dump_view_into(v, &mut out, 0);
    out
}

fn dump_view_into(v: &dyn ValueView, out: &mut String, depth: usize) {
    if depth > 64 {
        out.push_str("<deep>");
        return;
    }
    if v.is_nil() {
        out.push_str("nil");
    } else if let Some(st) = v.as_state() {
        out.push_str(&format!("state:{st:?}"));
    } else if let Some(sc) = v.as_scalar() {
        match v.type_name() {
            "whole number" => out.push_str(&format!("i:{}", sc.to_integer().unwrap_or(i64::MIN))),
            "fractional number" => {
                out.push_str(&format!("f:{:016x}", sc.to_float().unwrap_or(f64::NAN).to_bits()))
            }
            "boolean" => out.push_str(&format!("b:{}", sc.to_bool().unwrap_or(false))),
            "date" => out.push_str(&format!("d:{}", sc.to_kstr())),
            "date time" => out.push_str(&format!("t:{}", sc.to_kstr())),
            "string" => {
                out.push_str("s:");
                out.push_str(&serde_json::to_string(sc.to_kstr().as_str()).unwrap());
            }
            other => out.push_str(&format!("?scalar:{other}:{}", sc.to_kstr())),
        }
    } else if let Some(a) = v.as_array() {
        out.push('[');
        for (i, x) in a.values().enumerate() {
            if i > 0 {
                out.push(',');
            }
            dump_view_into(x, out, depth + 1);
        }
        out.push(']');
    } else if let Some(o) = v.as_object() {
        let mut items: Vec<(String, &dyn ValueView)> =
            o.iter().map(|(k, v)| (k.to_string(), v)).collect();
        items.sort_by(|a, b| a.0.cmp(&b.0));
        out.push('{');
        for (i, (k, x)) in items.iter().enumerate() {
            if i > 0 {
                out.push(',');
            }
            out.push_str(&serde_json::to_string(k).unwrap());
            out.push(':');
            dump_view_into(*x, out, depth + 1);
        }
        out.push('}');
    } else {
        out.push_str(&format!("?{}", v.type_name()));
    }
}
