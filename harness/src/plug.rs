//! Monitor plugins registered through liquid's public extension points.
//!  * filter `vdump`  : prints the strict dump of its input (structure at the boundary)
//!  * tag `{% envdump a b %}` : for each name prints try_get / get / roots membership / counter
//!  * tag `{% pprobe expr %}` : asks the runtime's partial store about the name `expr` evaluates to
//!    through every method of the PartialStore interface (contains / names / try_get / get) and
//!    renders what try_get handed out
use crate::val::dump_view;
use liquid_core::error::ResultLiquidReplaceExt;
use liquid_core::model::{Scalar, Value, ValueView};
use liquid_core::{
    Display_filter, Filter, FilterReflection, Language, ParseFilter, ParseTag, Renderable, Result,
    Runtime, TagReflection, TagTokenIter,
};
use std::io::Write;

#[derive(Clone, ParseFilter, FilterReflection)]
#[filter(
    name = "vdump",
    description = "harness monitor: strict structural dump",
    parsed(VDumpFilter)
)]
pub struct VDump;

#[derive(Debug, Default, Display_filter)]
#[name = "vdump"]
struct VDumpFilter;

impl Filter for VDumpFilter {
    fn evaluate(&self, input: &dyn ValueView, _runtime: &dyn Runtime) -> Result<Value> {
        Ok(Value::scalar(dump_view(input)))
    }
}

/// bounded printed form used by probes: short texts verbatim, long ones as `#<chars>:<hash>`
/// (keeps outputs small when captured text is captured again and again)
pub fn digest_text(s: &str) -> String {
    let n = s.chars().count();
    if n <= 40 {
        s.to_string()
    } else {
        format!("#{n}:{:x}", crate::rng::hash_str(s))
    }
}

#[derive(Clone, ParseFilter, FilterReflection)]
#[filter(
    name = "digest",
    description = "harness monitor: bounded printed form",
    parsed(DigestFilter)
)]
pub struct Digest;

#[derive(Debug, Default, Display_filter)]
#[name = "digest"]
struct DigestFilter;

impl Filter for DigestFilter {
    fn evaluate(&self, input: &dyn ValueView, _runtime: &dyn Runtime) -> Result<Value> {
        Ok(Value::scalar(digest_text(&input.render().to_string())))
    }
}

#[derive(Copy, Clone, Debug, Default)]
pub struct EnvDumpTag;

impl TagReflection for EnvDumpTag {
    fn tag(&self) -> &'static str {
        "envdump"
    }
    fn description(&self) -> &'static str {
        "harness monitor"
    }
}

impl ParseTag for EnvDumpTag {
    fn parse(&self, mut arguments: TagTokenIter<'_>, _options: &Language) -> Result<Box<dyn Renderable>> {
        let mut names = Vec::new();
        while let Some(tok) = arguments.next() {
            names.push(tok.expect_identifier().into_result()?.to_string());
        }
        Ok(Box::new(EnvDump { names }))
    }
    fn reflection(&self) -> &dyn TagReflection {
        self
    }
}

#[derive(Debug)]
struct EnvDump {
    names: Vec<String>,
}

/// the text envdump prints for one name, given the four observations
pub fn envdump_entry(name: &str, try_get: Option<&str>, get: Option<&str>, in_roots: bool, idx: Option<&str>) -> String {
    let (try_get, get) = (try_get.map(digest_text), get.map(digest_text));
    format!(
        "{}={},{},{},{};",
        name,
        try_get.as_deref().unwrap_or("~"),
        get.as_deref().unwrap_or("!"),
        if in_roots { "R" } else { "r" },
        idx.unwrap_or("~")
    )
}

impl Renderable for EnvDump {
    fn render_to(&self, writer: &mut dyn Write, runtime: &dyn Runtime) -> Result<()> {
        let roots = runtime.roots();
        write!(writer, "«").replace("Failed to render")?;
        for n in &self.names {
            let path = [Scalar::new(n.clone())];
            let t = runtime.try_get(&path).map(|v| dump_view(v.as_view()));
            let g = runtime.get(&path).ok().map(|v| dump_view(v.as_view()));
            let r = roots.iter().any(|k| k.as_str() == n.as_str());
            let i = runtime.get_index(n).map(|v| dump_view(v.as_view()));
            write!(
                writer,
                "{}",
                envdump_entry(n, t.as_deref(), g.as_deref(), r, i.as_deref())
            )
            .replace("Failed to render")?;
        }
        write!(writer, "»").replace("Failed to render")?;
        Ok(())
    }
}

#[derive(Copy, Clone, Debug, Default)]
pub struct PartialProbeTag;

impl TagReflection for PartialProbeTag {
    fn tag(&self) -> &'static str {
        "pprobe"
    }
    fn description(&self) -> &'static str {
        "harness monitor"
    }
}

impl ParseTag for PartialProbeTag {
    fn parse(&self, mut arguments: TagTokenIter<'_>, _options: &Language) -> Result<Box<dyn Renderable>> {
        let name = arguments.expect_next("name expected")?.expect_value().into_result()?;
        arguments.expect_nothing()?;
        Ok(Box::new(PartialProbe { name }))
    }
    fn reflection(&self) -> &dyn TagReflection {
        self
    }
}

#[derive(Debug)]
struct PartialProbe {
    name: liquid_core::runtime::Expression,
}

impl Renderable for PartialProbe {
    fn render_to(&self, writer: &mut dyn Write, runtime: &dyn Runtime) -> Result<()> {
        let name = self.name.evaluate(runtime)?.to_kstr().into_owned();
        let store = runtime.partials();
        let c = store.contains(name.as_str());
        let t = store.try_get(name.as_str());
        let g = store.get(name.as_str()).is_ok();
        let mut names: Vec<String> = store.names().iter().map(|s| s.to_string()).collect();
        names.sort();
        write!(writer, "«P c={} t={} g={} n={} r=", c as u8, t.is_some() as u8, g as u8, names.join(",")).replace("Failed to render")?;
        match t {
            Some(p) => {
                let mut buf: Vec<u8> = Vec::new();
                match p.render_to(&mut buf, runtime) {
                    Ok(()) => writer.write_all(&buf).replace("Failed to render")?,
                    Err(_) => write!(writer, "!").replace("Failed to render")?,
                }
            }
            None => write!(writer, "-").replace("Failed to render")?,
        }
        write!(writer, "»").replace("Failed to render")?;
        Ok(())
    }
}
