//! Reference semantics: path lookup, printing, comparison table and an interpreter over the
//! generator AST. Written from the property statements, not from the implementation. Wherever
//! the statements leave behaviour open the result is `Unspec` and the case is not compared.
use crate::gen::ast::*;
use crate::plug::envdump_entry;
use crate::val::RVal;
use std::collections::{BTreeMap, HashMap};

#[derive(Clone, Debug)]
pub enum Look {
    Found(RVal),
    Missing,
    Unspec,
}

/// one path step `v[idx]` / `v.idx`
pub fn step(v: &RVal, idx: &RVal) -> Look {
    match v {
        RVal::Array(xs) => match idx {
            RVal::Int(i) => {
                let n = xs.len() as i64;
                let k = if *i >= 0 { *i } else { n + *i };
                if k >= 0 && k < n {
                    Look::Found(xs[k as usize].clone())
                } else {
                    Look::Missing
                }
            }
            RVal::Str(s) => match s.as_str() {
                "first" => xs.first().cloned().map(Look::Found).unwrap_or(Look::Unspec),
                "last" => xs.last().cloned().map(Look::Found).unwrap_or(Look::Unspec),
                "size" => Look::Found(RVal::Int(xs.len() as i64)),
                // a numeric string as array index is not specified
                other if other.parse::<i64>().is_ok() => Look::Unspec,
                _ => Look::Missing,
            },
            // a fractional number is no position: the step is missing (a whole float is not specified)
            RVal::Float(f) if f.is_finite() && f.fract() != 0.0 => Look::Missing,
            _ => Look::Unspec,
        },
        RVal::Object(kv) => {
            let key = match idx {
                RVal::Str(s) => s.clone(),
                RVal::Int(i) => i.to_string(),
                _ => return Look::Unspec,
            };
            // last insertion wins (RVal objects may be built with duplicates)
            if let Some((_, v)) = kv.iter().rev().find(|(k, _)| *k == key) {
                return Look::Found(v.clone());
            }
            match key.as_str() {
                "size" => {
                    let mut keys: Vec<&String> = kv.iter().map(|(k, _)| k).collect();
                    keys.sort();
                    keys.dedup();
                    Look::Found(RVal::Int(keys.len() as i64))
                }
                // first/last of an object are not defined by the statement
                "first" | "last" => Look::Unspec,
                _ => Look::Missing,
            }
        }
        RVal::Str(s) => match idx {
            RVal::Str(k) if k == "size" => Look::Found(RVal::Int(s.chars().count() as i64)),
            RVal::Str(k) if k == "first" || k == "last" => Look::Unspec,
            _ => Look::Missing,
        },
        RVal::Nil => Look::Missing,
        // size/first/last of numbers, booleans, dates: not specified; anything else is missing
        _ => match idx {
            RVal::Str(k) if k == "size" || k == "first" || k == "last" => Look::Unspec,
            _ => Look::Missing,
        },
    }
}

/// printed form of a value in an output tag; None = not specified (multi-key objects etc.)
pub fn print(v: &RVal) -> Option<String> {
    Some(match v {
        RVal::Nil => String::new(),
        RVal::Bool(b) => b.to_string(),
        RVal::Int(i) => i.to_string(),
        RVal::Float(f) => format!("{f}"),
        RVal::Str(s) => s.clone(),
        RVal::Array(xs) => {
            let mut out = String::new();
            for x in xs {
                out.push_str(&print(x)?);
            }
            out
        }
        // printing dates, objects and markers is not fixed by the statements used here
        _ => return None,
    })
}

pub fn truthy(v: &RVal) -> bool {
    !matches!(v, RVal::Nil | RVal::Bool(false))
}

fn num(v: &RVal) -> Option<f64> {
    match v {
        RVal::Int(i) => Some(*i as f64),
        RVal::Float(f) => Some(*f),
        _ => None,
    }
}

/// equality on the cells whose meaning the statements fix (C06 layer 2); None = not claimed
pub fn eq(a: &RVal, b: &RVal) -> Option<bool> {
    use RVal::*;
    match (a, b) {
        (Nil, Nil) => Some(true),
        (Nil, Int(_) | Float(_) | Str(_) | Array(_) | Object(_)) | (Int(_) | Float(_) | Str(_) | Array(_) | Object(_), Nil) => Some(false),
        (Str(x), Str(y)) => Some(x == y),
        (Str(_), Int(_) | Float(_)) | (Int(_) | Float(_), Str(_)) => Some(false),
        (Int(x), Int(y)) => Some(x == y),
        (Int(_) | Float(_), Int(_) | Float(_)) => {
            let (x, y) = (num(a)?, num(b)?);
            if x.is_nan() || y.is_nan() {
                return None;
            }
            // integer/float equality is claimed for |n| <= 2^53
            if x.abs() > 9007199254740992.0 || y.abs() > 9007199254740992.0 {
                return None;
            }
            Some(x == y)
        }
        (Bool(x), Bool(y)) => Some(x == y),
        (Array(x), Array(y)) => {
            if x.len() != y.len() {
                return Some(false);
            }
            let mut all = true;
            for (p, q) in x.iter().zip(y) {
                match eq(p, q) {
                    Some(true) => {}
                    Some(false) => all = false,
                    None => return None,
                }
            }
            Some(all)
        }
        (Array(_), Str(_) | Int(_) | Float(_)) | (Str(_) | Int(_) | Float(_), Array(_)) => Some(false),
        // x == empty / x == blank among non-nil, non-boolean x
        (Empty, x) | (x, Empty) => match x {
            Str(s) => Some(s.is_empty()),
            Array(v) => Some(v.is_empty()),
            Object(v) => Some(v.is_empty()),
            Int(_) | Float(_) => Some(false),
            _ => None,
        },
        (Blank, x) | (x, Blank) => match x {
            Str(s) => Some(s.chars().all(|c| c.is_whitespace())),
            Array(v) => Some(v.is_empty()),
            Object(v) => Some(v.is_empty()),
            Int(_) | Float(_) => Some(false),
            _ => None,
        },
        _ => None,
    }
}

/// ordering on the claimed cells: numbers numerically, strings lexicographically, string vs
/// number never ordered; None = not claimed
pub fn cmp(a: &RVal, b: &RVal) -> Option<Option<std::cmp::Ordering>> {
    use RVal::*;
    match (a, b) {
        (Str(x), Str(y)) => Some(Some(x.cmp(y))),
        (Int(x), Int(y)) => Some(Some(x.cmp(y))),
        (Int(_) | Float(_), Int(_) | Float(_)) => {
            let (x, y) = (num(a)?, num(b)?);
            if x.is_nan() || y.is_nan() || x.abs() > 9007199254740992.0 || y.abs() > 9007199254740992.0 {
                return None;
            }
            Some(x.partial_cmp(&y))
        }
        (Str(_), Int(_) | Float(_)) | (Int(_) | Float(_), Str(_)) => Some(None),
        (Nil, Int(_) | Float(_) | Str(_)) | (Int(_) | Float(_) | Str(_), Nil) => Some(None),
        _ => None,
    }
}

/// result of `a OP b` on the claimed cells
pub fn compare(a: &RVal, op: Op, b: &RVal) -> Option<bool> {
    use std::cmp::Ordering::*;
    match op {
        Op::Eq => eq(a, b),
        Op::Ne | Op::NeAlt => eq(a, b).map(|x| !x),
        Op::Lt => cmp(a, b).map(|o| o == Some(Less)),
        Op::Gt => cmp(a, b).map(|o| o == Some(Greater)),
        Op::Le => match (cmp(a, b)?, eq(a, b)) {
            (Some(Less), _) => Some(true),
            (Some(Equal), _) => Some(true),
            (Some(Greater), _) => Some(false),
            (None, Some(false)) => Some(false),
            _ => None,
        },
        Op::Ge => match (cmp(a, b)?, eq(a, b)) {
            (Some(Greater), _) => Some(true),
            (Some(Equal), _) => Some(true),
            (Some(Less), _) => Some(false),
            (None, Some(false)) => Some(false),
            _ => None,
        },
        Op::Contains => match (a, b) {
            (RVal::Str(x), RVal::Str(y)) => Some(x.contains(y.as_str())),
            (RVal::Array(xs), y) => {
                let mut any = false;
                for x in xs {
                    match eq(x, y) {
                        Some(true) => any = true,
                        Some(false) => {}
                        None => return None,
                    }
                }
                Some(any)
            }
            _ => None,
        },
    }
}

// ------------------------------------------------------------------------------------------
// interpreter
// ------------------------------------------------------------------------------------------

#[derive(Clone, Debug, PartialEq)]
pub enum Res {
    Out(String),
    Err,
    Unspec(String),
}

#[derive(Clone, Debug)]
pub enum Partial {
    Ok(Vec<Node>),
    Broken,
}

enum Stop {
    Err,
    Unspec(String),
}

type R<T> = Result<T, Stop>;

fn unspec<T>(why: &str) -> R<T> {
    Err(Stop::Unspec(why.to_string()))
}

#[derive(Clone, Debug)]
enum Frame {
    /// loop variables / include arguments: transparent
    Locals(BTreeMap<String, RVal>),
    /// assigned variables (assign/capture land in the nearest one)
    Globals(BTreeMap<String, RVal>),
    /// caller data
    Data(BTreeMap<String, RVal>),
    /// render arguments: hides everything below
    Sandbox(BTreeMap<String, RVal>),
}

#[derive(Clone, Copy, PartialEq, Debug)]
enum Interrupt {
    Break,
    Continue,
}

#[derive(Default)]
struct Registers {
    interrupt: Option<Interrupt>,
    cycles: HashMap<String, usize>,
    ifchanged: Option<String>,
}

pub struct Interp<'a> {
    partials: &'a HashMap<String, Partial>,
    counters: BTreeMap<String, i64>,
    frames: Vec<Frame>,
    regs: Registers,
    out: String,
    loop_depth: usize,
    pub steps: u64,
    /// how an include/render argument whose value is undefined is treated: an error (false) or
    /// bound to nil (true) — the statements allow either, but never "not bound at all"
    pub undefined_args_as_nil: bool,
    pub touched_undefined_arg: bool,
}

fn forloop_obj(i: usize, n: usize, parent: Option<RVal>) -> RVal {
    let mut kv = vec![
        ("length".to_string(), RVal::Int(n as i64)),
        ("index0".to_string(), RVal::Int(i as i64)),
        ("index".to_string(), RVal::Int(i as i64 + 1)),
        ("rindex0".to_string(), RVal::Int((n - i - 1) as i64)),
        ("rindex".to_string(), RVal::Int((n - i) as i64)),
        ("first".to_string(), RVal::Bool(i == 0)),
        ("last".to_string(), RVal::Bool(i + 1 == n)),
    ];
    if let Some(p) = parent {
        kv.push(("parentloop".to_string(), p));
    }
    RVal::Object(kv)
}

fn tablerow_obj(i: usize, n: usize, cols: usize) -> RVal {
    let col0 = i % cols;
    RVal::Object(vec![
        ("length".to_string(), RVal::Int(n as i64)),
        ("index0".to_string(), RVal::Int(i as i64)),
        ("index".to_string(), RVal::Int(i as i64 + 1)),
        ("rindex0".to_string(), RVal::Int((n - i - 1) as i64)),
        ("rindex".to_string(), RVal::Int((n - i) as i64)),
        ("first".to_string(), RVal::Bool(i == 0)),
        ("last".to_string(), RVal::Bool(i + 1 == n)),
        ("col0".to_string(), RVal::Int(col0 as i64)),
        ("col".to_string(), RVal::Int(col0 as i64 + 1)),
        ("col_first".to_string(), RVal::Bool(col0 == 0)),
        ("col_last".to_string(), RVal::Bool(col0 + 1 == cols || i + 1 == n)),
    ])
}

impl<'a> Interp<'a> {
    pub fn new(data: &RVal, partials: &'a HashMap<String, Partial>) -> Interp<'a> {
        let mut d = BTreeMap::new();
        if let RVal::Object(kv) = data {
            for (k, v) in kv {
                d.insert(k.clone(), v.clone());
            }
        }
        Interp {
            partials,
            counters: BTreeMap::new(),
            frames: vec![Frame::Data(d), Frame::Globals(BTreeMap::new())],
            regs: Registers::default(),
            out: String::new(),
            loop_depth: 0,
            steps: 0,
            undefined_args_as_nil: false,
            touched_undefined_arg: false,
        }
    }

    pub fn run(self, nodes: &[Node]) -> Res {
        self.run_flagged(nodes).0
    }

    /// result plus "an undefined include/render argument was evaluated"
    pub fn run_flagged(mut self, nodes: &[Node]) -> (Res, bool) {
        let r = self.run_inner(nodes);
        (r, self.touched_undefined_arg)
    }

    fn run_inner(&mut self, nodes: &[Node]) -> Res {
        match self.block(nodes) {
            Ok(()) => {
                if self.regs.interrupt.is_some() {
                    // break/continue outside any loop: effect on the rest not specified
                    return Res::Unspec("interrupt outside a loop".into());
                }
                Res::Out(std::mem::take(&mut self.out))
            }
            Err(Stop::Err) => Res::Err,
            Err(Stop::Unspec(w)) => Res::Unspec(w),
        }
    }

    fn lookup_root(&self, name: &str) -> Option<RVal> {
        for f in self.frames.iter().rev() {
            match f {
                Frame::Locals(m) | Frame::Globals(m) | Frame::Data(m) => {
                    if let Some(v) = m.get(name) {
                        return Some(v.clone());
                    }
                }
                Frame::Sandbox(m) => return m.get(name).cloned(),
            }
        }
        self.counters.get(name).map(|i| RVal::Int(*i))
    }

    fn set_global(&mut self, name: &str, v: RVal) {
        for f in self.frames.iter_mut().rev() {
            if let Frame::Globals(m) = f {
                m.insert(name.to_string(), v);
                return;
            }
        }
    }

    /// evaluate a path; Ok(None) = some step is missing
    fn path(&mut self, p: &Path) -> R<Option<RVal>> {
        let mut cur = match self.lookup_root(&p.root) {
            Some(v) => v,
            None => return Ok(None),
        };
        for seg in &p.segs {
            let idx = match seg {
                Seg::Dot(n) => RVal::Str(n.clone()),
                Seg::Lit(v) => v.clone(),
                Seg::Var(q) => match self.path(q)? {
                    Some(v @ (RVal::Int(_) | RVal::Str(_))) => v,
                    Some(_) => return unspec("index expression is not an integer or string"),
                    None => return Ok(None),
                },
            };
            match step(&cur, &idx) {
                Look::Found(v) => cur = v,
                Look::Missing => return Ok(None),
                Look::Unspec => return unspec("path step not specified"),
            }
        }
        Ok(Some(cur))
    }

    /// value of an expression where a missing variable is an error (output tags)
    fn eval_strict(&mut self, e: &Expr) -> R<RVal> {
        match e {
            Expr::Lit(v) => Ok(v.clone()),
            Expr::Var(p) => match self.path(p)? {
                Some(v) => Ok(v),
                None => Err(Stop::Err),
            },
        }
    }

    /// value where "undefined" is outside the specified behaviour (comparisons, loop sources, ...)
    fn eval_defined(&mut self, e: &Expr, what: &str) -> R<RVal> {
        match e {
            Expr::Lit(v) => Ok(v.clone()),
            Expr::Var(p) => match self.path(p)? {
                Some(v) => Ok(v),
                None => unspec(&format!("undefined variable in {what}")),
            },
        }
    }

    /// value of an include/render argument
    fn eval_arg(&mut self, e: &Expr) -> R<RVal> {
        match e {
            Expr::Lit(v) => Ok(v.clone()),
            Expr::Var(p) => match self.path(p)? {
                Some(v) => Ok(v),
                None => {
                    self.touched_undefined_arg = true;
                    if self.undefined_args_as_nil {
                        Ok(RVal::Nil)
                    } else {
                        Err(Stop::Err)
                    }
                }
            },
        }
    }

    fn filters(&mut self, mut v: RVal, fs: &[FilterCall]) -> R<RVal> {
        for f in fs {
            let args: Vec<RVal> = {
                let mut a = Vec::new();
                for e in &f.args {
                    a.push(self.eval_defined(e, "filter argument")?);
                }
                a
            };
            v = match (f.name.as_str(), &v, args.as_slice()) {
                ("vdump", x, []) => RVal::Str(x.dump()),
                ("digest", x, []) => match print(x) {
                    Some(t) => RVal::Str(crate::plug::digest_text(&t)),
                    None => return unspec("printed form not specified"),
                },
                ("append", RVal::Str(s), [RVal::Str(t)]) => RVal::Str(format!("{s}{t}")),
                ("append", RVal::Str(s), [RVal::Int(t)]) => RVal::Str(format!("{s}{t}")),
                ("append", RVal::Int(s), [RVal::Str(t)]) => RVal::Str(format!("{s}{t}")),
                ("prepend", RVal::Str(s), [RVal::Str(t)]) => RVal::Str(format!("{t}{s}")),
                ("upcase", RVal::Str(s), []) if s.is_ascii() => RVal::Str(s.to_uppercase()),
                ("downcase", RVal::Str(s), []) if s.is_ascii() => RVal::Str(s.to_lowercase()),
                ("plus", RVal::Int(a), [RVal::Int(b)]) if a.checked_add(*b).is_some() => RVal::Int(a + b),
                ("minus", RVal::Int(a), [RVal::Int(b)]) if a.checked_sub(*b).is_some() => RVal::Int(a - b),
                ("times", RVal::Int(a), [RVal::Int(b)]) if a.checked_mul(*b).is_some() => RVal::Int(a * b),
                ("size", RVal::Str(s), []) => RVal::Int(s.chars().count() as i64),
                ("size", RVal::Array(xs), []) => RVal::Int(xs.len() as i64),
                ("default", RVal::Nil, [d]) => d.clone(),
                ("default", RVal::Bool(false), [d]) => d.clone(),
                ("default", RVal::Str(s), [d]) if s.is_empty() => d.clone(),
                ("default", RVal::Int(_), [_]) => v.clone(),
                ("default", RVal::Str(_), [_]) => v.clone(),
                ("join", RVal::Array(xs), [RVal::Str(sep)]) => {
                    let mut parts = Vec::new();
                    for x in xs {
                        match x {
                            RVal::Int(_) | RVal::Str(_) => parts.push(print(x).unwrap_or_default()),
                            _ => return unspec("join of non-scalar elements"),
                        }
                    }
                    RVal::Str(parts.join(sep))
                }
                ("first", RVal::Array(xs), []) if !xs.is_empty() => xs[0].clone(),
                ("last", RVal::Array(xs), []) if !xs.is_empty() => xs[xs.len() - 1].clone(),
                _ => return unspec("filter outside the interpreter's specified domain"),
            };
        }
        Ok(v)
    }

    fn atom(&mut self, a: &Atom) -> R<bool> {
        match a {
            Atom::Truthy(Expr::Lit(v)) => Ok(truthy(v)),
            // an undefined name counts as nil
            Atom::Truthy(Expr::Var(p)) => Ok(self.path(p)?.map(|v| truthy(&v)).unwrap_or(false)),
            Atom::Cmp(l, op, r) => {
                let a = self.eval_defined(l, "comparison")?;
                let b = self.eval_defined(r, "comparison")?;
                match compare(&a, *op, &b) {
                    Some(x) => Ok(x),
                    None => unspec("comparison cell not fixed by the statements"),
                }
            }
        }
    }

    fn cond(&mut self, c: &Cond) -> R<bool> {
        // x or y and z  ==  x or (y and z); evaluation is left to right with short-circuit
        for ands in &c.ors {
            let mut all = true;
            for a in ands {
                if !self.atom(a)? {
                    all = false;
                    break;
                }
            }
            if all {
                return Ok(true);
            }
        }
        Ok(false)
    }

    fn collection(&mut self, c: &Coll) -> R<Vec<RVal>> {
        match c {
            Coll::Range(a, b) => {
                let (a, b) = (self.eval_defined(a, "range bound")?, self.eval_defined(b, "range bound")?);
                match (a, b) {
                    (RVal::Int(a), RVal::Int(b)) => {
                        if b - a > 100_000 {
                            return unspec("huge range");
                        }
                        Ok((a..=b).map(RVal::Int).collect())
                    }
                    _ => unspec("range bound is not an integer"),
                }
            }
            Coll::Expr(e) => match self.eval_defined(e, "loop source")? {
                RVal::Array(xs) => Ok(xs),
                RVal::Nil => Ok(vec![]),
                RVal::Object(kv) => {
                    if kv.len() > 1 {
                        return unspec("iteration order of a multi-key object");
                    }
                    Ok(kv.into_iter().map(|(k, v)| RVal::Array(vec![RVal::Str(k), v])).collect())
                }
                _ => unspec("loop over a scalar"),
            },
        }
    }

    fn window(&mut self, items: Vec<RVal>, limit: &Option<Expr>, offset: &Option<Expr>, reversed: bool) -> R<Vec<RVal>> {
        let n = items.len();
        let off = match offset {
            None => 0usize,
            Some(e) => match self.eval_defined(e, "offset")? {
                RVal::Int(i) if i >= 0 => i as usize,
                _ => return unspec("offset is not a non-negative integer"),
            },
        };
        let lim = match limit {
            None => None,
            Some(e) => match self.eval_defined(e, "limit")? {
                RVal::Int(i) if i >= 0 => Some(i as usize),
                _ => return unspec("limit is not a non-negative integer"),
            },
        };
        let start = off.min(n);
        let end = match lim {
            Some(l) => (start + l).min(n),
            None => n,
        };
        let mut sel: Vec<RVal> = items[start..end].to_vec();
        if reversed {
            sel.reverse();
        }
        Ok(sel)
    }

    fn block(&mut self, nodes: &[Node]) -> R<()> {
        for n in nodes {
            self.node(n)?;
            if self.regs.interrupt.is_some() {
                break;
            }
        }
        Ok(())
    }

    fn with_locals<T>(&mut self, m: BTreeMap<String, RVal>, f: impl FnOnce(&mut Self) -> R<T>) -> R<T> {
        self.frames.push(Frame::Locals(m));
        let r = f(self);
        self.frames.pop();
        r
    }

    fn partial(&self, name_v: &RVal) -> R<&'a Vec<Node>> {
        let name = match name_v {
            RVal::Str(s) => s.clone(),
            _ => return unspec("partial name is not a string"),
        };
        match self.partials.get(&name) {
            Some(Partial::Ok(nodes)) => Ok(nodes),
            Some(Partial::Broken) => Err(Stop::Err),
            None => Err(Stop::Err),
        }
    }

    fn node(&mut self, n: &Node) -> R<()> {
        self.steps += 1;
        if self.steps > 200_000 {
            return unspec("step budget");
        }
        match n {
            Node::Text(t) => self.out.push_str(t),
            Node::Raw(t) => self.out.push_str(t),
            Node::Comment(_) => {}
            Node::Out(e, fs) => {
                let v = self.eval_strict(e)?;
                let v = self.filters(v, fs)?;
                match print(&v) {
                    Some(s) => self.out.push_str(&s),
                    None => return unspec("printed form not specified"),
                }
            }
            Node::Assign(name, e, fs) => {
                let v = self.eval_defined(e, "assign")?;
                let v = self.filters(v, fs)?;
                self.set_global(name, v);
            }
            Node::Capture(name, body) => {
                let saved = std::mem::take(&mut self.out);
                let r = self.block(body);
                let captured = std::mem::replace(&mut self.out, saved);
                r?;
                self.set_global(name, RVal::Str(captured));
            }
            Node::Incr(name) => {
                let v = *self.counters.get(name).unwrap_or(&0);
                self.out.push_str(&v.to_string());
                self.counters.insert(name.clone(), v + 1);
            }
            Node::Decr(name) => {
                let v = *self.counters.get(name).unwrap_or(&0) - 1;
                self.out.push_str(&v.to_string());
                self.counters.insert(name.clone(), v);
            }
            Node::For { var, coll, limit, offset, reversed, body, else_ } => {
                let items = self.collection(coll)?;
                let sel = self.window(items, limit, offset, *reversed)?;
                if sel.is_empty() {
                    if let Some(e) = else_ {
                        self.block(e)?;
                    }
                } else {
                    let parent = self.lookup_root("forloop");
                    let n = sel.len();
                    self.loop_depth += 1;
                    for (i, v) in sel.into_iter().enumerate() {
                        let mut m = BTreeMap::new();
                        m.insert("forloop".to_string(), forloop_obj(i, n, parent.clone()));
                        m.insert(var.clone(), v);
                        let r = self.with_locals(m, |s| s.block(body));
                        if r.is_err() {
                            self.loop_depth -= 1;
                        }
                        r?;
                        // continue skips only the rest of this iteration; break ends this loop
                        if self.regs.interrupt.take() == Some(Interrupt::Break) {
                            break;
                        }
                    }
                    self.loop_depth -= 1;
                }
            }
            Node::TableRow { var, coll, cols, limit, offset, body } => {
                let items = self.collection(coll)?;
                let sel = self.window(items, limit, offset, false)?;
                let n = sel.len();
                let cols = match cols {
                    None => n.max(1),
                    Some(e) => match self.eval_defined(e, "cols")? {
                        RVal::Int(c) if c >= 1 => c as usize,
                        _ => return unspec("cols is not a positive integer"),
                    },
                };
                for (i, v) in sel.into_iter().enumerate() {
                    let col0 = i % cols;
                    let row = i / cols;
                    if col0 == 0 {
                        self.out.push_str(&format!("<tr class=\"row{}\">", row + 1));
                    }
                    self.out.push_str(&format!("<td class=\"col{}\">", col0 + 1));
                    let mut m = BTreeMap::new();
                    m.insert("tablerow".to_string(), tablerow_obj(i, n, cols));
                    m.insert(var.clone(), v);
                    self.with_locals(m, |s| s.block(body))?;
                    if self.regs.interrupt.is_some() {
                        return unspec("break/continue inside tablerow");
                    }
                    self.out.push_str("</td>");
                    if col0 + 1 == cols || i + 1 == n {
                        self.out.push_str("</tr>");
                    }
                }
            }
            Node::If { arms, else_ } => {
                let mut done = false;
                for (c, body) in arms {
                    if self.cond(c)? {
                        self.block(body)?;
                        done = true;
                        break;
                    }
                }
                if !done {
                    if let Some(e) = else_ {
                        self.block(e)?;
                    }
                }
            }
            Node::Unless { cond, body, else_ } => {
                if !self.cond(cond)? {
                    self.block(body)?;
                } else if let Some(e) = else_ {
                    self.block(e)?;
                }
            }
            Node::Case { target, arms, else_ } => {
                let t = self.eval_defined(target, "case target")?;
                let mut done = false;
                'arms: for (vals, _, body) in arms {
                    for v in vals {
                        let w = self.eval_defined(v, "when value")?;
                        match eq(&t, &w) {
                            Some(true) => {
                                self.block(body)?;
                                done = true;
                                break 'arms;
                            }
                            Some(false) => {}
                            None => return unspec("case comparison cell not fixed"),
                        }
                    }
                }
                if !done {
                    if let Some(e) = else_ {
                        self.block(e)?;
                    }
                }
            }
            Node::Cycle { group, values } => {
                if values.is_empty() {
                    return unspec("cycle without values");
                }
                let key = match group {
                    Some(Expr::Lit(RVal::Str(s))) => format!("g:{s}"),
                    Some(Expr::Var(p)) if p.segs.is_empty() => format!("g:{}", p.root),
                    Some(_) => return unspec("cycle group form"),
                    None => {
                        // ungrouped cycles with the same value list share a position
                        let mut k = String::from("v:");
                        for v in values {
                            match v {
                                Expr::Lit(l) => k.push_str(&format!("{};", l.dump())),
                                Expr::Var(p) => k.push_str(&format!("var:{};", path_src(p))),
                            }
                        }
                        k
                    }
                };
                let idx = *self.regs.cycles.get(&key).unwrap_or(&0);
                self.regs.cycles.insert(key, (idx + 1) % values.len());
                if idx >= values.len() {
                    // same group used with a shorter list: the implementation reports an error;
                    // not fixed by the statements
                    return unspec("mismatched cycle groups");
                }
                let v = self.eval_strict(&values[idx])?;
                match print(&v) {
                    Some(s) => self.out.push_str(&s),
                    None => return unspec("printed form not specified"),
                }
            }
            Node::IfChanged(body) => {
                let saved = std::mem::take(&mut self.out);
                let r = self.block(body);
                let rendered = std::mem::replace(&mut self.out, saved);
                r?;
                if self.regs.ifchanged.as_deref() != Some(rendered.as_str()) {
                    self.out.push_str(&rendered);
                    self.regs.ifchanged = Some(rendered);
                }
            }
            Node::Break => self.regs.interrupt = Some(Interrupt::Break),
            Node::Continue => self.regs.interrupt = Some(Interrupt::Continue),
            Node::Include { name, args } => {
                let nv = self.eval_defined(name, "partial name")?;
                let mut m = BTreeMap::new();
                for (k, e) in args {
                    let v = self.eval_arg(e)?;
                    m.insert(k.clone(), v);
                }
                let nodes = self.partial(&nv)?;
                // same scope, same registers: interrupts and assignments reach the caller
                self.with_locals(m, |s| s.block(nodes))?;
            }
            Node::Render { name, mode, args } => {
                let nv = self.eval_defined(name, "partial name")?;
                if let RenderMode::With(_, alias) | RenderMode::For(_, alias) = mode {
                    if args.iter().any(|(k, _)| k == alias) || alias == "forloop" {
                        return unspec("render alias also given as an argument");
                    }
                }
                // render-for: *when* the key: value arguments are evaluated (once, or again for
                // every element) is not fixed by the statement. The reference evaluates them once
                // and declares the case unspecified where the moment matters: an empty collection
                // whose arguments would fail, or arguments whose values change between elements.
                let items_for = match mode {
                    RenderMode::For(c, _) => Some(self.collection(c)?),
                    _ => None,
                };
                let mut base = BTreeMap::new();
                for (k, e) in args {
                    let v = match self.eval_arg(e) {
                        Ok(v) => v,
                        Err(Stop::Err) if items_for.as_ref().map_or(false, |i| i.is_empty()) => {
                            return unspec("failing argument of a render-for over an empty collection");
                        }
                        Err(e) => return Err(e),
                    };
                    base.insert(k.clone(), v);
                }
                let runs: Vec<BTreeMap<String, RVal>> = match mode {
                    RenderMode::Plain => vec![base.clone()],
                    RenderMode::With(e, alias) => {
                        let v = self.eval_defined(e, "render with")?;
                        let mut m = base.clone();
                        m.insert(alias.clone(), v);
                        vec![m]
                    }
                    RenderMode::For(_, alias) => {
                        let items = items_for.clone().unwrap_or_default();
                        let n = items.len();
                        items
                            .into_iter()
                            .enumerate()
                            .map(|(i, v)| {
                                let mut m = base.clone();
                                m.insert("forloop".to_string(), forloop_obj(i, n, None));
                                m.insert(alias.clone(), v);
                                m
                            })
                            .collect()
                    }
                };
                if runs.is_empty() {
                    return Ok(());
                }
                let nodes = self.partial(&nv)?;
                let is_for = matches!(mode, RenderMode::For(..));
                for (run_idx, m) in runs.into_iter().enumerate() {
                    if is_for && run_idx > 0 {
                        for (k, e) in args {
                            match self.eval_arg(e) {
                                Ok(v) if base.get(k).map_or(false, |b| b.dump() == v.dump()) => {}
                                _ => return unspec("render-for arguments change between elements"),
                            }
                        }
                    }
                    // isolation: only the arguments are visible; fresh assigned-variables layer
                    // and fresh registers (interrupts, cycle, ifchanged); counters stay shared
                    let saved_regs = std::mem::take(&mut self.regs);
                    let saved_depth = std::mem::replace(&mut self.loop_depth, 0);
                    self.frames.push(Frame::Sandbox(m));
                    self.frames.push(Frame::Globals(BTreeMap::new()));
                    let r = self.block(nodes);
                    self.frames.pop();
                    self.frames.pop();
                    let inner = std::mem::replace(&mut self.regs, saved_regs);
                    self.loop_depth = saved_depth;
                    r?;
                    // render-for is a loop for the partial's own top-level interrupts (anchored
                    // mechanism "render-for resets its own interrupt per iteration"): a break ends
                    // the remaining elements, a continue goes on with the next; neither is ever
                    // seen by the caller. With plain / with-as the interrupt just evaporates.
                    if is_for && inner.interrupt == Some(Interrupt::Break) {
                        break;
                    }
                }
            }
            Node::EnvDump(names) => {
                self.out.push('«');
                for n in names {
                    let v = self.lookup_root(n).map(|v| v.dump());
                    let idx = self.counters.get(n).map(|i| RVal::Int(*i).dump());
                    self.out.push_str(&envdump_entry(n, v.as_deref(), v.as_deref(), v.is_some(), idx.as_deref()));
                }
                self.out.push('»');
            }
        }
        Ok(())
    }
}

/// interpret `main` on `data` with the given partials
pub fn interpret(main: &[Node], data: &RVal, partials: &HashMap<String, Partial>) -> Res {
    Interp::new(data, partials).run(main)
}

/// all acceptable verdicts: normally one; when an include/render argument's value is undefined the
/// render may fail or bind the argument to nil (two verdicts)
pub fn interpret_all(main: &[Node], data: &RVal, partials: &HashMap<String, Partial>) -> Vec<Res> {
    let (r1, touched) = Interp::new(data, partials).run_flagged(main);
    if !touched {
        return vec![r1];
    }
    let mut i2 = Interp::new(data, partials);
    i2.undefined_args_as_nil = true;
    let r2 = i2.run(main);
    vec![r1, r2]
}
