pub mod cfg;
pub mod checks;
pub mod ctx;
pub mod exec;
pub mod gen;
pub mod mon;
pub mod plug;
pub mod pool;
pub mod psrc;
pub mod refm;
pub mod rng;
pub mod val;

pub fn profile_name() -> &'static str {
    if cfg!(debug_assertions) {
        "checked"
    } else {
        "release"
    }
}
