//! C20 — parsers and templates can be shared across threads without changing results.
use crate::cfg::{parser_with, Config, Policy};
use crate::ctx::Ctx;
use crate::exec::render;
use crate::gen::prog::{pool, Opts, Pool};
use crate::psrc::{stamp, Delay, Log, RecCompiler, RecSource, StoreLog, THREAD_ID};
use crate::rng::{hash_combine, hash_str, Rng};
use liquid::partials::{EagerCompiler, LazyCompiler};
use liquid::{Parser, ParserBuilder, Template};
use serde_json::json;
use std::sync::{Arc, Barrier, Mutex};

#[derive(Clone, Debug)]
struct Call {
    thread: u64,
    idx: usize,
    op: &'static str,
    ti: usize,
    di: usize,
    call: u64,
    ret: u64,
    got: String,
    want: String,
}

fn build_parser(p: &Pool, policy: Policy, delay: Delay, slog: &StoreLog, llog: &Log) -> Option<Parser> {
    let src = RecSource::new(&p.partials, llog.clone(), delay);
    let b = ParserBuilder::with_stdlib();
    let r = match policy {
        Policy::Lazy => b
            .partials(RecCompiler {
                inner: LazyCompiler::new(src),
                log: slog.clone(),
            })
            .build(),
        _ => b
            .partials(RecCompiler {
                inner: EagerCompiler::new(src),
                log: slog.clone(),
            })
            .build(),
    };
    r.ok()
}

fn standalone(p: &Pool, ti: usize, di: usize) -> String {
    // the same plugin set as the shared parser (a parse failure lists the registered plugins)
    let parser = match ParserBuilder::with_stdlib().partials(EagerCompiler::new(crate::cfg::source(&p.partials))).build() {
        Ok(x) => x,
        Err(_) => return "parser-build-error".into(),
    };
    match parser.parse(&p.mains[ti]) {
        Ok(t) => render(&t, &p.datas[di].to_object()).summary_with_error(),
        Err(e) => parse_error(&e),
    }
}

/// a parse failure is identified by its whole message (it lists the registered plugins, which a
/// shared parser must report exactly as a private one does)
fn parse_error(e: &liquid::Error) -> String {
    format!("parse-error:{e}")
}

pub struct RoundCfg {
    pub threads: usize,
    pub calls: usize,
    pub policy: Policy,
    pub delay: Delay,
    pub skew: bool,
    /// every thread's first call is `parse` of the pool's last template (used with a last template
    /// that does not parse: the first failing parse on the shared parser is then simultaneous)
    pub first_parse_last: bool,
}

/// one concurrent round; returns (calls, store events) or a violation
fn round(p: &Pool, rc: &RoundCfg, seed: u64) -> Result<(Vec<Call>, Vec<crate::psrc::StoreEvent>), (String, String)> {
    let slog = StoreLog::default();
    let llog = Log::default();
    let parser = build_parser(p, rc.policy, rc.delay, &slog, &llog).ok_or(("harness".to_string(), "parser build failed".to_string()))?;
    let parser = Arc::new(parser);
    // templates that do not parse are recognised on a private parser, so that the *first* failing
    // parse on the shared parser happens inside the concurrent phase
    let private = parser_with(Config::Stdlib, Policy::Eager, &p.partials).ok();
    let templates: Arc<Vec<Option<Template>>> = Arc::new(
        p.mains
            .iter()
            .map(|m| if private.as_ref().map(|q| q.parse(m).is_ok()).unwrap_or(true) { parser.parse(m).ok() } else { None })
            .collect(),
    );
    let datas: Arc<Vec<liquid::Object>> = Arc::new(p.datas.iter().map(|d| d.to_object()).collect());
    let expected: Arc<Vec<Vec<String>>> = Arc::new(
        (0..p.mains.len())
            .map(|ti| (0..p.datas.len()).map(|di| standalone(p, ti, di)).collect())
            .collect(),
    );
    let mains = Arc::new(p.mains.clone());
    let barrier = Arc::new(Barrier::new(rc.threads));
    let all: Arc<Mutex<Vec<Call>>> = Arc::new(Mutex::new(Vec::new()));
    let mut handles = Vec::new();
    for th in 0..rc.threads {
        let (parser, templates, datas, expected, mains, barrier, all) =
            (parser.clone(), templates.clone(), datas.clone(), expected.clone(), mains.clone(), barrier.clone(), all.clone());
        let ncalls = rc.calls;
        let skew = rc.skew;
        let first_parse_last = rc.first_parse_last;
        let mut rng = Rng::new(seed).fork(th as u64 + 1);
        handles.push(std::thread::spawn(move || {
            THREAD_ID.with(|t| t.set(th as u64 + 1));
            crate::mon::install();
            let mut mine = Vec::new();
            barrier.wait();
            if skew {
                for _ in 0..rng.below(200) {
                    std::hint::spin_loop();
                }
            }
            for idx in 0..ncalls {
                let mut ti = rng.below(mains.len());
                let di = rng.below(datas.len());
                let mut opk = rng.below(4);
                if first_parse_last && idx == 0 {
                    ti = mains.len() - 1;
                    opk = 0;
                }
                let call = stamp();
                let (op, got) = match opk {
                    0 => {
                        // parse on the shared parser, then render the new template
                        let got = match crate::mon::guard(|| parser.parse(&mains[ti])) {
                            Ok(Ok(t)) => render(&t, &datas[di]).summary_with_error(),
                            Ok(Err(e)) => parse_error(&e),
                            Err(p) => format!("panic:{}", p.key()),
                        };
                        ("parse+render", got)
                    }
                    1 => {
                        // streaming render
                        let got = match &templates[ti] {
                            Some(t) => {
                                let mut buf = Vec::new();
                                match crate::mon::guard(|| t.render_to(&mut buf, &datas[di])) {
                                    Ok(Ok(())) => match String::from_utf8(buf) {
                                        Ok(s) => format!("ok:{s}"),
                                        Err(_) => "bad-utf8".to_string(),
                                    },
                                    Ok(Err(e)) => format!("err:{}", crate::exec::first_line(&e)),
                                    Err(p) => format!("panic:{}", p.key()),
                                }
                            }
                            None => expected[ti][di].clone(),
                        };
                        ("render_to", got)
                    }
                    2 => {
                        // Template::render itself (the String-returning entry point), compared byte for byte
                        let got = match &templates[ti] {
                            Some(t) => match crate::mon::guard(|| t.render(&datas[di])) {
                                Ok(Ok(s)) => {
                                    if std::str::from_utf8(s.as_bytes()).is_ok() {
                                        format!("ok:{s}")
                                    } else {
                                        "bad-utf8".to_string()
                                    }
                                }
                                Ok(Err(e)) => format!("err:{}", crate::exec::first_line(&e)),
                                Err(p) => format!("panic:{}", p.key()),
                            },
                            None => expected[ti][di].clone(),
                        };
                        ("render", got)
                    }
                    _ => {
                        let got = match &templates[ti] {
                            Some(t) => render(t, &datas[di]).summary_with_error(),
                            None => expected[ti][di].clone(),
                        };
                        ("render_to+render", got)
                    }
                };
                let ret = stamp();
                mine.push(Call {
                    thread: th as u64 + 1,
                    idx,
                    op,
                    ti,
                    di,
                    call,
                    ret,
                    got,
                    want: expected[ti][di].clone(),
                });
            }
            all.lock().unwrap().extend(mine);
        }));
    }
    for h in handles {
        if h.join().is_err() {
            return Err(("worker-thread-panicked".into(), "a worker thread panicked outside the guarded calls".into()));
        }
    }
    let calls = std::mem::take(&mut *all.lock().unwrap());
    for c in &calls {
        if c.got != c.want {
            let key = if c.got.starts_with("panic:") { c.got.trim_start_matches("panic:").to_string() } else { "concurrent-result-differs".to_string() };
            return Err((
                key,
                format!(
                    "thread {} call {} {}(template {}, data {}) = {:?} but alone it returns {:?} [{} threads, {}, {:?}]",
                    c.thread,
                    c.idx,
                    c.op,
                    c.ti,
                    c.di,
                    c.got.chars().take(160).collect::<String>(),
                    c.want.chars().take(160).collect::<String>(),
                    rc.threads,
                    rc.policy.name(),
                    rc.delay
                ),
            ));
        }
    }
    // after the concurrent phase the same parser still works sequentially (no poisoning)
    for ti in 0..p.mains.len() {
        for di in 0..p.datas.len() {
            let got = match crate::mon::guard(|| parser.parse(&p.mains[ti])) {
                Ok(Ok(t)) => render(&t, &datas[di]).summary_with_error(),
                Ok(Err(e)) => parse_error(&e),
                Err(pn) => format!("panic:{}", pn.key()),
            };
            if got != expected[ti][di] {
                return Err((
                    "poisoned-after-concurrency".into(),
                    format!("after the concurrent phase, (template {ti}, data {di}) = {:?}, alone {:?}", got.chars().take(160).collect::<String>(), expected[ti][di].chars().take(160).collect::<String>()),
                ));
            }
        }
    }
    let events = std::mem::take(&mut *slog.0.lock().unwrap());
    Ok((calls, events))
}

fn pool_json(p: &Pool) -> serde_json::Value {
    json!({
        "partials": p.partials.iter().map(|(n, t)| json!([n, t])).collect::<Vec<_>>(),
        "mains": p.mains,
        "datas": p.datas.iter().map(|d| d.to_json()).collect::<Vec<_>>(),
    })
}

/// the pool of a hammer round: one hot template exercising filters and tags that could keep a
/// memo / scratch buffer per parsed node or per process, four data objects that differ everywhere
fn hammer_pool(r: &mut Rng) -> Pool {
    use crate::val::RVal;
    let main = concat!(
        "{{ html | strip_html }}|{{ when | date: '%Y-%m-%d %H:%M %z' }}|{{ words | split: ' ' | sort | join: ',' | upcase | truncate: 40 }}|",
        "{% ifchanged %}{{ words | size }}{% endifchanged %}{% cycle 'a', 'b' %}{% capture c %}{{ html | escape_once }}{% endcapture %}{{ c | size }}|",
        "{% include dynp %}{% render dynp, b: words, c: when %}|{% case k %}{% when 0 %}zero{% when 1, 2 %}low{% else %}high{% endcase %}",
        "{% for w in (1..3) %}{% if k == w %}={{ w }}{% else %}.{% endif %}{% endfor %}|{{ words | replace: 'a', 'A' | url_encode | size }}|{{ k | plus: 1 | times: 3 | modulo: 7 }}"
    );
    let datas = (0..4usize)
        .map(|k| {
            RVal::Object(vec![
                ("k".into(), RVal::Int(k as i64)),
                ("b".into(), RVal::Int(r.range(0, 99))),
                ("c".into(), RVal::Str(format!("c{k}"))),
                ("dynp".into(), RVal::Str(format!("dyn{}", k % 2))),
                ("html".into(), RVal::Str(format!("<p class=\"k{k}\">paragraph number {k} <b>bold {k}</b> and <i>more text</i></p><!-- c{k} -->"))),
                ("when".into(), RVal::Str(format!("20{:02}-0{}-1{} 0{}:30:00 +0{}00", 10 + k, 1 + k, k, k, k))),
                ("words".into(), RVal::Str(format!("alpha-{k} beta-{k} gamma-{k} delta-{k} epsilon-{k} zeta-{k}"))),
            ])
        })
        .collect();
    Pool {
        partials: vec![("dyn0".into(), "<dyn0:{{ b }}>".into()), ("dyn1".into(), "<dyn1:{{ c }}>".into())],
        mains: vec![main.to_string()],
        datas,
    }
}

/// the pool of a cross round: partials `p` and `q` include each other from inside the body of a
/// block chosen per round (data `gq` lets p include q, `gp` lets q include p; never both)
fn cross_pool(r: &mut Rng) -> Pool {
    use crate::val::RVal;
    let blocks: [(&str, &str); 8] = [
        ("{% ifchanged %}", "{% endifchanged %}"),
        ("{% capture z %}", "{% endcapture %}{{ z }}"),
        ("{% for i in (1..2) %}", "{% endfor %}"),
        ("{% tablerow i in (1..2) %}", "{% endtablerow %}"),
        ("{% if k %}", "{% endif %}"),
        ("{% unless nope %}", "{% endunless %}"),
        ("{% case k %}{% when 1 %}", "{% else %}other{% endcase %}"),
        ("{% for i in (1..2) %}{% ifchanged %}{% capture z %}", "{% endcapture %}{{ z | size }}{% endifchanged %}{% endfor %}"),
    ];
    let (o1, c1) = *r.pick(&blocks);
    let (o2, c2) = if r.chance(1, 2) { (o1, c1) } else { *r.pick(&blocks) };
    let pad = "{{ w | upcase | append: '-padding-padding' | truncate: 30 }}";
    let p = format!("{o1}P{{{{ k }}}}{pad}{{% if gq %}}{{% include 'q' %}}{{% endif %}}{pad}p{c1}");
    let q = format!("{o2}Q{{{{ k }}}}{pad}{{% if gp %}}{{% include 'p' %}}{{% endif %}}{pad}q{c2}");
    let data = |gp: bool, gq: bool, k: i64| {
        RVal::Object(vec![("gp".into(), RVal::Bool(gp)), ("gq".into(), RVal::Bool(gq)), ("k".into(), RVal::Int(k)), ("w".into(), RVal::Str(format!("word-{k}-word-{k}")))])
    };
    Pool {
        partials: vec![("p".into(), p), ("q".into(), q)],
        mains: vec!["<{% include 'p' %}>".to_string(), "[{% include 'q' %}]".to_string(), "{% render 'p', gq: gq, k: k, w: w %}|{% render 'q', gp: gp, k: k, w: w %}".to_string()],
        datas: vec![data(false, true, 1), data(true, false, 1), data(false, false, 2)],
    }
}

fn gen_pool(r: &mut Rng) -> Pool {
    let opts = Opts {
        max_depth: 3,
        max_len: 4,
        allow_partials: true,
        undefined_pct: 3,
        allow_toplevel_interrupt: true,
        ..Opts::default()
    };
    let mut p = pool(r, 3, 2, 3, false, &opts);
    // a broken partial and a missing name, used on a dead path by template 0 and on executed
    // paths by template 2 (so their first, failing, lazy compilation is contended as well)
    p.partials.push(("pbroken".into(), "{% if %}".into()));
    // make sure partials and the process-wide regex caches (strip_html, date) are exercised
    p.mains[0].push_str("{% include 'p0' %}{% render 'p1', a: a, b: b, c: c, d: d %}{{ '<b>x</b>' | strip_html }}{{ '2020-01-02' | date: '%Y' }}{% for i in (1..3) %}{% cycle 'q': 1, 2 %}{% increment n %}{% ifchanged %}{{ i }}{% endifchanged %}{% endfor %}{% if false %}{% include 'pbroken' %}{% render 'missing' %}{% endif %}");
    if p.mains.len() > 1 {
        p.mains[1].push_str("{% capture q %}{% include 'p2' %}{% endcapture %}{{ q | size }}");
        // many private-buffer constructs (ifchanged, capture) with sizeable bodies, so that
        // per-node scratch state shared between threads would be overwritten mid-use
        p.mains[1].push_str("{% for i in (1..8) %}{% ifchanged %}<{{ i }}:{{ c }}{{ c }}{{ b }}-{{ 'padding-padding-padding' | upcase }}>{% endifchanged %}{% capture w %}{{ i }}{{ c }}{{ c }}{% endcapture %}{{ w | size }}{% ifchanged %}same{% endifchanged %}{% endfor %}");
    }
    // one shared tag whose partial name comes from the data and differs between the data objects
    // (per-tag caches of "the" resolved partial would be shared by overlapping renders)
    p.partials.push(("dyn0".into(), "<dyn0:{{ b }}>".into()));
    p.partials.push(("dyn1".into(), "<dyn1:{{ c }}>".into()));
    for m in p.mains.iter_mut() {
        *m = format!("{{% include dynp %}}{{% render dynp, b: b, c: c %}}{m}");
    }
    for (k, d) in p.datas.iter_mut().enumerate() {
        if let crate::val::RVal::Object(kv) = d {
            kv.push(("dynp".into(), crate::val::RVal::Str(format!("dyn{}", k % 2))));
            // per-data inputs for filters whose nodes (or process-wide helpers) might memoise the
            // last input: long enough to be worth caching, different for every data object
            kv.push(("html".into(), crate::val::RVal::Str(format!("<p class=\"k{k}\">paragraph number {k} <b>bold {k}</b> and <i>more text</i></p><!-- c{k} -->"))));
            kv.push(("when".into(), crate::val::RVal::Str(format!("20{:02}-0{}-1{} 0{}:30:00 +0{}00", 10 + k, 1 + k % 8, k % 9, k % 9, k % 9))));
            kv.push(("words".into(), crate::val::RVal::Str(format!("alpha-{k} beta-{k} gamma-{k} delta-{k} epsilon-{k} zeta-{k}"))));
        }
    }
    for m in p.mains.iter_mut() {
        m.push_str("{{ html | strip_html }}|{{ when | date: '%Y-%m-%d %H:%M %z' }}|{{ words | split: ' ' | sort | join: ',' | upcase | truncate: 40 }}|{{ html | escape_once | size }}|{{ words | replace: 'a', 'A' | url_encode | size }}");
    }
    if p.mains.len() > 2 {
        let tail = if r.chance(1, 2) { "{% include 'pbroken' %}" } else { "{% render 'missing' %}" };
        p.mains[2].push_str(tail);
    }
    p
}

pub fn run(ctx: &mut Ctx, args: &[String]) {
    ctx.start_watchdog(300);
    let rounds_override: Option<u64> = args.iter().position(|a| a == "--rounds").and_then(|i| args.get(i + 1)).and_then(|s| s.parse().ok());
    let max_threads: usize = args.iter().position(|a| a == "--max-threads").and_then(|i| args.get(i + 1)).and_then(|s| s.parse().ok()).unwrap_or(16);
    let n = rounds_override.unwrap_or(ctx.scale(1_200u64, 20_000u64));
    let rng = ctx.rng("c20");
    for i in 0..n {
        if !ctx.mine_idx(i) {
            continue;
        }
        let mut r = rng.fork(i);
        let max_calls: usize = args.iter().position(|a| a == "--max-calls").and_then(|i| args.get(i + 1)).and_then(|s| s.parse().ok()).unwrap_or(50);
        // every 50th round is a "hammer" round: one small hot template, four data objects, eight
        // threads, many calls -- the shape in which a narrow window in per-node or process-wide
        // state of a filter or tag is actually hit
        let hammer = i % 50 == 49 && max_calls >= 50 && max_threads >= 8;
        // every 25th round is a "cross" round: two partials that include each other from inside
        // every kind of block body (never recursively within one render), entered from opposite
        // ends by different threads -- a block that held a lock while rendering its body would
        // deadlock here
        let cross = i % 25 == 12 && max_threads >= 4;
        let p = if hammer { hammer_pool(&mut r) } else if cross { cross_pool(&mut r) } else { gen_pool(&mut r) };
        let rc = if cross {
            RoundCfg { threads: 8.min(max_threads), calls: 300.min(max_calls.max(50)), policy: if r.chance(1, 2) { Policy::Lazy } else { Policy::Eager }, delay: Delay::None, skew: false, first_parse_last: false }
        } else if hammer {
            RoundCfg { threads: 8, calls: 1500, policy: if r.chance(1, 2) { Policy::Lazy } else { Policy::Eager }, delay: Delay::None, skew: false, first_parse_last: false }
        } else {
            RoundCfg {
            threads: (*r.pick(&[2usize, 2, 3, 4, 4, 8, 16])).min(max_threads),
            calls: (10 + r.below(41)).min(max_calls),
            policy: if r.chance(3, 4) { Policy::Lazy } else { Policy::Eager },
            delay: *r.pick(&[Delay::None, Delay::Yield, Delay::Yield, Delay::Sleep(50), Delay::Sleep(500)]),
            skew: r.chance(1, 2),
            first_parse_last: false,
            }
        };
        // one round in five: the pool gets a template that does not parse (unknown filter / tag /
        // block, so the message lists the registered plugins) and every thread starts by parsing it
        let (p, rc) = if !hammer && !cross && i % 5 == 3 {
            let mut p = p;
            p.mains.push(r.pick(&["{{ a | nosuchfilter }}", "{% nosuchtag a %}", "{% nosuchblock %}{% endnosuchblock %}", "{% if a %}{{ b | nosuchfilter: 1 }}{% endif %}"]).to_string());
            (p, RoundCfg { first_parse_last: true, skew: false, ..rc })
        } else {
            (p, rc)
        };
        let seed = r.next();
        let desc = {
            let mut j = pool_json(&p);
            j["kind"] = json!("threads");
            j["threads"] = json!(rc.threads);
            j["calls"] = json!(rc.calls);
            j["policy"] = json!(rc.policy.name());
            j["delay"] = json!(format!("{:?}", rc.delay));
            j["skew"] = json!(rc.skew);
            j["first_parse_last"] = json!(rc.first_parse_last);
            j["round_seed"] = json!(seed);
            j
        };
        ctx.set_progress(&desc.to_string());
        match round(&p, &rc, seed) {
            Ok((calls, events)) => {
                // interleaving signature: thread ids ordered by call stamp
                let mut order: Vec<(u64, u64)> = calls.iter().map(|c| (c.call, c.thread)).collect();
                order.sort();
                let sig = order.iter().fold(0u64, |h, (_, t)| hash_combine(h, *t));
                ctx.set_insert("interleaving_signatures", sig);
                // overlap evidence: calls whose [call, ret] interval overlaps another thread's
                let mut overlapping = 0u64;
                // (quadratic: on the long hammer rounds only the first 400 calls are examined)
                for c in calls.iter().take(400) {
                    if calls.iter().any(|d| d.thread != c.thread && d.call < c.ret && c.call < d.ret) {
                        overlapping += 1;
                    }
                }
                if hammer {
                    ctx.count("rounds:hammer");
                }
                if cross {
                    ctx.count("rounds:cross-include");
                }
                if rc.first_parse_last {
                    ctx.count("rounds:contended-first-failing-parse");
                }
                ctx.add("calls", calls.len() as u64);
                ctx.add("calls_overlapping_another_thread", overlapping);
                ctx.add("calls_failing_as_expected", calls.iter().filter(|c| !c.want.starts_with("ok:")).count() as u64);
                // contended first use of a name in the store: >= 2 threads inside get/try_get for a
                // name before its first return
                let mut names: Vec<&String> = events.iter().map(|e| &e.name).collect();
                names.sort();
                names.dedup();
                for name in names {
                    let evs: Vec<_> = events.iter().filter(|e| &e.name == name).collect();
                    let first_leave = evs.iter().map(|e| e.leave).min().unwrap_or(0);
                    let inside: std::collections::BTreeSet<u64> = evs.iter().filter(|e| e.enter < first_leave).map(|e| e.thread).collect();
                    if inside.len() >= 2 {
                        ctx.count("store:contended_first_use");
                        if !evs[0].ok {
                            ctx.count("store:contended_first_use_of_broken_or_missing");
                        }
                    }
                }
                ctx.add("store:lookups", events.len() as u64);
                ctx.count(&format!("rounds:threads{}", rc.threads));
                ctx.count(&format!("rounds:{}", rc.policy.name()));
                ctx.record(hash_str(&desc.to_string()), overlapping > 0);
                ctx.sample(|| json!({"threads": rc.threads, "calls_per_thread": rc.calls, "policy": rc.policy.name(), "delay": format!("{:?}", rc.delay), "overlapping_calls": overlapping, "main0": p.mains[0]}));
            }
            Err((key, what)) => {
                if key == "harness" {
                    ctx.inconclusive.push(what);
                } else {
                    ctx.violation(&key, &what, || desc.clone());
                }
            }
        }
    }
}

pub fn replay(j: &serde_json::Value) -> bool {
    let p = Pool {
        partials: j["partials"].as_array().map(|a| a.iter().map(|p| (p[0].as_str().unwrap_or("").to_string(), p[1].as_str().unwrap_or("").to_string())).collect()).unwrap_or_default(),
        mains: j["mains"].as_array().map(|a| a.iter().map(|s| s.as_str().unwrap_or("").to_string()).collect()).unwrap_or_default(),
        datas: j["datas"].as_array().map(|a| a.iter().map(crate::val::RVal::from_json).collect()).unwrap_or_default(),
    };
    let delay = match j["delay"].as_str().unwrap_or("None") {
        "Yield" => Delay::Yield,
        s if s.starts_with("Sleep") => Delay::Sleep(s.trim_start_matches("Sleep(").trim_end_matches(')').parse().unwrap_or(50)),
        _ => Delay::None,
    };
    let rc = RoundCfg {
        threads: j["threads"].as_u64().unwrap_or(4) as usize,
        calls: j["calls"].as_u64().unwrap_or(20) as usize,
        policy: Policy::from_name(j["policy"].as_str().unwrap_or("lazy")),
        delay,
        skew: j["skew"].as_bool().unwrap_or(false),
        first_parse_last: j["first_parse_last"].as_bool().unwrap_or(false),
    };
    // schedules are not reproducible: repeat the round
    for attempt in 0..200 {
        if let Err((k, w)) = round(&p, &rc, j["round_seed"].as_u64().unwrap_or(1) + attempt) {
            println!("VIOLATED (attempt {attempt}) {k}: {w}");
            return true;
        }
    }
    println!("200 repetitions of the round: every call equals its stand-alone result");
    false
}
