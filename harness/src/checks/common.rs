//! Shared driver for the interpreter-based checks (C04, C05, C06, C08): render the generated
//! program on the real crates and compare with the reference interpreter's verdict.
use crate::cfg::{parser_with, Config, Policy};
use crate::ctx::Ctx;
use crate::exec::{render, Out};
use crate::gen::ast::{to_source, Node, Style};
use crate::refm::{interpret_all, Partial, Res};
use crate::rng::{hash_str, Rng};
use crate::val::{dump_view, RVal};
use liquid::ObjectView;
use serde_json::json;
use std::collections::HashMap;

#[derive(Clone, Debug)]
pub enum PSrc {
    Ast(Vec<Node>),
    /// text that does not parse
    Broken(String),
}

pub struct Case<'a> {
    pub main: &'a [Node],
    pub partials: &'a [(String, PSrc)],
    pub data: &'a RVal,
    pub family: &'a str,
    /// delete newlines from the real output before comparing (tablerow scaffolding)
    pub strip_newlines: bool,
    pub style_seed: u64,
}

#[derive(Debug, PartialEq)]
pub enum Verdict {
    Agree,
    Unspecified,
    Violation,
    Skipped,
}

pub fn run_case(ctx: &mut Ctx, c: &Case<'_>, nontrivial: bool) -> Verdict {
    let mut style = Style::random(Rng::new(c.style_seed));
    let main_src = to_source(c.main, &mut style);
    let mut psrc: Vec<(String, String)> = Vec::new();
    let mut pmodel: HashMap<String, Partial> = HashMap::new();
    for (name, p) in c.partials {
        match p {
            PSrc::Ast(nodes) => {
                psrc.push((name.clone(), to_source(nodes, &mut style)));
                pmodel.insert(name.clone(), Partial::Ok(nodes.clone()));
            }
            PSrc::Broken(t) => {
                psrc.push((name.clone(), t.clone()));
                pmodel.insert(name.clone(), Partial::Broken);
            }
        }
    }
    let h = hash_str(&format!("{main_src}\u{1}{psrc:?}\u{1}{}", c.data.dump()));
    if !ctx.mine(h) {
        return Verdict::Skipped;
    }
    let replay = || {
        json!({"kind": "program", "config": "stdlib", "policy": "eager", "template": main_src,
            "partials": psrc.iter().map(|(n, t)| json!([n, t])).collect::<Vec<_>>(), "data": c.data.to_json(), "family": c.family})
    };
    ctx.set_progress(&main_src);
    let models = interpret_all(c.main, c.data, &pmodel);
    let parser = match parser_with(Config::Stdlib, Policy::Eager, &psrc) {
        Ok(p) => p,
        Err(e) => {
            ctx.inconclusive.push(format!("parser build failed: {e}"));
            return Verdict::Skipped;
        }
    };
    let t = match crate::mon::guard(|| parser.parse(&main_src)) {
        Ok(Ok(t)) => t,
        Ok(Err(e)) => {
            ctx.record(h, nontrivial);
            ctx.violation(
                &format!("{}:well-formed-program-rejected", c.family),
                &format!("generated program rejected at parse: {} | {main_src:?}", e.to_string().lines().next().unwrap_or("")),
                replay,
            );
            return Verdict::Violation;
        }
        Err(p) => {
            ctx.violation(&p.key(), &format!("parse panicked: {}", p.msg), replay);
            return Verdict::Violation;
        }
    };
    let obj = c.data.to_object();
    let before = dump_view(obj.as_value());
    let out = render(&t, &obj);
    let after = dump_view(obj.as_value());
    ctx.count(&format!("family:{}", c.family));
    if before != after {
        ctx.violation("caller-data-modified", &format!("the data object changed during render of {main_src:?}"), replay);
    }
    let got = match &out {
        Out::Ok(s) => {
            if c.strip_newlines {
                Res::Out(s.replace('\n', ""))
            } else {
                Res::Out(s.clone())
            }
        }
        Out::Err(_) => Res::Err,
        Out::Panic(p) => {
            ctx.record(h, nontrivial);
            ctx.violation(&p.key(), &format!("render panicked at {}: {} | {main_src:?}", p.site(), p.msg), replay);
            return Verdict::Violation;
        }
        Out::BadUtf8(_) => {
            ctx.violation("non-utf8-output", "non UTF-8 output", replay);
            return Verdict::Violation;
        }
    };
    // when several verdicts are acceptable, judge against the one the real outcome matches (or the first)
    let model = models.iter().find(|m| **m == got).cloned().unwrap_or_else(|| models[0].clone());
    if models.len() > 1 {
        ctx.count("reference:two-acceptable-verdicts(undefined argument)");
    }
    match (&model, &got) {
        (Res::Unspec(why), _) => {
            ctx.record(h, false);
            ctx.count("reference:unspecified-not-compared");
            ctx.count(&format!("unspecified:{}", why.split(':').next().unwrap_or("")));
            Verdict::Unspecified
        }
        (m, g) if m == g => {
            ctx.record(h, nontrivial);
            match m {
                Res::Out(_) => ctx.count("agree:output"),
                _ => ctx.count("agree:error"),
            }
            ctx.sample(|| json!({"family": c.family, "template": main_src, "data": c.data.dump(), "result": format!("{m:?}").chars().take(160).collect::<String>()}));
            Verdict::Agree
        }
        (m, g) => {
            ctx.record(h, nontrivial);
            let key = match (m, g) {
                (Res::Out(_), Res::Err) => format!("{}:fails-where-reference-renders", c.family),
                (Res::Err, Res::Out(_)) => format!("{}:renders-where-reference-fails", c.family),
                _ => format!("{}:output-differs-from-reference", c.family),
            };
            let diff = match (m, g) {
                (Res::Out(a), Res::Out(b)) => {
                    let (ca, cb): (Vec<char>, Vec<char>) = (a.chars().collect(), b.chars().collect());
                    let k = ca.iter().zip(cb.iter()).take_while(|(x, y)| x == y).count();
                    let lo = k.saturating_sub(70);
                    format!(
                        " FIRST DIFFERENCE at char {k}: reference ...{:?}... real ...{:?}...",
                        ca[lo..(k + 50).min(ca.len())].iter().collect::<String>(),
                        cb[lo..(k + 50).min(cb.len())].iter().collect::<String>()
                    )
                }
                _ => String::new(),
            };
            let err_text = match &out {
                Out::Err(e) => format!(" (error: {e})"),
                _ => String::new(),
            };
            ctx.violation(
                &key,
                &format!("{diff} | program {main_src:?} data {} partials {psrc:?}: real = {g:?}{err_text}, reference = {m:?}", c.data.dump()),
                || {
                    let mut j = replay();
                    j["expected"] = json!(format!("{m:?}"));
                    j
                },
            );
            Verdict::Violation
        }
    }
}

/// generic replay for {kind: program}: prints the real outcome next to the recorded expectation
pub fn replay_program(j: &serde_json::Value) -> bool {
    let violated = crate::checks::c02::replay(j);
    if let Some(e) = j["expected"].as_str() {
        println!("reference interpreter expected: {e}");
        // the violation reproduces iff the real outcome still differs from the expectation;
        // c02::replay printed the outcome, here we recompute it for the verdict
        let partials: Vec<(String, String)> = j["partials"]
            .as_array()
            .map(|a| a.iter().map(|p| (p[0].as_str().unwrap_or("").to_string(), p[1].as_str().unwrap_or("").to_string())).collect())
            .unwrap_or_default();
        if let Ok(p) = parser_with(Config::Stdlib, Policy::Eager, &partials) {
            if let Ok(t) = p.parse(j["template"].as_str().unwrap_or("")) {
                let data = RVal::from_json(&j["data"]);
                let got = match render(&t, &data.to_object()) {
                    Out::Ok(s) => format!("{:?}", Res::Out(s)),
                    Out::Err(_) => format!("{:?}", Res::Err),
                    other => other.summary(),
                };
                let got_nl = got.replace("\\n", "");
                return got != e && got_nl != e;
            }
        }
        return true;
    }
    violated
}
