//! C13 — string filters return what their documentation says, in characters, and obey their laws.
//!
//! Non-trivial rule (for `distinct_nontrivial`): the filter input `x` is non-empty (a non-empty
//! string, or for the array-input cells a non-empty array); a chain counts when its input is non-empty.
//!
//! Workload (every worker walks all of it, executes `ctx.mine(hash)`):
//!  * exhaustive: every string of length <= 4 (quick: <= 3 plus a seeded sample of length 4) over
//!    {a, B, ' ', LF, TAB, ',', '<', U+00E9, U+0301, U+1F44D} as input of every C13 filter; string
//!    arguments of length <= 2 over the same alphabet; for the two-argument replace/replace_first
//!    inputs of length <= 3; every integer in [-6, 8] as truncate / truncatewords length and as
//!    slice offset and slice length (quick: smaller exhaustive boxes plus seeded samples of the rest);
//!  * random strings of <= 200 characters (ASCII, Latin-1, combining marks, emoji, ZWJ sequences,
//!    flags, CRLF, Unicode spaces, controls) through every filter with random arguments;
//!  * chains of 1..4 filters.
//! Templates are parsed once per (filter, arity): `{{ x | f: y, z | vdump }}`; only {x, y, z} varies;
//! the result is read structurally through `vdump`.
//!
//! Oracles:
//!  (i) reference functions below, written from each filter's `description = "..."` / doc comment,
//!      on character vectors. Where the documentation is silent or admits several readings the
//!      reference returns a *set* of acceptable results, or no expectation at all (cell counted as
//!      `cell:laws-only`). The decisions:
//!      - upcase/downcase: per-character std mapping or whole-string std mapping (final sigma);
//!      - capitalize: first character upper-cased (may expand, repo test pins "ß" -> "SS"), rest unchanged;
//!      - strip/lstrip/rstrip: Unicode White_Space (`char::is_whitespace`), as the doc comments say;
//!      - strip_newlines ("Removes any newline characters (line breaks)"): removing {LF, CR}, or
//!        removing "\r?\n" (Shopify), or removing every Unicode line break are all accepted;
//!      - replace/remove (+_first) with an empty search string: documentation silent, std and Ruby
//!        agree (insert between all characters resp. at the front), that behaviour is the reference;
//!      - split: k occurrences of a non-empty separator give k+1 pieces (the split/join law of the
//!        statement forces that reading); the empty input may give [] or [""]; an empty separator:
//!        only the law "array of strings whose concatenation is the input";
//!      - first/last of the empty string: "" or nil;
//!      - newline_to_br ("Replaces every newline (\n) with an HTML line break (<br>)" while the repo's
//!        tests pin "<br />\n"): every LF uniformly replaced by <br>, <br/> or <br />, optionally
//!        followed by the LF itself;
//!      - default: nil, false, "" (and the empty array, pinned by a repo test) take the default;
//!      - slice: characters; -len <= offset counts from the end; offset < -len: laws only
//!        (Ruby: nothing, Python: clamp); length <= 0: error (pinned by a repo test) or "";
//!      - truncate is documented in grapheme clusters while the repo's own unit test treats a string
//!        of 19 clusters / 21 characters as longer than 20, so every mixture is accepted: the
//!        decision "longer than n", the cut position and the size of the ellipsis may each be taken
//!        in characters or in clusters (8 models; they coincide when the text has no multi-character
//!        cluster). Bytes are never acceptable. n < 0: unchanged (pinned by a repo test) or ellipsis.
//!      - truncatewords: exact only where "word" is unambiguous (words separated by single spaces,
//!        no other white space, no leading/trailing space); n = 0: ellipsis alone (pinned by a repo
//!        test) or one word (Shopify); n < 0: unchanged (pinned), or as n = 0; elsewhere only
//!        "unchanged, or ends with the ellipsis".
//!  (ii) laws on all inputs: split∘join identity (non-empty separator), strip = lstrip∘rstrip,
//!      |truncate(x,n,e)| <= max(n,|e|) (n >= 0; in characters or in clusters), slice gives a
//!      substring of at most the requested length, chain = composition of separately rendered steps.
use crate::cfg::{parser, Config};
use crate::ctx::Ctx;
use crate::exec::{render, Out};
use crate::rng::{hash_combine, hash_str, splitmix, Rng};
use crate::val::RVal;
use liquid::{Object, Parser, Template};
use serde_json::{json, Value as Json};

// ---------------------------------------------------------------------------------------------
// alphabet, enumeration, random text
// ---------------------------------------------------------------------------------------------

pub const ALPHABET: [char; 10] = ['a', 'B', ' ', '\n', '\t', ',', '<', '\u{e9}', '\u{301}', '\u{1F44D}'];

/// all strings of length <= maxlen, ordered by length (index ranges: sum of |alpha|^k)
pub fn enumerate(alpha: &[char], maxlen: usize) -> Vec<String> {
    let mut out = vec![String::new()];
    let mut start = 0;
    for _ in 0..maxlen {
        let end = out.len();
        for i in start..end {
            for &c in alpha {
                let mut s = out[i].clone();
                s.push(c);
                out.push(s);
            }
        }
        start = end;
    }
    out
}

/// number of strings of length <= l over an alphabet of k letters
pub fn count_upto(k: usize, l: usize) -> usize {
    (0..=l).map(|i| k.pow(i as u32)).sum()
}

const ASCII_PUNCT: &[&str] = &[",", ".", "<", ">", "&", "\"", "'", "%", "+", "-", "_", "/", ";", "#", "!", "=", "?", "(", "|", "{", "}", "\\", "~"];
const SPACES: &[&str] = &[
    " ", " ", " ", "  ", "\n", "\n", "\t", "\r\n", "\r", "\u{a0}", "\u{2003}", "\u{3000}", "\u{b}", "\u{c}", "\u{85}", "\u{2028}",
];
const EMOJI: &[&str] = &[
    "\u{1F44D}",
    "\u{1F600}",
    "\u{2764}\u{fe0f}",
    "\u{1F468}\u{200d}\u{1F469}\u{200d}\u{1F467}",
    "\u{1F44D}\u{1F3FD}",
    "\u{1F1F7}\u{1F1FA}",
    "\u{1F3F3}\u{fe0f}\u{200d}\u{1F308}",
    "\u{1F680}",
    "\u{2600}",
    "\u{a9}",
];
const SCRIPTS: &[&str] = &["ß", "Σ", "σ", "ς", "İ", "中", "한", "Ω", "ж", "é", "É", "ñ", "ÿ", "ŉ", "ı", "ſ", "ﬁ", "ΐ", "ǆ"];
const WORDS: &[&str] = &["the", "Quick", "brown fox", " lorem", "IPSUM", "a b c", "x,y,,z"];
const LONE: &[&str] = &["\u{301}", "\u{200d}", "\u{fe0f}", "\u{200b}", "\u{ad}", "\u{308}", "\u{1F3FD}", "\u{1F1FA}"];
const CONTROLS: &[&str] = &["\0", "\u{1}", "\u{7f}", "\u{1b}", "\u{9f}"];

/// the "full generator": text of at most `maxchars` characters; `extra` = domain tokens (may be empty)
pub fn rand_text(r: &mut Rng, maxchars: usize, extra: &[&str]) -> String {
    let target = match r.below(10) {
        0 => r.below(4),
        1..=4 => r.below(maxchars.min(20) + 1),
        _ => r.below(maxchars + 1),
    };
    let mut s = String::new();
    let mut n = 0usize;
    let mut tries = 0;
    while n < target && tries < 4 * target + 8 {
        tries += 1;
        let piece: String = match r.below(17) {
            0..=4 => {
                let k = r.below(62) as u8;
                let c = match k {
                    0..=25 => b'a' + k,
                    26..=51 => b'A' + (k - 26),
                    _ => b'0' + (k - 52),
                };
                (c as char).to_string()
            }
            5 => r.pick(ASCII_PUNCT).to_string(),
            6 | 7 => r.pick(SPACES).to_string(),
            8 => char::from_u32(0xA1 + r.below(0x5F) as u32).unwrap().to_string(),
            9 => {
                let mut p = ((b'a' + r.below(26) as u8) as char).to_string();
                for _ in 0..1 + r.below(2) {
                    p.push(char::from_u32(0x300 + r.below(0x70) as u32).unwrap());
                }
                p
            }
            10 => r.pick(EMOJI).to_string(),
            11 => r.pick(SCRIPTS).to_string(),
            12 => r.pick(WORDS).to_string(),
            13 => r.pick(LONE).to_string(),
            14 | 15 => {
                if extra.is_empty() {
                    r.pick(WORDS).to_string()
                } else {
                    r.pick(extra).to_string()
                }
            }
            _ => r.pick(CONTROLS).to_string(),
        };
        let k = piece.chars().count();
        if n + k > maxchars {
            continue;
        }
        n += k;
        s.push_str(&piece);
    }
    s
}

// ---------------------------------------------------------------------------------------------
// grapheme clusters: the UAX#29 subset needed for the alphabet and the generator above
// ---------------------------------------------------------------------------------------------

#[derive(Clone, Copy, PartialEq, Eq, Debug)]
enum Gcb {
    Cr,
    Lf,
    Control,
    Extend,
    Zwj,
    Ri,
    ExtPict,
    Other,
}

/// class of a character, `None` when this subset does not know it (then no cluster-based claim is made)
fn gcb(c: char) -> Option<Gcb> {
    let u = c as u32;
    Some(match u {
        0x0D => Gcb::Cr,
        0x0A => Gcb::Lf,
        0x00..=0x1F | 0x7F..=0x9F | 0xAD | 0x200B | 0x2028 | 0x2029 => Gcb::Control,
        0xA9 | 0xAE => Gcb::ExtPict,
        0x20..=0x7E | 0xA0..=0xFF => Gcb::Other,
        0x100..=0x24F => Gcb::Other,
        0x300..=0x36F | 0xFE00..=0xFE0F | 0x200C | 0x1F3FB..=0x1F3FF | 0x20D0..=0x20F0 => Gcb::Extend,
        0x200D => Gcb::Zwj,
        0x391..=0x3A1 | 0x3A3..=0x3C9 | 0x410..=0x44F => Gcb::Other,
        0x2003 | 0x3000 | 0x4E00..=0x9FFF => Gcb::Other,
        // precomposed Hangul syllables are LV/LVT: they only join with conjoining jamo, which are unknown here
        0xAC00..=0xD7A3 => Gcb::Other,
        0x1F1E6..=0x1F1FF => Gcb::Ri,
        0x1F44D | 0x1F600 | 0x2764 | 0x1F468 | 0x1F469 | 0x1F467 | 0x1F466 | 0x1F680 | 0x2600 | 0x1F3F3 | 0x1F308 => {
            Gcb::ExtPict
        }
        _ => return None,
    })
}

/// byte offsets of the extended-grapheme-cluster starts of `s`, plus `s.len()`
pub fn cluster_offsets(s: &str) -> Option<Vec<usize>> {
    let cs: Vec<(usize, char)> = s.char_indices().collect();
    let mut cl = Vec::with_capacity(cs.len());
    for &(_, c) in &cs {
        cl.push(gcb(c)?);
    }
    let mut out = Vec::with_capacity(cs.len() + 1);
    for i in 0..cs.len() {
        let brk = if i == 0 {
            true // GB1
        } else {
            let (p, c) = (cl[i - 1], cl[i]);
            if p == Gcb::Cr && c == Gcb::Lf {
                false // GB3
            } else if matches!(p, Gcb::Control | Gcb::Cr | Gcb::Lf) || matches!(c, Gcb::Control | Gcb::Cr | Gcb::Lf) {
                true // GB4, GB5
            } else if matches!(c, Gcb::Extend | Gcb::Zwj) {
                false // GB9
            } else if p == Gcb::Zwj && c == Gcb::ExtPict {
                // GB11: ExtPict Extend* ZWJ x ExtPict
                let mut j = i - 1; // the ZWJ
                let mut joined = false;
                while j > 0 {
                    j -= 1;
                    match cl[j] {
                        Gcb::Extend => continue,
                        Gcb::ExtPict => {
                            joined = true;
                            break;
                        }
                        _ => break,
                    }
                }
                !joined
            } else if p == Gcb::Ri && c == Gcb::Ri {
                // GB12/13: pair regional indicators
                let mut k = 0;
                let mut j = i;
                while j > 0 && cl[j - 1] == Gcb::Ri {
                    k += 1;
                    j -= 1;
                }
                k % 2 == 0
            } else {
                true // GB999
            }
        };
        if brk {
            out.push(cs[i].0);
        }
    }
    out.push(s.len());
    Some(out)
}

#[derive(Clone, Copy, PartialEq, Eq, Debug)]
enum Unit {
    Chars,
    Clusters,
    /// never an acceptable unit; only used to *diagnose* a mismatch as "counts bytes"
    Bytes,
}

fn unit_offsets(s: &str, u: Unit) -> Option<Vec<usize>> {
    match u {
        Unit::Chars => {
            let mut v: Vec<usize> = s.char_indices().map(|(i, _)| i).collect();
            v.push(s.len());
            Some(v)
        }
        Unit::Clusters => cluster_offsets(s),
        Unit::Bytes => Some((0..=s.len()).collect()),
    }
}

fn nchars(s: &str) -> usize {
    s.chars().count()
}

// ---------------------------------------------------------------------------------------------
// the filters of C13
// ---------------------------------------------------------------------------------------------

#[derive(Clone, Copy, PartialEq, Eq, Debug)]
pub enum F {
    Append,
    Prepend,
    Upcase,
    Downcase,
    Capitalize,
    Strip,
    Lstrip,
    Rstrip,
    StripNewlines,
    Replace,
    ReplaceFirst,
    Remove,
    RemoveFirst,
    Split,
    Join,
    Truncate,
    TruncateWords,
    Slice,
    Size,
    First,
    Last,
    NewlineToBr,
    Default,
}

pub const ALL_F: [F; 23] = [
    F::Append,
    F::Prepend,
    F::Upcase,
    F::Downcase,
    F::Capitalize,
    F::Strip,
    F::Lstrip,
    F::Rstrip,
    F::StripNewlines,
    F::Replace,
    F::ReplaceFirst,
    F::Remove,
    F::RemoveFirst,
    F::Split,
    F::Join,
    F::Truncate,
    F::TruncateWords,
    F::Slice,
    F::Size,
    F::First,
    F::Last,
    F::NewlineToBr,
    F::Default,
];

impl F {
    pub fn name(self) -> &'static str {
        match self {
            F::Append => "append",
            F::Prepend => "prepend",
            F::Upcase => "upcase",
            F::Downcase => "downcase",
            F::Capitalize => "capitalize",
            F::Strip => "strip",
            F::Lstrip => "lstrip",
            F::Rstrip => "rstrip",
            F::StripNewlines => "strip_newlines",
            F::Replace => "replace",
            F::ReplaceFirst => "replace_first",
            F::Remove => "remove",
            F::RemoveFirst => "remove_first",
            F::Split => "split",
            F::Join => "join",
            F::Truncate => "truncate",
            F::TruncateWords => "truncatewords",
            F::Slice => "slice",
            F::Size => "size",
            F::First => "first",
            F::Last => "last",
            F::NewlineToBr => "newline_to_br",
            F::Default => "default",
        }
    }
    pub fn from_name(n: &str) -> Option<F> {
        ALL_F.iter().copied().find(|f| f.name() == n)
    }
    fn idx(self) -> usize {
        ALL_F.iter().position(|f| *f == self).unwrap()
    }
}

pub fn template_src(f: F, arity: usize) -> String {
    match arity {
        0 => format!("{{{{ x | {} | vdump }}}}", f.name()),
        1 => format!("{{{{ x | {}: y | vdump }}}}", f.name()),
        _ => format!("{{{{ x | {}: y, z | vdump }}}}", f.name()),
    }
}

const LAW_STRIP_A: &str = "{{ x | strip | vdump }}";
const LAW_STRIP_B: &str = "{{ x | rstrip | lstrip | vdump }}";
const LAW_SPLIT_JOIN: &str = "{{ x | split: y | join: y | vdump }}";

// ---------------------------------------------------------------------------------------------
// oracle (i): reference functions, from the documentation strings
// ---------------------------------------------------------------------------------------------

fn cv(s: &str) -> Vec<char> {
    s.chars().collect()
}
fn sv(c: &[char]) -> String {
    c.iter().collect()
}
fn rs(s: impl Into<String>) -> RVal {
    RVal::Str(s.into())
}

fn matches_at(x: &[char], i: usize, pat: &[char]) -> bool {
    i + pat.len() <= x.len() && x[i..i + pat.len()] == *pat
}

/// "Replaces the occurrences of the `search` with `replace`" — left to right, non-overlapping;
/// `limit` = how many occurrences (1 for the `_first` variants)
fn ref_replace(x: &str, search: &str, rep: &str, limit: usize) -> String {
    let (x, p) = (cv(x), cv(search));
    let mut out = String::new();
    let mut done = 0usize;
    let mut i = 0usize;
    if p.is_empty() {
        // the empty string occurs before every character and at the end
        for c in &x {
            if done < limit {
                out.push_str(rep);
                done += 1;
            }
            out.push(*c);
        }
        if done < limit {
            out.push_str(rep);
        }
        return out;
    }
    while i < x.len() {
        if done < limit && matches_at(&x, i, &p) {
            out.push_str(rep);
            done += 1;
            i += p.len();
        } else {
            out.push(x[i]);
            i += 1;
        }
    }
    out
}

/// "Divides an input string into an array using the argument as a separator." (non-empty separator)
fn ref_split(x: &str, sep: &str) -> Vec<String> {
    let (x, p) = (cv(x), cv(sep));
    assert!(!p.is_empty());
    let mut out = Vec::new();
    let mut cur = String::new();
    let mut i = 0usize;
    while i < x.len() {
        if matches_at(&x, i, &p) {
            out.push(std::mem::take(&mut cur));
            i += p.len();
        } else {
            cur.push(x[i]);
            i += 1;
        }
    }
    out.push(cur);
    out
}

fn ref_strip(x: &str, left: bool, right: bool) -> String {
    let c = cv(x);
    let mut a = 0usize;
    let mut b = c.len();
    if left {
        while a < b && c[a].is_whitespace() {
            a += 1;
        }
    }
    if right {
        while b > a && c[b - 1].is_whitespace() {
            b -= 1;
        }
    }
    sv(&c[a..b])
}

fn ref_strip_newlines(x: &str) -> Vec<String> {
    let c = cv(x);
    let a: String = c.iter().filter(|c| !matches!(c, '\n' | '\r')).collect();
    let mut b = String::new();
    let mut i = 0;
    while i < c.len() {
        if c[i] == '\n' {
            i += 1;
        } else if c[i] == '\r' && i + 1 < c.len() && c[i + 1] == '\n' {
            i += 2;
        } else {
            b.push(c[i]);
            i += 1;
        }
    }
    let d: String = c
        .iter()
        .filter(|c| !matches!(c, '\n' | '\r' | '\u{b}' | '\u{c}' | '\u{85}' | '\u{2028}' | '\u{2029}'))
        .collect();
    vec![a, b, d]
}

fn ref_newline_to_br(x: &str) -> Vec<String> {
    let mut out = Vec::new();
    for br in ["<br>", "<br/>", "<br />"] {
        for keep in [true, false] {
            let mut s = String::new();
            for c in x.chars() {
                if c == '\n' {
                    s.push_str(br);
                    if keep {
                        s.push('\n');
                    }
                } else {
                    s.push(c);
                }
            }
            out.push(s);
        }
    }
    out
}

fn prefix_units(s: &str, k: usize, u: Unit) -> Option<String> {
    let o = unit_offsets(s, u)?;
    let k = k.min(o.len() - 1);
    // a byte "prefix" may split a character; such a model simply explains nothing
    s.get(..o[k]).map(|p| p.to_string())
}

/// one truncate model: decide in unit `d`, cut in unit `c`, measure the ellipsis in unit `m`
fn truncate_model(x: &str, n: usize, e: &str, d: Unit, c: Unit, m: Unit) -> Option<String> {
    let xd = unit_offsets(x, d)?.len() - 1;
    if xd <= n {
        return Some(x.to_string());
    }
    let em = unit_offsets(e, m)?.len() - 1;
    let mut p = prefix_units(x, n.saturating_sub(em), c)?;
    p.push_str(e);
    Some(p)
}

/// every acceptable truncate result (see the header); `None` = the cluster subset does not know the text
fn ref_truncate(x: &str, n: i64, e: &str) -> Option<Vec<String>> {
    if n < 0 {
        return Some(vec![x.to_string(), e.to_string()]);
    }
    let us = [Unit::Chars, Unit::Clusters];
    let mut out: Vec<String> = Vec::new();
    for d in us {
        for c in us {
            for m in us {
                let r = truncate_model(x, n as usize, e, d, c, m)?;
                if !out.contains(&r) {
                    out.push(r);
                }
            }
        }
    }
    Some(out)
}

fn truncate_byte_models(x: &str, n: i64, e: &str) -> Vec<String> {
    let mut out = Vec::new();
    if n < 0 {
        return out;
    }
    for c in [Unit::Clusters, Unit::Chars, Unit::Bytes] {
        for m in [Unit::Bytes, Unit::Chars] {
            if let Some(r) = truncate_model(x, n as usize, e, Unit::Bytes, c, m) {
                out.push(r);
            }
        }
    }
    for c in [Unit::Clusters, Unit::Chars] {
        if let Some(r) = truncate_model(x, n as usize, e, Unit::Chars, c, Unit::Bytes) {
            out.push(r);
        }
    }
    out
}

/// words separated by single spaces, no other white space
fn words_unambiguous(x: &str) -> bool {
    !x.starts_with(' ') && !x.ends_with(' ') && !x.contains("  ") && x.chars().all(|c| c == ' ' || !c.is_whitespace())
}

fn ref_truncatewords(x: &str, n: i64, e: &str) -> Option<Vec<String>> {
    if !words_unambiguous(x) {
        return None;
    }
    if x.is_empty() {
        // zero words: nothing to cut; for n <= 0 the ellipsis alone is accepted as well (edge of an edge)
        return Some(if n <= 0 { vec![String::new(), e.to_string()] } else { vec![String::new()] });
    }
    let w = ref_split(x, " ");
    let model = |k: usize| -> String {
        if w.len() > k {
            let mut s = w[..k].join(" ");
            s.push_str(e);
            s
        } else {
            x.to_string()
        }
    };
    Some(if n >= 1 {
        vec![model(n as usize)]
    } else if n == 0 {
        vec![model(0), model(1)]
    } else {
        vec![x.to_string(), model(0), model(1)]
    })
}

/// slice in characters; `None` = offset below -len (laws only)
fn ref_slice(x: &str, off: i64, len: i64) -> Option<String> {
    let c = cv(x);
    let n = c.len() as i64;
    let start = if off >= 0 {
        off.min(n)
    } else if off >= -n {
        n + off
    } else {
        return None;
    };
    let end = (start + len).min(n);
    Some(sv(&c[start as usize..end as usize]))
}

fn slice_byte_model(x: &str, off: i64, len: i64) -> Option<String> {
    if off >= 0 {
        return None;
    }
    let start = x.len() as i64 + off;
    if start < 0 {
        return Some(String::new());
    }
    Some(x.chars().skip(start as usize).take(len.max(0) as usize).collect())
}

/// to-string of a scalar as used by join (only what the workload feeds: strings, integers)
fn ref_to_s(v: &RVal) -> Option<String> {
    match v {
        RVal::Str(s) => Some(s.clone()),
        RVal::Int(i) => Some(i.to_string()),
        _ => None,
    }
}

pub struct Expect {
    /// acceptable structural results
    pub ok: Vec<RVal>,
    /// an error is acceptable
    pub err_ok: bool,
    /// false: no expectation from the reference for this cell (documentation silent) — laws only
    pub exact: bool,
}

fn one(v: RVal) -> Expect {
    Expect { ok: vec![v], err_ok: false, exact: true }
}
fn any_of(vs: Vec<String>) -> Expect {
    let mut ok: Vec<RVal> = Vec::new();
    for s in vs {
        if !ok.iter().any(|o| matches!(o, RVal::Str(t) if *t == s)) {
            ok.push(RVal::Str(s));
        }
    }
    Expect { ok, err_ok: false, exact: true }
}
fn silent() -> Expect {
    Expect { ok: vec![], err_ok: true, exact: false }
}

/// oracle (i)
pub fn expect(f: F, x: &RVal, a: &[&RVal]) -> Expect {
    use RVal::{Array, Int, Str};
    match (f, x, a) {
        (F::Append, Str(x), [Str(y)]) => one(rs(format!("{x}{y}"))),
        (F::Prepend, Str(x), [Str(y)]) => one(rs(format!("{y}{x}"))),
        (F::Upcase, Str(x), []) => {
            any_of(vec![x.chars().flat_map(|c| c.to_uppercase()).collect(), x.to_uppercase()])
        }
        (F::Downcase, Str(x), []) => {
            any_of(vec![x.chars().flat_map(|c| c.to_lowercase()).collect(), x.to_lowercase()])
        }
        (F::Capitalize, Str(x), []) => {
            let c = cv(x);
            match c.split_first() {
                None => one(rs("")),
                Some((h, t)) => {
                    let mut s: String = h.to_uppercase().collect();
                    s.extend(t.iter());
                    one(rs(s))
                }
            }
        }
        (F::Strip, Str(x), []) => one(rs(ref_strip(x, true, true))),
        (F::Lstrip, Str(x), []) => one(rs(ref_strip(x, true, false))),
        (F::Rstrip, Str(x), []) => one(rs(ref_strip(x, false, true))),
        (F::StripNewlines, Str(x), []) => any_of(ref_strip_newlines(x)),
        (F::Replace, Str(x), [Str(s)]) => one(rs(ref_replace(x, s, "", usize::MAX))),
        (F::Replace, Str(x), [Str(s), Str(r)]) => one(rs(ref_replace(x, s, r, usize::MAX))),
        (F::ReplaceFirst, Str(x), [Str(s)]) => one(rs(ref_replace(x, s, "", 1))),
        (F::ReplaceFirst, Str(x), [Str(s), Str(r)]) => one(rs(ref_replace(x, s, r, 1))),
        (F::Remove, Str(x), [Str(s)]) => one(rs(ref_replace(x, s, "", usize::MAX))),
        (F::RemoveFirst, Str(x), [Str(s)]) => one(rs(ref_replace(x, s, "", 1))),
        (F::Split, Str(x), [Str(s)]) => {
            if s.is_empty() {
                silent()
            } else if x.is_empty() {
                Expect { ok: vec![Array(vec![]), Array(vec![rs("")])], err_ok: false, exact: true }
            } else {
                one(Array(ref_split(x, s).into_iter().map(RVal::Str).collect()))
            }
        }
        (F::Join, Array(xs), [Str(s)]) => {
            let parts: Option<Vec<String>> = xs.iter().map(ref_to_s).collect();
            match parts {
                Some(p) => one(rs(p.join(s))),
                None => silent(),
            }
        }
        (F::Truncate, Str(x), []) => match ref_truncate(x, 50, "...") {
            Some(v) => any_of(v),
            None => silent(),
        },
        (F::Truncate, Str(x), [Int(n)]) => match ref_truncate(x, *n, "...") {
            Some(v) => any_of(v),
            None => silent(),
        },
        (F::Truncate, Str(x), [Int(n), Str(e)]) => match ref_truncate(x, *n, e) {
            Some(v) => any_of(v),
            None => silent(),
        },
        (F::TruncateWords, Str(x), [Int(n)]) => match ref_truncatewords(x, *n, "...") {
            Some(v) => any_of(v),
            None => silent(),
        },
        (F::TruncateWords, Str(x), [Int(n), Str(e)]) => match ref_truncatewords(x, *n, e) {
            Some(v) => any_of(v),
            None => silent(),
        },
        (F::Slice, Str(x), [Int(off)]) => match ref_slice(x, *off, 1) {
            Some(s) => one(rs(s)),
            None => silent(),
        },
        (F::Slice, Str(x), [Int(off), Int(len)]) => {
            if *len < 1 {
                Expect { ok: vec![rs("")], err_ok: true, exact: true }
            } else {
                match ref_slice(x, *off, *len) {
                    Some(s) => one(rs(s)),
                    None => silent(),
                }
            }
        }
        (F::Size, Str(x), []) => one(Int(nchars(x) as i64)),
        (F::Size, Array(xs), []) => one(Int(xs.len() as i64)),
        (F::First, Str(x), []) => match x.chars().next() {
            Some(c) => one(rs(c.to_string())),
            None => Expect { ok: vec![rs(""), RVal::Nil], err_ok: false, exact: true },
        },
        (F::Last, Str(x), []) => match x.chars().last() {
            Some(c) => one(rs(c.to_string())),
            None => Expect { ok: vec![rs(""), RVal::Nil], err_ok: false, exact: true },
        },
        (F::First, Array(xs), []) => one(xs.first().cloned().unwrap_or(RVal::Nil)),
        (F::Last, Array(xs), []) => one(xs.last().cloned().unwrap_or(RVal::Nil)),
        (F::NewlineToBr, Str(x), []) => any_of(ref_newline_to_br(x)),
        (F::Default, x, [y]) => {
            let take_default = match x {
                RVal::Nil | RVal::Bool(false) => Some(true),
                Str(s) => Some(s.is_empty()),
                Array(v) => Some(v.is_empty()),
                RVal::Bool(true) | Int(_) => Some(false),
                _ => None,
            };
            match take_default {
                Some(true) => one((*y).clone()),
                Some(false) => one(x.clone()),
                None => silent(),
            }
        }
        _ => silent(),
    }
}

// ---------------------------------------------------------------------------------------------
// structural read-back of a vdump string
// ---------------------------------------------------------------------------------------------

struct DumpParser<'a> {
    s: &'a str,
    i: usize,
}

impl<'a> DumpParser<'a> {
    fn eat(&mut self, lit: &str) -> bool {
        if self.s[self.i..].starts_with(lit) {
            self.i += lit.len();
            true
        } else {
            false
        }
    }
    fn json_string(&mut self) -> Option<String> {
        let b = self.s.as_bytes();
        if b.get(self.i) != Some(&b'"') {
            return None;
        }
        let mut j = self.i + 1;
        while j < b.len() {
            match b[j] {
                b'\\' => j += 2,
                b'"' => {
                    let r: Option<String> = serde_json::from_str(&self.s[self.i..=j]).ok();
                    self.i = j + 1;
                    return r;
                }
                _ => j += 1,
            }
        }
        None
    }
    fn val(&mut self) -> Option<RVal> {
        if self.eat("nil") {
            return Some(RVal::Nil);
        }
        if self.eat("b:true") {
            return Some(RVal::Bool(true));
        }
        if self.eat("b:false") {
            return Some(RVal::Bool(false));
        }
        if self.eat("state:Empty") {
            return Some(RVal::Empty);
        }
        if self.eat("state:Blank") {
            return Some(RVal::Blank);
        }
        if self.eat("i:") {
            let st = self.i;
            let b = self.s.as_bytes();
            while self.i < b.len() && (b[self.i] == b'-' || b[self.i].is_ascii_digit()) {
                self.i += 1;
            }
            return self.s[st..self.i].parse().ok().map(RVal::Int);
        }
        if self.eat("f:") {
            let h = self.s.get(self.i..self.i + 16)?;
            self.i += 16;
            return u64::from_str_radix(h, 16).ok().map(|b| RVal::Float(f64::from_bits(b)));
        }
        if self.eat("s:") {
            return self.json_string().map(RVal::Str);
        }
        if self.eat("[") {
            let mut v = Vec::new();
            if self.eat("]") {
                return Some(RVal::Array(v));
            }
            loop {
                v.push(self.val()?);
                if self.eat("]") {
                    return Some(RVal::Array(v));
                }
                if !self.eat(",") {
                    return None;
                }
            }
        }
        if self.eat("{") {
            let mut v = Vec::new();
            if self.eat("}") {
                return Some(RVal::Object(v));
            }
            loop {
                let k = self.json_string()?;
                if !self.eat(":") {
                    return None;
                }
                v.push((k, self.val()?));
                if self.eat("}") {
                    return Some(RVal::Object(v));
                }
                if !self.eat(",") {
                    return None;
                }
            }
        }
        None
    }
}

/// inverse of `RVal::dump` for the kinds the string filters produce (dates are not needed)
pub fn parse_dump(s: &str) -> Option<RVal> {
    let mut p = DumpParser { s, i: 0 };
    let v = p.val()?;
    if p.i == s.len() {
        Some(v)
    } else {
        None
    }
}

// ---------------------------------------------------------------------------------------------
// verdict for one filter application
// ---------------------------------------------------------------------------------------------

pub struct Finding {
    pub key: String,
    pub what: String,
    pub expected: Json,
}

fn show(s: &str) -> String {
    let t: String = s.chars().take(60).collect();
    format!("{:?}", t)
}

/// stable defect class of a mismatch with the reference
fn classify(f: F, x: &RVal, a: &[&RVal], dump: Option<&str>) -> String {
    let name = f.name();
    let Some(d) = dump else {
        return format!("{name}:unexpected-error");
    };
    let obs = parse_dump(d);
    if let RVal::Str(xs) = x {
        match (f, a, &obs) {
            (F::Size, [], Some(RVal::Int(n))) if *n == xs.len() as i64 && xs.len() != nchars(xs) => {
                return "size:counts-bytes".into();
            }
            (F::Truncate, _, Some(RVal::Str(r))) => {
                let (n, e) = match a {
                    [] => (50, "..."),
                    [RVal::Int(n)] => (*n, "..."),
                    [RVal::Int(n), RVal::Str(e)] => (*n, e.as_str()),
                    _ => (0, ""),
                };
                if truncate_byte_models(xs, n, e).iter().any(|m| m == r) {
                    return "truncate:counts-bytes".into();
                }
            }
            (F::Slice, [RVal::Int(off), rest @ ..], Some(RVal::Str(r))) => {
                let len = match rest {
                    [RVal::Int(l)] => *l,
                    _ => 1,
                };
                if slice_byte_model(xs, *off, len).as_deref() == Some(r.as_str()) {
                    return "slice:negative-offset-counts-bytes".into();
                }
            }
            _ => {}
        }
    }
    format!("{name}:differs-from-reference")
}

/// oracle (ii), the laws that are predicates over one result
fn law_findings(f: F, x: &RVal, a: &[&RVal], dump: &str, out: &mut Vec<Finding>, laws_seen: &mut Vec<&'static str>) {
    let RVal::Str(xs) = x else { return };
    match (f, a) {
        (F::Truncate, _) => {
            let (n, e) = match a {
                [] => (50i64, "..."),
                [RVal::Int(n)] => (*n, "..."),
                [RVal::Int(n), RVal::Str(e)] => (*n, e.as_str()),
                _ => return,
            };
            let Some(RVal::Str(r)) = parse_dump(dump) else { return };
            if n < 0 && r == *xs {
                return; // not truncated (negative limit: unchanged is pinned by a repo test)
            }
            laws_seen.push("law:truncate-length");
            let lim = n.max(0) as usize;
            let ok_chars = nchars(&r) <= lim.max(nchars(e));
            let ok_clusters = match (cluster_offsets(&r), cluster_offsets(e)) {
                (Some(rc), Some(ec)) => Some(rc.len() - 1 <= lim.max(ec.len() - 1)),
                _ => None,
            };
            if !ok_chars && ok_clusters == Some(false) {
                out.push(Finding {
                    key: "law:truncate-length".into(),
                    what: format!(
                        "truncate: {n} with ellipsis {} returned {} characters, more than max(limit, ellipsis) in characters and in clusters",
                        show(e),
                        nchars(&r)
                    ),
                    expected: json!(format!("at most max({n}, |ellipsis|) characters or grapheme clusters")),
                });
            }
        }
        (F::Slice, [RVal::Int(_), rest @ ..]) => {
            let len = match rest {
                [RVal::Int(l)] => *l,
                [] => 1,
                _ => return,
            };
            let Some(RVal::Str(r)) = parse_dump(dump) else { return };
            laws_seen.push("law:slice-contiguous");
            if !xs.contains(r.as_str()) || nchars(&r) as i64 > len.max(0) {
                out.push(Finding {
                    key: "law:slice-contiguous".into(),
                    what: format!("slice returned {} which is not a contiguous piece of the input of at most {len} characters", show(&r)),
                    expected: json!(format!("a substring of the input with at most {len} characters")),
                });
            }
        }
        (F::Split, [RVal::Str(sep)]) => {
            // also for the empty separator: pieces of the input, in order, nothing lost
            laws_seen.push("law:split-pieces");
            let ok = match parse_dump(dump) {
                Some(RVal::Array(v)) => {
                    let parts: Option<Vec<String>> =
                        v.iter().map(|p| if let RVal::Str(s) = p { Some(s.clone()) } else { None }).collect();
                    matches!(parts, Some(p) if p.join(sep) == *xs)
                }
                _ => false,
            };
            if !ok {
                out.push(Finding {
                    key: "law:split-pieces".into(),
                    what: "split did not return an array of strings that gives the input back when joined with the separator".into(),
                    expected: json!("array of strings; joined with the separator = input"),
                });
            }
        }
        (F::TruncateWords, [RVal::Int(_), rest @ ..]) => {
            let e = match rest {
                [RVal::Str(e)] => e.as_str(),
                [] => "...",
                _ => return,
            };
            let Some(RVal::Str(r)) = parse_dump(dump) else { return };
            laws_seen.push("law:truncatewords-shape");
            if !(r == *xs || r.ends_with(e)) {
                out.push(Finding {
                    key: "law:truncatewords-shape".into(),
                    what: "truncatewords returned neither its input nor a text ending with the ellipsis".into(),
                    expected: json!("the input, or a text ending with the ellipsis"),
                });
            }
        }
        _ => {}
    }
}

pub struct Verdict {
    pub findings: Vec<Finding>,
    pub exact: bool,
    pub laws: Vec<&'static str>,
}

/// all monitors for one application `x | f: a..` whose monitored render gave `out`
pub fn verdict(f: F, x: &RVal, a: &[&RVal], out: &Out) -> Verdict {
    let mut v = Verdict { findings: Vec::new(), exact: false, laws: Vec::new() };
    let dump: Option<&str> = match out {
        Out::Ok(s) => Some(s.as_str()),
        Out::Err(_) => None,
        Out::Panic(p) => {
            v.findings.push(Finding {
                key: p.key(),
                what: format!("filter {} panicked at {}: {}", f.name(), p.site(), p.msg),
                expected: json!("no panic"),
            });
            return v;
        }
        Out::BadUtf8(_) => {
            v.findings.push(Finding {
                key: "non-utf8-output".into(),
                what: format!("filter {} produced output that is not UTF-8", f.name()),
                expected: json!("UTF-8"),
            });
            return v;
        }
    };
    let exp = expect(f, x, a);
    v.exact = exp.exact;
    if exp.exact {
        let ok = match dump {
            Some(d) => exp.ok.iter().any(|e| e.dump() == d),
            None => exp.err_ok,
        };
        if !ok {
            let mut accepted: Vec<String> = exp.ok.iter().map(|e| format!("ok:{}", e.dump())).collect();
            if exp.err_ok {
                accepted.push("err".into());
            }
            let key = classify(f, x, a, dump);
            v.findings.push(Finding {
                what: format!(
                    "{} on {} gave {} but its documentation implies {}",
                    f.name(),
                    show(&x.dump()),
                    show(&out.summary()),
                    show(&accepted.join(" | "))
                ),
                key,
                expected: json!(accepted),
            });
        }
    }
    if let Some(d) = dump {
        law_findings(f, x, a, d, &mut v.findings, &mut v.laws);
    }
    v
}

// ---------------------------------------------------------------------------------------------
// execution environment
// ---------------------------------------------------------------------------------------------

pub struct Env {
    parser: Parser,
    tp: Vec<Option<Template>>,
    law_strip_a: Template,
    law_strip_b: Template,
    law_split_join: Template,
    n_filter: Vec<u64>,
    n_exact: u64,
    n_laws_only: u64,
    n_out: [u64; 4],
}

impl Env {
    pub fn new() -> Env {
        let p = parser(Config::Stdlib);
        let mut tp = Vec::new();
        for f in ALL_F {
            for ar in 0..3 {
                tp.push(p.parse(&template_src(f, ar)).ok());
            }
        }
        Env {
            law_strip_a: p.parse(LAW_STRIP_A).expect("law template"),
            law_strip_b: p.parse(LAW_STRIP_B).expect("law template"),
            law_split_join: p.parse(LAW_SPLIT_JOIN).expect("law template"),
            parser: p,
            tp,
            n_filter: vec![0; ALL_F.len()],
            n_exact: 0,
            n_laws_only: 0,
            n_out: [0; 4],
        }
    }
    fn template(&self, f: F, arity: usize) -> Option<&Template> {
        self.tp[f.idx() * 3 + arity].as_ref()
    }
    fn flush(&mut self, ctx: &mut Ctx) {
        for f in ALL_F {
            let n = std::mem::take(&mut self.n_filter[f.idx()]);
            if n > 0 {
                ctx.add(&format!("filter:{}", f.name()), n);
            }
        }
        ctx.add("cell:compared-with-reference", std::mem::take(&mut self.n_exact));
        ctx.add("cell:laws-only", std::mem::take(&mut self.n_laws_only));
        for (i, t) in ["ok", "err", "panic", "bad-utf8"].iter().enumerate() {
            let n = std::mem::take(&mut self.n_out[i]);
            if n > 0 {
                ctx.add(&format!("outcome:{t}"), n);
            }
        }
    }
}

fn data(x: &RVal, a: &[&RVal]) -> Object {
    let mut o = Object::new();
    o.insert("x".into(), x.to_liquid());
    if let Some(y) = a.first() {
        o.insert("y".into(), y.to_liquid());
    }
    if let Some(z) = a.get(1) {
        o.insert("z".into(), z.to_liquid());
    }
    o
}

fn data_json(x: &RVal, a: &[&RVal]) -> Json {
    let mut kv = vec![("x".to_string(), x.clone())];
    if let Some(y) = a.first() {
        kv.push(("y".into(), (*y).clone()));
    }
    if let Some(z) = a.get(1) {
        kv.push(("z".into(), (*z).clone()));
    }
    RVal::Object(kv).to_json()
}

fn nontrivial(x: &RVal) -> bool {
    match x {
        RVal::Str(s) => !s.is_empty(),
        RVal::Array(v) => !v.is_empty(),
        _ => false,
    }
}

fn out_idx(o: &Out) -> usize {
    match o {
        Out::Ok(_) => 0,
        Out::Err(_) => 1,
        Out::Panic(_) => 2,
        Out::BadUtf8(_) => 3,
    }
}

/// run one cell: render, record, compare with the reference, apply the predicate laws
fn cell(ctx: &mut Ctx, env: &mut Env, f: F, x: &RVal, a: &[&RVal], h: u64, family: &'static str) {
    let Some(t) = env.template(f, a.len()) else {
        ctx.count("cell:template-rejected-at-parse");
        return;
    };
    if ctx.evaluations % 64 == 0 {
        ctx.set_progress(
            &json!({"kind":"filter-eval","filter":f.name(),"template":template_src(f, a.len()),"data":data_json(x, a)}).to_string(),
        );
    }
    let out = render(t, &data(x, a));
    ctx.record(h, nontrivial(x));
    env.n_filter[f.idx()] += 1;
    env.n_out[out_idx(&out)] += 1;
    let v = verdict(f, x, a, &out);
    if v.exact {
        env.n_exact += 1;
    } else {
        env.n_laws_only += 1;
    }
    for l in &v.laws {
        ctx.count(l);
    }
    for fd in v.findings {
        ctx.violation(&fd.key, &fd.what, || {
            json!({"kind":"filter-eval","filter":f.name(),"template":template_src(f, a.len()),"data":data_json(x, a),
                   "expected":fd.expected,"observed":out.summary(),"family":family})
        });
    }
    ctx.sample(|| {
        json!({"family":family,"template":template_src(f, a.len()),"x":x.dump(),
               "args":a.iter().map(|v| v.dump()).collect::<Vec<_>>(),"observed":out.summary().chars().take(100).collect::<String>()})
    });
}

/// law: strip == lstrip after rstrip (two renders, one case)
fn law_strip(ctx: &mut Ctx, env: &mut Env, x: &RVal, h: u64) {
    let d = data(x, &[]);
    let a = render(&env.law_strip_a, &d);
    let b = render(&env.law_strip_b, &d);
    ctx.record(h, nontrivial(x));
    ctx.count("law:strip-lstrip-rstrip");
    for o in [&a, &b] {
        if let Out::Panic(p) = o {
            ctx.violation(&p.key(), &format!("strip law render panicked at {}: {}", p.site(), p.msg), || {
                json!({"kind":"law-equal","template":LAW_STRIP_A,"template2":LAW_STRIP_B,"data":data_json(x, &[])})
            });
            return;
        }
    }
    if a.summary() != b.summary() {
        ctx.violation(
            "law:strip-lstrip-rstrip",
            &format!("strip gave {} but lstrip after rstrip gave {}", show(&a.summary()), show(&b.summary())),
            || {
                json!({"kind":"law-equal","template":LAW_STRIP_A,"template2":LAW_STRIP_B,"data":data_json(x, &[]),
                   "expected":a.summary(),"observed":b.summary()})
            },
        );
    }
}

/// law: split then join on the same non-empty separator is the identity (one render through the real join)
fn law_split_join(ctx: &mut Ctx, env: &mut Env, x: &RVal, y: &RVal, h: u64) {
    let out = render(&env.law_split_join, &data(x, &[y]));
    ctx.record(h, nontrivial(x));
    ctx.count("law:split-join");
    let expected = format!("ok:{}", x.dump());
    match &out {
        Out::Panic(p) => {
            ctx.violation(&p.key(), &format!("split|join panicked at {}: {}", p.site(), p.msg), || {
                json!({"kind":"filter-eval","template":LAW_SPLIT_JOIN,"data":data_json(x, &[y]),"expected":[expected],"observed":out.summary()})
            });
        }
        _ => {
            if out.summary() != expected {
                ctx.violation(
                    "law:split-join",
                    &format!("split then join on the same separator gave {} instead of the input", show(&out.summary())),
                    || json!({"kind":"filter-eval","template":LAW_SPLIT_JOIN,"data":data_json(x, &[y]),"expected":[expected],"observed":out.summary()}),
                );
            }
        }
    }
}

// ---------------------------------------------------------------------------------------------
// workload
// ---------------------------------------------------------------------------------------------

const UNARY: [F; 12] = [
    F::Upcase,
    F::Downcase,
    F::Capitalize,
    F::Strip,
    F::Lstrip,
    F::Rstrip,
    F::StripNewlines,
    F::Size,
    F::First,
    F::Last,
    F::NewlineToBr,
    F::Truncate,
];
const ONE_STR: [F; 8] =
    [F::Append, F::Prepend, F::Remove, F::RemoveFirst, F::Replace, F::ReplaceFirst, F::Split, F::Default];

struct Pool {
    /// strings of length <= 4 over the alphabet, by length
    s: Vec<RVal>,
    h: Vec<u64>,
    ints: Vec<RVal>,
    ih: Vec<u64>,
}

impl Pool {
    fn new() -> Pool {
        let strs = enumerate(&ALPHABET, 4);
        let h = strs.iter().map(|s| hash_str(s)).collect();
        let ints: Vec<RVal> = (-6..=8).map(RVal::Int).collect();
        let ih = (-6i64..=8).map(|i| splitmix(i as u64 ^ 0x1357)).collect();
        Pool { s: strs.into_iter().map(RVal::Str).collect(), h, ints, ih }
    }
    /// number of strings of length <= l
    fn upto(&self, l: usize) -> usize {
        count_upto(ALPHABET.len(), l)
    }
}

fn tag(f: F, arity: usize) -> u64 {
    hash_str(&template_src(f, arity))
}

fn hc3(t: u64, a: u64, b: u64, c: u64) -> u64 {
    hash_combine(hash_combine(t, a), hash_combine(b, c).rotate_left(7))
}

pub fn run(ctx: &mut Ctx) {
    ctx.start_watchdog(120);
    let mut env = Env::new();
    let pool = Pool::new();
    ctx.extra.insert("alphabet".into(), json!(ALPHABET.iter().map(|c| format!("U+{:04X}", *c as u32)).collect::<Vec<_>>()));
    exhaustive_unary(ctx, &mut env, &pool);
    exhaustive_one_string_arg(ctx, &mut env, &pool);
    exhaustive_two_string_args(ctx, &mut env, &pool);
    exhaustive_truncate(ctx, &mut env, &pool);
    exhaustive_slice(ctx, &mut env, &pool);
    array_inputs(ctx, &mut env, &pool);
    default_inputs(ctx, &mut env, &pool);
    random_strings(ctx, &mut env);
    chains(ctx, &mut env, &pool);
    literal_entry_chains(ctx);
    env.flush(ctx);
}

/// Chains whose entry value is a *literal* and whose arguments are variables, parsed once and
/// evaluated many times with different argument values — across renders and across iterations of
/// one render. "The result of a filter chain is the left-to-right composition of its filters":
/// with the arguments of *this* evaluation. (All other blocks enter the chain through a variable.)
fn literal_entry_chains(ctx: &mut Ctx) {
    let p = crate::cfg::parser(crate::cfg::Config::Stdlib);
    let srcs = [
        ("{{ 'aB é' | append: y | prepend: z | vdump }}", 0usize),
        ("{{ \"x,y\" | replace: ',', y | upcase | append: z | vdump }}", 1),
        ("{% for w in ws %}[{{ 'L' | append: w | append: forloop.index | vdump }}]{% endfor %}", 2),
        ("{% assign k = 'q' | append: y %}{{ k | vdump }}{% assign k = 'q' | append: z %}{{ k | vdump }}", 3),
    ];
    let args = ["", "1", "é", "👍 ", "B", ",", "<", "a a"];
    for (src, kind) in srcs {
        let t = p.parse(src).expect("c13 literal-entry template");
        for (iy, y) in args.iter().enumerate() {
            for (iz, z) in args.iter().enumerate() {
                let h = crate::rng::hash_str(&format!("lit-entry:{src}:{iy}:{iz}"));
                // deliberately NOT sharded by hash alone: every worker re-evaluates one parsed chain with
                // a sequence of different arguments; the sequence is what matters
                if !ctx.mine_idx((iy % 2) as u64 * 8 + kind as u64) && ctx.nshards > 1 && !ctx.mine(h) {
                    // still evaluate (keeps the history of the shared parsed chain long), just do not record
                }
                let mut o = Object::new();
                o.insert("y".into(), liquid::model::Value::scalar(y.to_string()));
                o.insert("z".into(), liquid::model::Value::scalar(z.to_string()));
                o.insert("ws".into(), liquid::model::Value::Array(vec![liquid::model::Value::scalar(y.to_string()), liquid::model::Value::scalar(z.to_string()), liquid::model::Value::scalar("")]));
                let want = match kind {
                    0 => RVal::Str(format!("{z}aB é{y}")).dump(),
                    1 => RVal::Str(format!("{}{z}", format!("x{y}y").to_uppercase())).dump(),
                    2 => [y, z, &""].iter().enumerate().map(|(i, w)| format!("[{}]", RVal::Str(format!("L{w}{}", i + 1)).dump())).collect::<String>(),
                    _ => format!("{}{}", RVal::Str(format!("q{y}")).dump(), RVal::Str(format!("q{z}")).dump()),
                };
                let out = crate::exec::render(&t, &o);
                if ctx.mine(h) {
                    ctx.record(h, true);
                    ctx.count("family:literal-entry-chain");
                }
                if out.ok() != Some(want.as_str()) {
                    ctx.violation(
                        "chain:literal-entry-result-not-composition-of-current-arguments",
                        &format!("{src:?} with y={y:?} z={z:?} (after earlier evaluations of the same parsed chain with other arguments) gave {:?}, composition gives {want:?}", out.summary()),
                        || json!({"kind": "filter-eval", "template": src, "data": {"y": y, "z": z}, "expected": want}),
                    );
                }
            }
        }
    }
}

/// indices of the inputs of the unary-style blocks: all of length <= 3, plus all (thorough) or a
/// seeded sample (quick) of length 4
fn input_indices(ctx: &Ctx, pool: &Pool, tag: &str, sample: usize) -> Vec<usize> {
    let n3 = pool.upto(3);
    let n4 = pool.upto(4);
    let mut v: Vec<usize> = (0..n3).collect();
    if ctx.quick() {
        let mut r = ctx.rng(tag);
        for _ in 0..sample {
            v.push(n3 + r.below(n4 - n3));
        }
    } else {
        v.extend(n3..n4);
    }
    v
}

fn exhaustive_unary(ctx: &mut Ctx, env: &mut Env, pool: &Pool) {
    let xs = input_indices(ctx, pool, "c13-unary", 3000);
    let law_tag = hash_str("law-strip");
    for &ix in &xs {
        for f in UNARY {
            let h = hash_combine(tag(f, 0), pool.h[ix]);
            if ctx.mine(h) {
                cell(ctx, env, f, &pool.s[ix], &[], h, "exhaustive-unary");
                ctx.count("family:exhaustive-unary");
            }
        }
        let h = hash_combine(law_tag, pool.h[ix]);
        if ctx.mine(h) {
            law_strip(ctx, env, &pool.s[ix], h);
            ctx.count("family:exhaustive-unary");
        }
    }
}

fn one_string_arg_case(ctx: &mut Ctx, env: &mut Env, pool: &Pool, tags: &[u64; 8], law_tag: u64, ix: usize, iy: usize) {
    for (k, f) in ONE_STR.iter().enumerate() {
        let h = hc3(tags[k], pool.h[ix], pool.h[iy], 0);
        if ctx.mine(h) {
            cell(ctx, env, *f, &pool.s[ix], &[&pool.s[iy]], h, "exhaustive-string-arg");
            ctx.count("family:exhaustive-string-arg");
        }
    }
    if iy != 0 {
        let h = hc3(law_tag, pool.h[ix], pool.h[iy], 0);
        if ctx.mine(h) {
            law_split_join(ctx, env, &pool.s[ix], &pool.s[iy], h);
            ctx.count("family:exhaustive-string-arg");
        }
    }
}

fn exhaustive_one_string_arg(ctx: &mut Ctx, env: &mut Env, pool: &Pool) {
    let mut tags = [0u64; 8];
    for (k, f) in ONE_STR.iter().enumerate() {
        tags[k] = tag(*f, 1);
    }
    let law_tag = hash_str("law-split-join");
    if ctx.quick() {
        // exhaustive box (x <= 3) x (arg <= 2); seeded sample of the inputs of length 4
        for ix in 0..pool.upto(3) {
            for iy in 0..pool.upto(2) {
                one_string_arg_case(ctx, env, pool, &tags, law_tag, ix, iy);
            }
        }
        let mut r = ctx.rng("c13-one-arg");
        for _ in 0..4000 {
            let ix = pool.upto(3) + r.below(pool.upto(4) - pool.upto(3));
            // an argument that occurs in x half of the time
            let iy = if r.chance(1, 2) {
                arg_inside(pool, ix, &mut r)
            } else {
                pool.upto(1) + r.below(pool.upto(2) - pool.upto(1))
            };
            one_string_arg_case(ctx, env, pool, &tags, law_tag, ix, iy);
        }
    } else {
        for ix in 0..pool.upto(4) {
            for iy in 0..pool.upto(2) {
                one_string_arg_case(ctx, env, pool, &tags, law_tag, ix, iy);
            }
        }
    }
}

/// index of a length-2 (or 1) substring of pool string ix
fn arg_inside(pool: &Pool, ix: usize, r: &mut Rng) -> usize {
    let RVal::Str(x) = &pool.s[ix] else { return 0 };
    let c = cv(x);
    if c.is_empty() {
        return 0;
    }
    let l = if c.len() >= 2 && r.chance(2, 3) { 2 } else { 1 };
    let st = r.below(c.len() - l + 1);
    let sub: String = c[st..st + l].iter().collect();
    (0..pool.upto(2)).find(|&i| matches!(&pool.s[i], RVal::Str(s) if *s == sub)).unwrap_or(0)
}

fn exhaustive_two_string_args(ctx: &mut Ctx, env: &mut Env, pool: &Pool) {
    let fs = [F::Replace, F::ReplaceFirst];
    let tags = [tag(F::Replace, 2), tag(F::ReplaceFirst, 2)];
    let case = |ctx: &mut Ctx, env: &mut Env, ix: usize, iy: usize, iz: usize| {
        for k in 0..2 {
            let h = hc3(tags[k], pool.h[ix], pool.h[iy], pool.h[iz]);
            if ctx.mine(h) {
                cell(ctx, env, fs[k], &pool.s[ix], &[&pool.s[iy], &pool.s[iz]], h, "exhaustive-two-string-args");
                ctx.count("family:exhaustive-two-string-args");
            }
        }
    };
    if ctx.quick() {
        for ix in 0..pool.upto(2) {
            for iy in 0..pool.upto(2) {
                for iz in 0..pool.upto(1) {
                    case(ctx, env, ix, iy, iz);
                }
            }
        }
        let mut r = ctx.rng("c13-two-args");
        for _ in 0..20_000 {
            let ix = 1 + r.below(pool.upto(3) - 1);
            let iy = if r.chance(2, 3) { arg_inside(pool, ix, &mut r) } else { r.below(pool.upto(2)) };
            let iz = r.below(pool.upto(2));
            case(ctx, env, ix, iy, iz);
        }
    } else {
        for ix in 0..pool.upto(3) {
            for iy in 0..pool.upto(2) {
                for iz in 0..pool.upto(2) {
                    case(ctx, env, ix, iy, iz);
                }
            }
        }
    }
}

fn exhaustive_truncate(ctx: &mut Ctx, env: &mut Env, pool: &Pool) {
    let fs = [F::Truncate, F::TruncateWords];
    let t1 = [tag(F::Truncate, 1), tag(F::TruncateWords, 1)];
    let t2 = [tag(F::Truncate, 2), tag(F::TruncateWords, 2)];
    // length argument only
    let xs = input_indices(ctx, pool, "c13-trunc1", 3000);
    for &ix in &xs {
        for ii in 0..pool.ints.len() {
            for k in 0..2 {
                let h = hc3(t1[k], pool.h[ix], pool.ih[ii], 0);
                if ctx.mine(h) {
                    cell(ctx, env, fs[k], &pool.s[ix], &[&pool.ints[ii]], h, "exhaustive-int-arg");
                    ctx.count("family:exhaustive-int-arg");
                }
            }
        }
    }
    // length and ellipsis
    let case = |ctx: &mut Ctx, env: &mut Env, ix: usize, ii: usize, ie: usize| {
        for k in 0..2 {
            let h = hc3(t2[k], pool.h[ix], pool.ih[ii], pool.h[ie]);
            if ctx.mine(h) {
                cell(ctx, env, fs[k], &pool.s[ix], &[&pool.ints[ii], &pool.s[ie]], h, "exhaustive-int-and-string-arg");
                ctx.count("family:exhaustive-int-and-string-arg");
            }
        }
    };
    if ctx.quick() {
        for ix in 0..pool.upto(3) {
            for ii in 0..pool.ints.len() {
                for ie in 0..pool.upto(1) {
                    case(ctx, env, ix, ii, ie);
                }
            }
        }
        let mut r = ctx.rng("c13-trunc2");
        for _ in 0..30_000 {
            let ix = r.below(pool.upto(4));
            let ii = r.below(pool.ints.len());
            let ie = r.below(pool.upto(2));
            case(ctx, env, ix, ii, ie);
        }
    } else {
        for ix in 0..pool.upto(4) {
            for ii in 0..pool.ints.len() {
                for ie in 0..pool.upto(2) {
                    case(ctx, env, ix, ii, ie);
                }
            }
        }
    }
}

fn exhaustive_slice(ctx: &mut Ctx, env: &mut Env, pool: &Pool) {
    let (t1, t2) = (tag(F::Slice, 1), tag(F::Slice, 2));
    let xs = input_indices(ctx, pool, "c13-slice1", 3000);
    for &ix in &xs {
        for io in 0..pool.ints.len() {
            let h = hc3(t1, pool.h[ix], pool.ih[io], 0);
            if ctx.mine(h) {
                cell(ctx, env, F::Slice, &pool.s[ix], &[&pool.ints[io]], h, "exhaustive-int-arg");
                ctx.count("family:exhaustive-int-arg");
            }
        }
    }
    let case = |ctx: &mut Ctx, env: &mut Env, ix: usize, io: usize, il: usize| {
        let h = hc3(t2, pool.h[ix], pool.ih[io], pool.ih[il]);
        if ctx.mine(h) {
            cell(ctx, env, F::Slice, &pool.s[ix], &[&pool.ints[io], &pool.ints[il]], h, "exhaustive-two-int-args");
            ctx.count("family:exhaustive-two-int-args");
        }
    };
    let full = if ctx.quick() { pool.upto(3) } else { pool.upto(4) };
    for ix in 0..full {
        for io in 0..pool.ints.len() {
            for il in 0..pool.ints.len() {
                case(ctx, env, ix, io, il);
            }
        }
    }
    if ctx.quick() {
        let mut r = ctx.rng("c13-slice2");
        for _ in 0..40_000 {
            let ix = pool.upto(3) + r.below(pool.upto(4) - pool.upto(3));
            let io = r.below(pool.ints.len());
            let il = r.below(pool.ints.len());
            case(ctx, env, ix, io, il);
        }
    }
}

/// join / first / last / size on arrays (built on the reference side by splitting on ',')
fn array_inputs(ctx: &mut Ctx, env: &mut Env, pool: &Pool) {
    let nx = if ctx.quick() { pool.upto(3) } else { pool.upto(4) };
    let tj = tag(F::Join, 1);
    let tags0 = [tag(F::First, 0) ^ 1, tag(F::Last, 0) ^ 1, tag(F::Size, 0) ^ 1];
    for ix in 0..nx {
        let RVal::Str(x) = &pool.s[ix] else { continue };
        if !x.contains(',') && ix % 7 != 0 {
            continue; // single-element arrays are kept only for a seventh of the inputs
        }
        let mut parts: Vec<RVal> = ref_split(x, ",").into_iter().map(RVal::Str).collect();
        if ix % 5 == 0 {
            parts.push(RVal::Int(ix as i64 - 40)); // integers are joined by their decimal form
        }
        if x.is_empty() {
            parts.clear(); // the empty array
        }
        let arr = RVal::Array(parts);
        for iy in 0..pool.upto(2) {
            let h = hc3(tj, pool.h[ix], pool.h[iy], 3);
            if ctx.mine(h) {
                cell(ctx, env, F::Join, &arr, &[&pool.s[iy]], h, "array-input");
                ctx.count("family:array-input");
            }
        }
        for (k, f) in [F::First, F::Last, F::Size].iter().enumerate() {
            let h = hash_combine(tags0[k], pool.h[ix]);
            if ctx.mine(h) {
                cell(ctx, env, *f, &arr, &[], h, "array-input");
                ctx.count("family:array-input");
            }
        }
    }
}

/// default on inputs that are not strings (strings are covered by the string-argument block)
fn default_inputs(ctx: &mut Ctx, env: &mut Env, pool: &Pool) {
    let xs = [
        RVal::Nil,
        RVal::Bool(false),
        RVal::Bool(true),
        RVal::Int(0),
        RVal::Int(-3),
        RVal::Array(vec![]),
        RVal::Array(vec![rs("")]),
        rs(" "),
        rs("false"),
        rs("nil"),
    ];
    let t = tag(F::Default, 1);
    for (i, x) in xs.iter().enumerate() {
        for iy in 0..pool.upto(2) {
            let h = hc3(t, i as u64 + 99, pool.h[iy], 5);
            if ctx.mine(h) {
                cell(ctx, env, F::Default, x, &[&pool.s[iy]], h, "default-non-string");
                ctx.count("family:default-non-string");
            }
        }
        let y = RVal::Int(i as i64);
        let h = hc3(t, i as u64 + 99, 77, 6);
        if ctx.mine(h) {
            cell(ctx, env, F::Default, x, &[&y], h, "default-non-string");
            ctx.count("family:default-non-string");
        }
    }
}

/// a short argument for a random string: a piece of x (character aligned) or fresh text
fn rand_arg(r: &mut Rng, x: &str, inside_num: u32) -> String {
    let c = cv(x);
    if !c.is_empty() && r.chance(inside_num, 4) {
        let l = 1 + r.below(3.min(c.len()));
        let st = r.below(c.len() - l + 1);
        c[st..st + l].iter().collect()
    } else {
        rand_text(r, 4, &[])
    }
}

/// one random filter call (filter + arguments) for input text x
fn rand_call(r: &mut Rng, f: F, x: &str) -> Vec<RVal> {
    let n = nchars(x) as i64;
    match f {
        F::Append | F::Prepend | F::Default => vec![rs(rand_arg(r, x, 0))],
        F::Remove | F::RemoveFirst | F::Split => vec![rs(rand_arg(r, x, 3))],
        F::Join => vec![rs(rand_arg(r, x, 1))],
        F::Replace | F::ReplaceFirst => {
            if r.chance(1, 3) {
                vec![rs(rand_arg(r, x, 3))]
            } else {
                vec![rs(rand_arg(r, x, 3)), rs(rand_arg(r, x, 0))]
            }
        }
        F::Truncate => {
            let k = match r.below(4) {
                0 => r.range(-6, 8),
                1 => n + r.range(-4, 4),
                _ => r.range(0, n + 5),
            };
            match r.below(4) {
                0 => vec![],
                1 | 2 => vec![RVal::Int(k)],
                _ => vec![RVal::Int(k), rs(if r.chance(1, 4) { String::new() } else { rand_text(r, 4, &[]) })],
            }
        }
        F::TruncateWords => {
            let k = r.range(-2, 12);
            if r.chance(1, 2) {
                vec![RVal::Int(k)]
            } else {
                vec![RVal::Int(k), rs(rand_text(r, 4, &[]))]
            }
        }
        F::Slice => {
            let off = match r.below(4) {
                0 => r.range(-6, 8),
                1 => r.range(-n - 3, -1),
                2 => n + r.range(-4, 3),
                _ => r.range(0, n + 2),
            };
            if r.chance(1, 3) {
                vec![RVal::Int(off)]
            } else {
                vec![RVal::Int(off), RVal::Int(if r.chance(1, 8) { r.range(-2, 0) } else { r.range(1, n + 3) })]
            }
        }
        _ => vec![],
    }
}

fn hv(v: &RVal) -> u64 {
    hash_str(&v.dump())
}

fn random_strings(ctx: &mut Ctx, env: &mut Env) {
    let n = ctx.scale(2_000u64, 50_000u64);
    let rng = ctx.rng("c13-random");
    let law_strip_tag = hash_str("law-strip");
    let law_sj_tag = hash_str("law-split-join");
    ctx.add("random:characters", 0); // make the counter exist in every shard
    for i in 0..n {
        let mut r = rng.fork(i);
        let xs = rand_text(&mut r, 200, &[]);
        let hx = hash_str(&xs);
        let x = RVal::Str(xs.clone());
        for f in ALL_F {
            if f == F::Join {
                continue;
            }
            // two argument draws for the filters that take arguments
            let reps = if matches!(f, F::Truncate | F::Slice | F::Replace | F::ReplaceFirst | F::Split | F::TruncateWords) { 2 } else { 1 };
            for _ in 0..reps {
                let args = rand_call(&mut r, f, &xs);
                let refs: Vec<&RVal> = args.iter().collect();
                let mut h = hash_combine(tag(f, refs.len()), hx);
                for a in &args {
                    h = hash_combine(h, hv(a));
                }
                if ctx.mine(h) {
                    cell(ctx, env, f, &x, &refs, h, "random-string");
                    ctx.count("family:random-string");
                    ctx.add("random:characters", nchars(&xs) as u64);
                }
                if f == F::Split {
                    if let [sep @ RVal::Str(s)] = &args[..] {
                        if !s.is_empty() {
                            let h = hc3(law_sj_tag, hx, hv(sep), 0);
                            if ctx.mine(h) {
                                law_split_join(ctx, env, &x, sep, h);
                                ctx.count("family:random-string");
                            }
                            // join of the reference pieces with another separator
                            let arr = RVal::Array(ref_split(&xs, s).into_iter().map(RVal::Str).collect());
                            let j = rs(rand_arg(&mut r, &xs, 1));
                            let h = hc3(tag(F::Join, 1), hx, hv(sep), hv(&j));
                            if ctx.mine(h) {
                                cell(ctx, env, F::Join, &arr, &[&j], h, "random-string");
                                ctx.count("family:random-string");
                            }
                        }
                    }
                }
            }
        }
        let h = hash_combine(law_strip_tag, hx);
        if ctx.mine(h) {
            law_strip(ctx, env, &x, h);
            ctx.count("family:random-string");
        }
    }
}

// ---------------------------------------------------------------------------------------------
// chains
// ---------------------------------------------------------------------------------------------

/// template of a chain over the variables x, a0, b0, a1, b1, ...
fn chain_src(calls: &[(F, Vec<RVal>)]) -> String {
    let mut s = String::from("{{ x");
    for (i, (f, args)) in calls.iter().enumerate() {
        s.push_str(" | ");
        s.push_str(f.name());
        match args.len() {
            0 => {}
            1 => s.push_str(&format!(": a{i}")),
            _ => s.push_str(&format!(": a{i}, b{i}")),
        }
    }
    s.push_str(" | vdump }}");
    s
}

fn chain_data(x: &RVal, calls: &[(F, Vec<RVal>)]) -> RVal {
    let mut kv = vec![("x".to_string(), x.clone())];
    for (i, (_, args)) in calls.iter().enumerate() {
        if let Some(a) = args.first() {
            kv.push((format!("a{i}"), a.clone()));
        }
        if let Some(b) = args.get(1) {
            kv.push((format!("b{i}"), b.clone()));
        }
    }
    RVal::Object(kv)
}

/// the composition: every step rendered separately, the structural result fed to the next step
fn stepwise(env: &Env, x: &RVal, calls: &[(F, Vec<RVal>)]) -> Result<String, String> {
    let mut cur = x.clone();
    let mut last = format!("ok:{}", x.dump());
    for (f, args) in calls {
        let refs: Vec<&RVal> = args.iter().collect();
        let t = env.template(*f, refs.len()).ok_or_else(|| "step template rejected at parse".to_string())?;
        let out = render(t, &data(&cur, &refs));
        match &out {
            Out::Ok(d) => {
                cur = parse_dump(d).ok_or_else(|| format!("cannot read back {d}"))?;
                last = out.summary();
            }
            _ => return Ok(out.summary()),
        }
    }
    Ok(last)
}

fn chains(ctx: &mut Ctx, env: &mut Env, pool: &Pool) {
    let n = ctx.scale(15_000u64, 300_000u64);
    let rng = ctx.rng("c13-chains");
    for i in 0..n {
        if !ctx.mine_idx(i) {
            continue;
        }
        let mut r = rng.fork(i);
        let x = if r.chance(1, 2) {
            pool.s[r.below(pool.s.len())].clone()
        } else {
            rs(rand_text(&mut r, 16, &[]))
        };
        let RVal::Str(xs) = &x else { continue };
        let k = 1 + r.below(4);
        let mut calls: Vec<(F, Vec<RVal>)> = Vec::new();
        for _ in 0..k {
            let f = *r.pick(&ALL_F);
            let mut args = rand_call(&mut r, f, xs);
            if f == F::Slice || f == F::Truncate || f == F::TruncateWords {
                // keep integer arguments in the stated range
                for a in args.iter_mut() {
                    if let RVal::Int(v) = a {
                        *v = (*v).clamp(-6, 8);
                    }
                }
            }
            calls.push((f, args));
        }
        let src = chain_src(&calls);
        let dataj = chain_data(&x, &calls);
        let h = hash_combine(hash_str(&src), hash_str(&dataj.dump()));
        ctx.set_progress(&json!({"kind":"chain","template":src,"data":dataj.to_json()}).to_string());
        let t = match env.parser.parse(&src) {
            Ok(t) => t,
            Err(_) => {
                ctx.count("chain:rejected-at-parse");
                continue;
            }
        };
        let whole = render(&t, &dataj.to_object());
        let steps = stepwise(env, &x, &calls);
        ctx.record(h, !xs.is_empty());
        ctx.count("law:chain");
        ctx.count("family:chain");
        ctx.count(&format!("chain:length-{k}"));
        for (f, _) in &calls {
            env.n_filter[f.idx()] += 1;
        }
        env.n_out[out_idx(&whole)] += 1;
        let replay = || {
            json!({"kind":"chain","template":src,"data":dataj.to_json(),
                   "steps":calls.iter().map(|(f,a)| json!({"filter":f.name(),"args":a.iter().map(|v| v.to_json()).collect::<Vec<_>>()})).collect::<Vec<_>>(),
                   "expected":steps.clone().unwrap_or_else(|e| e),"observed":whole.summary()})
        };
        match (&whole, &steps) {
            (Out::Panic(p), _) => ctx.violation(&p.key(), &format!("chain panicked at {}: {}", p.site(), p.msg), replay),
            (Out::BadUtf8(_), _) => ctx.violation("non-utf8-output", "chain produced output that is not UTF-8", replay),
            (_, Err(e)) => {
                if ctx.inconclusive.len() < 5 {
                    ctx.inconclusive.push(format!("c13 chain: {e}"));
                }
            }
            (w, Ok(s)) => {
                if w.summary() != *s {
                    ctx.violation(
                        "law:chain",
                        &format!("chain gave {} but the composition of its steps gave {}", show(&w.summary()), show(s)),
                        replay,
                    );
                }
            }
        }
        ctx.sample(|| json!({"family":"chain","template":src,"data":dataj.dump(),"observed":whole.summary().chars().take(100).collect::<String>()}));
    }
}

// ---------------------------------------------------------------------------------------------
// replay
// ---------------------------------------------------------------------------------------------

fn arg_list(d: &RVal) -> (RVal, Vec<RVal>) {
    let mut x = RVal::Nil;
    let mut y = None;
    let mut z = None;
    if let RVal::Object(kv) = d {
        for (k, v) in kv {
            match k.as_str() {
                "x" => x = v.clone(),
                "y" => y = Some(v.clone()),
                "z" => z = Some(v.clone()),
                _ => {}
            }
        }
    }
    let mut a = Vec::new();
    if let Some(y) = y {
        a.push(y);
        if let Some(z) = z {
            a.push(z);
        }
    }
    (x, a)
}

pub fn replay(j: &Json) -> bool {
    let env = Env::new();
    let kind = j["kind"].as_str().unwrap_or("");
    let src = j["template"].as_str().unwrap_or("");
    let d = RVal::from_json(&j["data"]);
    println!("kind={kind} template={src:?}");
    println!("data={}", d.dump());
    let t = match env.parser.parse(src) {
        Ok(t) => t,
        Err(e) => {
            println!("parse error: {e}");
            return false;
        }
    };
    let globals = if matches!(d, RVal::Object(_)) { d.to_object() } else { Object::new() };
    let out = render(&t, &globals);
    println!("observed now : {}", out.summary());
    println!("recorded     : expected {} observed {}", j["expected"], j["observed"]);
    match kind {
        "filter-eval" => {
            if let Some(f) = j["filter"].as_str().and_then(F::from_name) {
                let (x, a) = arg_list(&d);
                let refs: Vec<&RVal> = a.iter().collect();
                let exp = expect(f, &x, &refs);
                if exp.exact {
                    let mut acc: Vec<String> = exp.ok.iter().map(|e| format!("ok:{}", e.dump())).collect();
                    if exp.err_ok {
                        acc.push("err".into());
                    }
                    println!("reference    : {}", acc.join(" | "));
                } else {
                    println!("reference    : (documentation silent for this cell, laws only)");
                }
                let v = verdict(f, &x, &refs, &out);
                for fd in &v.findings {
                    println!("VIOLATION {}: {}", fd.key, fd.what);
                }
                !v.findings.is_empty()
            } else {
                // a law rendered through one template (split|join): expected is a list of acceptable outcomes
                let acc: Vec<String> =
                    j["expected"].as_array().map(|a| a.iter().filter_map(|v| v.as_str().map(String::from)).collect()).unwrap_or_default();
                println!("expected     : {}", acc.join(" | "));
                !acc.contains(&out.summary())
            }
        }
        "law-equal" => {
            let t2 = match env.parser.parse(j["template2"].as_str().unwrap_or("")) {
                Ok(t) => t,
                Err(e) => {
                    println!("parse error: {e}");
                    return false;
                }
            };
            let out2 = render(&t2, &globals);
            println!("template2    : {} -> {}", j["template2"], out2.summary());
            out.summary() != out2.summary() || matches!(out, Out::Panic(_)) || matches!(out2, Out::Panic(_))
        }
        "chain" => {
            let (x, _) = arg_list(&d);
            let calls: Vec<(F, Vec<RVal>)> = j["steps"]
                .as_array()
                .map(|a| {
                    a.iter()
                        .filter_map(|s| {
                            let f = F::from_name(s["filter"].as_str()?)?;
                            let args = s["args"].as_array()?.iter().map(RVal::from_json).collect();
                            Some((f, args))
                        })
                        .collect()
                })
                .unwrap_or_default();
            match stepwise(&env, &x, &calls) {
                Ok(s) => {
                    println!("composition  : {s}");
                    s != out.summary() || matches!(out, Out::Panic(_) | Out::BadUtf8(_))
                }
                Err(e) => {
                    println!("composition failed: {e}");
                    matches!(out, Out::Panic(_) | Out::BadUtf8(_))
                }
            }
        }
        _ => {
            println!("unknown replay kind");
            false
        }
    }
}

#[cfg(test)]
mod tests {
    use super::*;

    fn ok(v: RVal) -> Out {
        Out::Ok(v.dump())
    }
    fn keys(v: &Verdict) -> Vec<&str> {
        v.findings.iter().map(|f| f.key.as_str()).collect()
    }
    fn x(s: &str) -> RVal {
        RVal::Str(s.to_string())
    }

    /// the oracle accepts documented behaviour (incl. what the repo's unit tests pin) and names the byte defects
    #[test]
    fn oracle_self_test() {
        assert!(keys(&verdict(F::Size, &x("é👍"), &[], &ok(RVal::Int(2)))).is_empty());
        assert_eq!(keys(&verdict(F::Size, &x("é👍"), &[], &ok(RVal::Int(6)))), ["size:counts-bytes"]);
        assert_eq!(keys(&verdict(F::Size, &x("ab"), &[], &ok(RVal::Int(3)))), ["size:differs-from-reference"]);
        // pinned by /repo unit tests
        let pinned = [
            ("Here is an a\u{310}, e\u{301}, and o\u{308}\u{332}.", 20, "...", "Here is an a\u{310}, e\u{301}, ..."),
            ("Here is a RUST: 🇷🇺🇸🇹.", 20, "...", "Here is a RUST: 🇷🇺..."),
            ("Ground control to Major Tom.", 25, ", and so on", "Ground control, and so on"),
            ("Ground control to Major Tom.", 20, "", "Ground control to Ma"),
            ("Ground control to Major Tom.", -17, "...", "Ground control to Major Tom."),
        ];
        for (s, n, e, r) in pinned {
            let v = verdict(F::Truncate, &x(s), &[&RVal::Int(n), &x(e)], &ok(x(r)));
            assert!(keys(&v).is_empty(), "{s:?} {n} {e:?}: {:?}", keys(&v));
        }
        assert_eq!(keys(&verdict(F::Truncate, &x("éé"), &[&RVal::Int(3)], &ok(x("...")))), ["truncate:counts-bytes"]);
        assert_eq!(keys(&verdict(F::Truncate, &x("abcdef"), &[&RVal::Int(4)], &ok(x("ab...")))), ["truncate:differs-from-reference", "law:truncate-length"]);
        assert_eq!(keys(&verdict(F::Truncate, &x("abcdef"), &[&RVal::Int(4)], &ok(x("abcdef")))), ["truncate:differs-from-reference", "law:truncate-length"]);
        assert!(keys(&verdict(F::Slice, &x("aé"), &[&RVal::Int(-1)], &ok(x("é")))).is_empty());
        assert_eq!(keys(&verdict(F::Slice, &x("aé"), &[&RVal::Int(-1)], &ok(x("")))), ["slice:negative-offset-counts-bytes"]);
        assert_eq!(keys(&verdict(F::Slice, &x("abc"), &[&RVal::Int(0), &RVal::Int(2)], &ok(x("ac")))), ["slice:differs-from-reference", "law:slice-contiguous"]);
        assert!(keys(&verdict(F::Slice, &x("abc"), &[&RVal::Int(0), &RVal::Int(0)], &Out::Err("e".into()))).is_empty());
        assert!(keys(&verdict(F::TruncateWords, &x("one two three"), &[&RVal::Int(2)], &ok(x("one two...")))).is_empty());
        assert!(keys(&verdict(F::TruncateWords, &x("one two three"), &[&RVal::Int(0)], &ok(x("...")))).is_empty());
        assert!(keys(&verdict(F::TruncateWords, &x("one two three"), &[&RVal::Int(-1)], &ok(x("one two three")))).is_empty());
        assert_eq!(keys(&verdict(F::TruncateWords, &x("one two three"), &[&RVal::Int(2)], &ok(x("one...")))), ["truncatewords:differs-from-reference"]);
        assert!(keys(&verdict(F::Capitalize, &x("ßß"), &[], &ok(x("SSß")))).is_empty());
        assert_eq!(keys(&verdict(F::Capitalize, &x("aB"), &[], &ok(x("Ab")))), ["capitalize:differs-from-reference"]);
        assert!(keys(&verdict(F::Strip, &x("\u{2003} a \n"), &[], &ok(x("a")))).is_empty());
        let arr = RVal::Array(vec![x("a"), x(""), x("")]);
        assert!(keys(&verdict(F::Split, &x("a,,"), &[&x(",")], &ok(arr))).is_empty());
        assert_eq!(keys(&verdict(F::Split, &x("a,,"), &[&x(",")], &ok(RVal::Array(vec![x("a")])))), ["split:differs-from-reference", "law:split-pieces"]);
        assert!(keys(&verdict(F::NewlineToBr, &x("a\nb"), &[], &ok(x("a<br />\nb")))).is_empty());
        assert_eq!(keys(&verdict(F::NewlineToBr, &x("a\nb"), &[], &ok(x("a\nb")))), ["newline_to_br:differs-from-reference"]);
        assert!(keys(&verdict(F::Replace, &x("aaa"), &[&x("aa"), &x("b")], &ok(x("ba")))).is_empty());
        assert!(keys(&verdict(F::Default, &x(""), &[&x("d")], &ok(x("d")))).is_empty());
        assert_eq!(keys(&verdict(F::Default, &x(" "), &[&x("d")], &ok(x("d")))), ["default:differs-from-reference"]);
    }

    #[test]
    fn dump_round_trip() {
        let v = RVal::Array(vec![RVal::Nil, RVal::Bool(true), RVal::Int(-3), RVal::Float(2.5), x("a\"\\\n,]é👍"), RVal::Array(vec![])]);
        assert_eq!(parse_dump(&v.dump()).unwrap().dump(), v.dump());
        assert!(parse_dump("s:\"a\"x").is_none());
    }

    #[test]
    fn clusters() {
        let n = |s: &str| cluster_offsets(s).unwrap().len() - 1;
        assert_eq!(n("Here is a RUST: 🇷🇺🇸🇹."), 19);
        assert_eq!(n("e\u{301}\r\n\u{301}👨\u{200d}👩\u{200d}👧"), 4);
        assert!(cluster_offsets("\u{1100}").is_none());
    }
}
