//! C02 — rendering is total and emits UTF-8.
use crate::cfg::{parser, parser_with, Config, Policy};
use crate::ctx::Ctx;
use crate::exec::{render, Out};
use crate::gen::ast::{to_source, Style};
use crate::gen::prog::{Gen, Opts};
use crate::pool;
use crate::rng::{hash_combine, hash_str};
use crate::val::RVal;
use liquid::reflection::ParserReflection;
use liquid::Object;
use serde_json::json;

/// report the M1–M4 verdict for one monitored render
pub fn judge(ctx: &mut Ctx, out: &Out, family: &str, replay: impl Fn() -> serde_json::Value) {
    ctx.count(&format!("outcome:{}", out.tag()));
    match out {
        Out::Ok(_) => {}
        Out::Err(m) => {
            if m.trim().is_empty() {
                ctx.violation("empty-error-message", "render returned an error without a message", replay);
            }
        }
        Out::Panic(p) => {
            ctx.set_insert("panic_sites", hash_str(&p.site()));
            ctx.violation(
                &p.key(),
                &format!("render panicked at {}: {} [{family}]", p.site(), p.msg),
                replay,
            );
        }
        Out::BadUtf8(b) => {
            ctx.violation(
                "non-utf8-output",
                &format!("render emitted {} bytes that are not valid UTF-8 [{family}]", b.len()),
                replay,
            );
        }
    }
}

fn data3(x: &RVal, y: &RVal, z: &RVal) -> Object {
    let mut o = Object::new();
    o.insert("x".into(), x.to_liquid());
    o.insert("y".into(), y.to_liquid());
    o.insert("z".into(), z.to_liquid());
    o
}

pub fn run(ctx: &mut Ctx) {
    ctx.start_watchdog(60);
    filter_matrix(ctx);
    tag_sweeps(ctx);
    array_stress(ctx);
    random_programs(ctx);
}

/// random long arrays (beyond the 20-element threshold of the standard sort) of every element
/// kind, including nested arrays that are prefixes of one another and objects with overlapping
/// keys, in random order, through every array filter — crash / hang / UTF-8 monitors only
fn array_stress(ctx: &mut Ctx) {
    use crate::val::{arr, obj, s};
    let full = parser(Config::Full);
    let std = parser(Config::Stdlib);
    let filters = [
        ("stdlib", "{{ x | sort | join: ',' }}"),
        ("stdlib", "{{ x | sort_natural | join: ',' }}"),
        ("stdlib", "{{ x | sort: 'k' | size }}"),
        ("stdlib", "{{ x | sort_natural: 'k' | size }}"),
        ("full", "{{ x | sort | size }}"),
        ("full", "{{ x | sort: 'k' | size }}"),
        ("full", "{{ x | sort: 'k', 'last' | size }}"),
        ("stdlib", "{{ x | uniq | reverse | compact | size }}"),
        ("stdlib", "{{ x | map: 'k' | sort | size }}"),
        ("stdlib", "{{ x | where: 'k' | size }}{{ x | concat: x | sort | size }}"),
    ];
    let templates: Vec<(&str, &str, liquid::Template)> = filters
        .iter()
        .map(|(c, t)| (*c, *t, if *c == "full" { full.parse(t) } else { std.parse(t) }.expect("array stress template")))
        .collect();
    let n = ctx.scale(6_000u64, 200_000u64);
    let rng = ctx.rng("c02-array-stress");
    for i in 0..n {
        if !ctx.mine_idx(i) {
            continue;
        }
        let mut r = rng.fork(i);
        let len = 15 + r.below(46);
        let kind = r.below(6);
        let elem = |r: &mut crate::rng::Rng| -> RVal {
            match kind {
                0 => arr((0..r.below(4)).map(|_| RVal::Int(r.range(0, 2))).collect()),
                1 => {
                    let keys = ["k", "j", "a"];
                    RVal::Object((0..r.below(3)).map(|q| (keys[q].to_string(), RVal::Int(r.range(0, 2)))).collect())
                }
                2 => match r.below(4) {
                    0 => arr((0..r.below(3)).map(|_| s(r.choose(&["a", "b"]))).collect()),
                    1 => arr(vec![arr((0..r.below(3)).map(|_| RVal::Int(r.range(0, 1))).collect())]),
                    2 => RVal::Nil,
                    _ => arr((0..r.below(3)).map(|_| RVal::Float(r.range(0, 2) as f64 / 2.0)).collect()),
                },
                3 => obj(vec![("k", match r.below(5) {
                    0 => RVal::Nil,
                    1 => s(r.choose(&["a", "B", "10"])),
                    2 => arr((0..r.below(3)).map(|_| RVal::Int(r.range(0, 2))).collect()),
                    3 => RVal::Float(f64::NAN),
                    _ => RVal::Int(r.range(0, 5)),
                })]),
                4 => match r.below(8) {
                    0 => RVal::Nil,
                    1 => s(r.choose(&["a", "B", "10", "é"])),
                    2 => RVal::Float(f64::NAN),
                    3 => RVal::Bool(r.chance(1, 2)),
                    4 => arr((0..r.below(3)).map(|_| RVal::Int(r.range(0, 2))).collect()),
                    5 => obj(vec![("k", RVal::Int(r.range(0, 2)))]),
                    6 => RVal::Date("2020-01-02".into()),
                    _ => RVal::Int(r.range(-3, 9)),
                },
                _ => RVal::DateTime(format!("2020-01-0{} 0{}:00:00 +0{}00", 1 + r.below(3), r.below(3), r.below(3))),
            }
        };
        let xs: Vec<RVal> = (0..len).map(|_| elem(&mut r)).collect();
        let x = arr(xs);
        let mut o = Object::new();
        o.insert("x".into(), x.to_liquid());
        for (cfgname, src, t) in &templates {
            ctx.set_progress(&format!("array-stress {src} {}", x.dump()));
            let out = render(t, &o);
            ctx.record(hash_combine(hash_str(src), hash_str(&x.dump())), true);
            ctx.count("family:array-stress");
            judge(ctx, &out, "array-stress", || json!({"kind":"render","config":cfgname,"template":src,"partials":[],"data": RVal::Object(vec![("x".into(), x.clone())]).to_json()}));
        }
        ctx.sample(|| json!({"family": "array-stress", "kind": kind, "len": len, "x": x.dump().chars().take(120).collect::<String>()}));
    }
}

fn filter_matrix(ctx: &mut Ctx) {
    let full = parser(Config::Full);
    let std = parser(Config::Stdlib);
    let pool = if ctx.quick() { pool::small() } else { pool::large() };
    let liquid_pool: Vec<liquid::model::Value> = pool.iter().map(|v| v.to_liquid()).collect();
    let mut names: Vec<(String, &liquid::Parser, &'static str)> = Vec::new();
    for f in full.filters() {
        if f.name() != "vdump" {
            names.push((f.name().to_string(), &full, "full"));
        }
    }
    // stdlib `sort` is shadowed by jekyll's in the full configuration: take it from stdlib
    names.push(("sort".to_string(), &std, "stdlib"));
    names.sort_by(|a, b| (a.0.as_str(), a.2).cmp(&(b.0.as_str(), b.2)));
    ctx.extra.insert("filters".into(), json!(names.len()));
    ctx.extra.insert("pool_size".into(), json!(pool.len()));
    for (name, p, cfgname) in &names {
        for arity in 0..=2usize {
            let src = match arity {
                0 => format!("{{{{ x | {name} }}}}"),
                1 => format!("{{{{ x | {name}: y }}}}"),
                _ => format!("{{{{ x | {name}: y, z }}}}"),
            };
            let t = match p.parse(&src) {
                Ok(t) => t,
                Err(_) => {
                    ctx.count("matrix:arity-rejected-at-parse");
                    continue;
                }
            };
            ctx.count("matrix:templates");
            let ny = if arity >= 1 { pool.len() } else { 1 };
            let nz = if arity >= 2 { pool.len() } else { 1 };
            let th = hash_str(&format!("{cfgname}:{src}"));
            for ix in 0..pool.len() {
                for iy in 0..ny {
                    for iz in 0..nz {
                        let h = hash_combine(th, (ix * 10007 + iy * 101 + iz) as u64);
                        if !ctx.mine(h) {
                            continue;
                        }
                        let mut o = Object::new();
                        o.insert("x".into(), liquid_pool[ix].clone());
                        o.insert("y".into(), liquid_pool[iy].clone());
                        o.insert("z".into(), liquid_pool[iz].clone());
                        if ctx.evaluations % 64 == 0 {
                            ctx.set_progress(&format!(
                                "{{\"kind\":\"render\",\"config\":\"{cfgname}\",\"template\":{:?},\"ix\":{ix},\"iy\":{iy},\"iz\":{iz}}}",
                                src
                            ));
                        }
                        let out = render(&t, &o);
                        ctx.record(h, true);
                        ctx.count("family:filter-matrix");
                        let replay = || {
                            json!({"kind":"render","config":cfgname,"template":src,"partials":[],
                                "data": RVal::Object(vec![("x".into(), pool[ix].clone()),("y".into(), pool[iy].clone()),("z".into(), pool[iz].clone())]).to_json()})
                        };
                        judge(ctx, &out, "filter-matrix", replay);
                        ctx.sample(|| json!({"template": src, "x": pool[ix].dump(), "y": pool[iy].dump(), "z": pool[iz].dump(), "outcome": out.summary().chars().take(80).collect::<String>()}));
                    }
                }
            }
        }
    }
}

/// templates over x, y, z; data sweeps the pool for each variable that occurs
const SWEEPS: &[&str] = &[
    "{% tablerow i in x cols:y %}{{ i }}{% endtablerow %}",
    "{% tablerow i in x cols:y limit:z %}{{ tablerow.col }}{% endtablerow %}",
    "{% tablerow i in x limit:y offset:z %}{{ tablerow.index }}{% endtablerow %}",
    "{% tablerow i in (1..5) cols:x %}{{ i }}{% endtablerow %}",
    "{% tablerow i in (1..5) cols:0 %}{{ i }}{% endtablerow %}",
    "{% tablerow i in (1..5) cols:-1 %}{{ i }}{% endtablerow %}",
    "{% tablerow i in (1..3) cols:10000 limit:-1 offset:-1 %}{{ i }}{% endtablerow %}",
    "{% for i in x limit:y offset:z %}{{ i }}{{ forloop.rindex }}{% else %}e{% endfor %}",
    "{% for i in x reversed limit:y %}{{ i }}{% endfor %}",
    "{% for i in x offset:y %}{{ forloop.index0 }}{% endfor %}",
    "{% for i in (1..6) limit:x offset:y reversed %}{{ i }}{% endfor %}",
    "{% for i in (1..4) limit:-1 %}{{ i }}{% endfor %}{% for i in (1..4) offset:-1 %}{{ i }}{% endfor %}",
    "{% for i in (x..y) %}{{ i }}{% endfor %}",
    "{% for i in (x..3) limit:z %}{{ i }}{% endfor %}",
    "{% tablerow i in (x..y) cols:z %}{{ i }}{% endtablerow %}",
    "{% for i in x %}{% for j in y %}{{ forloop.parentloop.index }}{{ j }}{% if z %}{% break %}{% endif %}{% endfor %}{% endfor %}",
    "{% for i in x %}{% ifchanged %}{{ i }}{% endifchanged %}{% cycle y, z %}{% endfor %}",
    "{% cycle x %}{% cycle x, y %}{% cycle 'g': x, y, z %}",
    "{% cycle g: %}",
    "{% cycle 'g': %}",
    "{% cycle 1: x %}{% cycle 1: y %}",
    "{% cycle x: y, z %}{% cycle x: y, z %}{% cycle x: y, z %}",
    "{% include x %}",
    "{% render x %}",
    "{% render 'p' with x as y %}",
    "{% render 'p' for x as i %}",
    "{% render 'p', a: x, b: y %}",
    "{% include 'p' a: x, b: y %}",
    "{% case x %}{% when y %}1{% when z or x %}2{% else %}3{% endcase %}",
    "{% if x == y %}1{% elsif x < y %}2{% elsif x contains y %}3{% else %}4{% endif %}",
    "{% unless x >= y or z %}1{% else %}2{% endunless %}",
    "{% if x <= y and y != z %}1{% endif %}",
    "{{ x[y] }}",
    "{{ x[y][z] }}",
    "{{ x.first }}{{ x.last }}{{ x.size }}",
    "{{ x.size.size }}{{ x.first.first }}",
    "{{ x[-1] }}{{ x[0] }}",
    "{{ x['k'] }}{{ x.k.size }}",
    "{% assign a = x[y] %}{{ a }}",
    "{% assign a = x | default: y %}{{ a.size }}",
    "{% capture c %}{{ x }}{{ y }}{% endcapture %}{{ c | size }}",
    "{% increment x %}{% decrement x %}{{ x }}",
    "{% increment n %}{% assign n = x %}{% increment n %}{{ n }}",
    "{{ x }}{{ y }}{{ z }}",
    "{% raw %}{{ x }}{% endraw %}{% comment %}{{ x | nope }}{% endcomment %}",
    "{{ x | date: '%é' }}",
    "{{ x | date: y | upcase }}",
    "{{ x | sort | join: y }}",
    "{{ x | sort: y | first }}",
    "{{ x | sort_natural | uniq | reverse | compact | join: ',' }}",
    "{{ x | map: y | where: z }}",
    "{{ x | where: y, z | size }}",
    "{{ x | concat: y | slice: z }}",
    "{{ x | split: y | join: z }}",
    "{{ x | truncate: y, z }}{{ x | truncatewords: y, z }}",
    "{{ x | replace: y, z }}{{ x | replace_first: y, z }}{{ x | remove: y }}{{ x | remove_first: y }}",
    "{{ x | plus: y | minus: z | times: y | divided_by: z | modulo: y }}",
    "{{ x | abs | ceil | floor | round: y | at_least: z | at_most: y }}",
    "{{ x | slice: y, z }}",
    "{{ x | strip_html | escape_once | url_encode | url_decode | newline_to_br }}",
];

const SWEEPS_FULL: &[&str] = &[
    "{{ x | date_in_tz: y, z }}",
    "{{ x | slugify: y }}",
    // every slugify mode by name (the mode strings are not in the value pools)
    "{{ x | slugify: 'none' }}|{{ x | slugify: 'raw' }}|{{ x | slugify: 'default' }}",
    "{{ x | slugify: 'pretty' }}|{{ x | slugify: 'ascii' }}|{{ x | slugify: 'latin' }}",
    "{{ x | slugify: 'PRETTY' }}|{{ x | slugify: '' }}",
    "{{ x | append: y | slugify: 'latin' | slugify: 'ascii' }}",
    "{{ x | push: y | pop | unshift: z | shift | array_to_sentence_string: y }}",
    "{{ x | sort: y }}",
    "{{ x | sort: y, z }}",
    "{{ x | pluralize: y, z }}",
];

fn tag_sweeps(ctx: &mut Ctx) {
    let pool = if ctx.quick() { pool::small() } else { pool::large() };
    let partials = vec![
        ("p".to_string(), "{{ a }}{{ b }}{{ i }}{{ y }}{{ forloop.index }}".to_string()),
        ("é👍 a".to_string(), "odd name".to_string()),
    ];
    let pstd = parser_with(Config::Stdlib, Policy::Eager, &partials).expect("parser");
    let pfull = parser_with(Config::Full, Policy::Eager, &partials).expect("parser");
    let all: Vec<(&str, &liquid::Parser, &str)> = SWEEPS
        .iter()
        .map(|s| (*s, &pstd, "stdlib"))
        .chain(SWEEPS_FULL.iter().map(|s| (*s, &pfull, "full")))
        .collect();
    for (src, p, cfgname) in all {
        let t = match p.parse(src) {
            Ok(t) => t,
            Err(e) => {
                // every sweep template is meant to parse; report as harness information
                ctx.count("sweep:rejected-at-parse");
                ctx.extra.insert(format!("sweep-rejected:{src}"), json!(e.to_string().lines().next()));
                continue;
            }
        };
        let uses = |v: &str| {
            src.contains(&format!(" {v} ")) || src.contains(&format!("{v}[")) || src.contains(&format!("[{v}]"))
                || src.contains(&format!("{v}.")) || src.contains(&format!(":{v}")) || src.contains(&format!(": {v}"))
                || src.contains(&format!("({v}..")) || src.contains(&format!("..{v})")) || src.contains(&format!(" {v},"))
        };
        let nx = if uses("x") { pool.len() } else { 1 };
        let ny = if uses("y") { pool.len() } else { 1 };
        let nz = if uses("z") { pool.len() } else { 1 };
        let th = hash_str(&format!("{cfgname}:{src}"));
        let range_tpl = src.contains("..");
        for ix in 0..nx {
            for iy in 0..ny {
                for iz in 0..nz {
                    let h = hash_combine(th, (ix * 10007 + iy * 101 + iz) as u64);
                    if !ctx.mine(h) {
                        continue;
                    }
                    // "huge widths excluded above 10^4": do not ask for ranges longer than that
                    if range_tpl && range_span_too_big(src, &pool[ix], &pool[iy]) {
                        ctx.count("sweep:skipped-huge-range");
                        continue;
                    }
                    let o = data3(&pool[ix], &pool[iy], &pool[iz]);
                    ctx.set_progress(&format!(
                        "{{\"kind\":\"render\",\"config\":\"{cfgname}\",\"template\":{:?},\"ix\":{ix},\"iy\":{iy},\"iz\":{iz}}}",
                        src
                    ));
                    let out = render(&t, &o);
                    ctx.record(h, true);
                    ctx.count("family:tag-sweep");
                    let replay = || {
                        json!({"kind":"render","config":cfgname,"template":src,
                            "partials": partials.iter().map(|(n,t)| json!([n,t])).collect::<Vec<_>>(),
                            "data": RVal::Object(vec![("x".into(), pool[ix].clone()),("y".into(), pool[iy].clone()),("z".into(), pool[iz].clone())]).to_json()})
                    };
                    judge(ctx, &out, "tag-sweep", replay);
                    ctx.sample(|| json!({"template": src, "x": pool[ix].dump(), "y": pool[iy].dump(), "z": pool[iz].dump(), "outcome": out.summary().chars().take(80).collect::<String>()}));
                }
            }
        }
    }
}

fn as_int(v: &RVal) -> Option<i128> {
    match v {
        RVal::Int(i) => Some(*i as i128),
        RVal::Str(s) => s.parse::<i64>().ok().map(|i| i as i128),
        _ => None,
    }
}

fn range_span_too_big(src: &str, x: &RVal, y: &RVal) -> bool {
    let (a, b) = if src.contains("(x..y)") {
        (as_int(x), as_int(y))
    } else if src.contains("(x..3)") {
        (as_int(x), Some(3))
    } else {
        return false;
    };
    match (a, b) {
        (Some(a), Some(b)) => b - a > 10_000,
        _ => false,
    }
}

fn random_programs(ctx: &mut Ctx) {
    let n = ctx.scale(20_000u64, 500_000u64);
    let rng = ctx.rng("c02-prog");
    let hostile = pool::large();
    for i in 0..n {
        if !ctx.mine_idx(i) {
            continue;
        }
        let mut r = rng.fork(i);
        let opts = Opts {
            max_depth: 3,
            max_len: 4,
            allow_partials: true,
            ..Opts::default()
        };
        let mut sc = crate::gen::prog::scenario(&mut r, 2, true, &opts);
        let has_range = sc.main.contains("..") || sc.partials.iter().any(|(_, t)| t.contains(".."));
        // type-confuse the data: replace some bindings by hostile pool values
        if let RVal::Object(kv) = &mut sc.data {
            for (k, v) in kv.iter_mut() {
                if k != "pn" && r.chance(1, 2) {
                    let cand = r.pick(&hostile).clone();
                    // keep loop sizes within the stated bound: random programs nest loops, so
                    // integers that may become range bounds stay small (the 10^4-element case is
                    // covered by the single-loop sweeps)
                    let lim = if has_range { 40 } else { 10_000 };
                    if !matches!(cand, RVal::Int(x) if x.unsigned_abs() > lim) {
                        *v = cand;
                    }
                }
            }
        }
        let p = match parser_with(Config::Full, Policy::Eager, &sc.partials) {
            Ok(p) => p,
            Err(_) => continue,
        };
        let h = hash_str(&format!("{:?}", sc));
        ctx.set_progress(&sc.to_json().to_string());
        let t = match p.parse(&sc.main) {
            Ok(t) => t,
            Err(_) => {
                ctx.count("program:rejected-at-parse");
                continue;
            }
        };
        let out = render(&t, &sc.data.to_object());
        ctx.record(h, true);
        ctx.count("family:random-program");
        let replay = || {
            let mut j = sc.to_json();
            j["kind"] = json!("render");
            j["config"] = json!("full");
            j
        };
        judge(ctx, &out, "random-program", replay);
        ctx.sample(|| json!({"template": sc.main, "outcome": out.summary().chars().take(80).collect::<String>()}));
    }
    let _ = (Gen::new, to_source, Style::plain);
}

/// generic replay of a {kind: render} case
pub fn replay(j: &serde_json::Value) -> bool {
    let cfg = Config::from_name(j["config"].as_str().unwrap_or("stdlib"));
    let partials: Vec<(String, String)> = j["partials"]
        .as_array()
        .map(|a| {
            a.iter()
                .map(|p| (p[0].as_str().unwrap_or("").to_string(), p[1].as_str().unwrap_or("").to_string()))
                .collect()
        })
        .unwrap_or_default();
    let policy = Policy::from_name(j["policy"].as_str().unwrap_or("eager"));
    let text = j["template"].as_str().unwrap_or("");
    let data = RVal::from_json(&j["data"]);
    println!("config={} policy={} template={:?}", cfg.name(), policy.name(), text);
    println!("data={}", data.dump());
    let p = match parser_with(cfg, policy, &partials) {
        Ok(p) => p,
        Err(e) => {
            println!("parser build failed: {e}");
            return false;
        }
    };
    let t = match p.parse(text) {
        Ok(t) => t,
        Err(e) => {
            println!("parse error: {e}");
            return false;
        }
    };
    let data = match data {
        RVal::Object(_) => data.to_object(),
        _ => Object::new(),
    };
    let out = render(&t, &data);
    match &out {
        Out::Ok(s) => {
            println!("outcome: ok {:?}", s);
            false
        }
        Out::Err(m) => {
            println!("outcome: error {:?}", m);
            m.trim().is_empty()
        }
        Out::Panic(p) => {
            println!("outcome: PANIC at {}: {}", p.site(), p.msg);
            true
        }
        Out::BadUtf8(b) => {
            println!("outcome: NON-UTF8 OUTPUT {:?}", b);
            true
        }
    }
}
