//! C11 — value equality and ordering are coherent and construction-independent.
//!
//! Every worker process evaluates the *whole* pair matrix (so that the orchestrator can compare
//! the matrices of 16 independent processes); composite values are rebuilt independently (fresh
//! HashMaps, shuffled insertion order) for every repetition.
//! non-trivial rule: the ordered pair (a, b) has a != b by strict dump, or a is composite
//! (reflexive pairs of composites exercise construction independence); distinct cases are counted
//! by shard 0 only, because all shards run the same matrix on purpose.
use crate::cfg::{parser, Config};
use crate::ctx::Ctx;
use crate::exec::{render, Out};
use crate::mon::guard;
use crate::rng::{hash_str, Rng};
use crate::val::{arr, obj, s, RVal};
use liquid::model::{Value, ValueCow, ValueViewCmp};
use liquid::Object;
use serde_json::json;
use std::cmp::Ordering;

pub fn pool() -> Vec<RVal> {
    let two53 = 1i64 << 53;
    let mut v = vec![
        RVal::Nil,
        RVal::Bool(true),
        RVal::Bool(false),
        RVal::Int(0),
        RVal::Int(1),
        RVal::Int(-1),
        RVal::Int(2),
        RVal::Int(two53),
        RVal::Int(-two53),
        RVal::Int(i64::MAX),
        RVal::Int(i64::MIN),
        RVal::Float(0.0),
        RVal::Float(-0.0),
        RVal::Float(0.5),
        RVal::Float(1.0),
        RVal::Float(-1.0),
        RVal::Float(2.0),
        RVal::Float(two53 as f64),
        RVal::Float(f64::INFINITY),
        RVal::Float(f64::NEG_INFINITY),
        RVal::Float(f64::NAN),
        s(""),
        s(" "),
        s("\n\t"),
        s("0"),
        s("1"),
        s("1.0"),
        s("true"),
        s("false"),
        s("nil"),
        s("a"),
        s("A"),
        s("ab"),
        s("é"),
        s("2020-01-01"),
        RVal::Date("2020-01-01".into()),
        RVal::Date("2020-01-02".into()),
        RVal::DateTime("2020-01-01 00:00:00 +0000".into()),
        RVal::DateTime("2020-01-01 01:00:00 +0100".into()),
        RVal::DateTime("2019-12-31 19:00:00 -0500".into()),
        RVal::DateTime("2020-01-01 00:00:01 +0000".into()),
        RVal::DateTime("2020-01-01 05:30:00 +0530".into()),
        // shown on 1 Jan but on another day in UTC (late evening west, early morning east)
        RVal::DateTime("2020-01-01 23:30:00 -0200".into()),
        RVal::DateTime("2020-01-01 00:30:00 +0200".into()),
        RVal::Empty,
        RVal::Blank,
        arr(vec![]),
        arr(vec![RVal::Nil]),
        arr(vec![RVal::Int(1)]),
        arr(vec![RVal::Float(1.0)]),
        arr(vec![RVal::Int(1), RVal::Int(2)]),
        arr(vec![RVal::Int(2), RVal::Int(1)]),
        arr(vec![s("a")]),
        arr(vec![arr(vec![RVal::Int(1)]), arr(vec![])]),
        arr(vec![obj(vec![("k", RVal::Int(1))])]),
        arr(vec![RVal::Float(f64::NAN)]),
        obj(vec![]),
        obj(vec![("k", RVal::Int(1))]),
        obj(vec![("k", RVal::Float(1.0))]),
        obj(vec![("k", RVal::Int(2))]),
        obj(vec![("j", RVal::Int(1))]),
        obj(vec![("k", RVal::Nil)]),
        obj(vec![("a", RVal::Int(1)), ("b", RVal::Int(2))]),
        obj(vec![("b", RVal::Int(2)), ("a", RVal::Int(1))]),
        obj(vec![("a", RVal::Int(1)), ("b", RVal::Int(3))]),
        // same key set, entries pulling in opposite directions: the verdict must not depend on the
        // order in which a hash map happens to yield the keys
        obj(vec![("a", RVal::Int(2)), ("b", RVal::Int(1))]),
        obj(vec![("p", RVal::Int(1)), ("q", RVal::Int(2)), ("r", RVal::Int(3)), ("s", RVal::Int(4))]),
        obj(vec![("p", RVal::Int(4)), ("q", RVal::Int(3)), ("r", RVal::Int(2)), ("s", RVal::Int(1))]),
        arr(vec![obj(vec![("a", RVal::Int(1)), ("b", RVal::Int(2))])]),
        arr(vec![obj(vec![("a", RVal::Int(2)), ("b", RVal::Int(1))])]),
        obj(vec![
            ("a", RVal::Int(1)),
            ("b", RVal::Int(2)),
            ("c", RVal::Int(3)),
            ("d", RVal::Int(4)),
            ("e", RVal::Int(5)),
            ("f", RVal::Int(6)),
        ]),
        obj(vec![
            ("f", RVal::Int(6)),
            ("e", RVal::Int(5)),
            ("d", RVal::Int(4)),
            ("c", RVal::Int(3)),
            ("b", RVal::Int(2)),
            ("a", RVal::Int(1)),
        ]),
        obj(vec![("o", obj(vec![("x", RVal::Int(1)), ("y", arr(vec![RVal::Int(1), s("a")]))])), ("p", RVal::Nil)]),
        obj(vec![("p", RVal::Nil), ("o", obj(vec![("y", arr(vec![RVal::Int(1), s("a")])), ("x", RVal::Int(1))]))]),
        arr(vec![obj(vec![("a", RVal::Int(1)), ("b", RVal::Int(2)), ("c", RVal::Int(3))]), RVal::Int(1)]),
    ];
    v.shrink_to_fit();
    v
}

fn contains_nan(v: &RVal) -> bool {
    match v {
        RVal::Float(f) => f.is_nan(),
        RVal::Array(xs) => xs.iter().any(contains_nan),
        RVal::Object(kv) => kv.iter().any(|(_, v)| contains_nan(v)),
        _ => false,
    }
}

fn is_composite(v: &RVal) -> bool {
    matches!(v, RVal::Array(_) | RVal::Object(_))
}

/// fresh liquid value; objects get a fresh HashMap with a shuffled insertion order
fn rebuild(v: &RVal, rng: &mut Rng) -> Value {
    match v {
        RVal::Array(xs) => Value::Array(xs.iter().map(|x| rebuild(x, rng)).collect()),
        RVal::Object(kv) => {
            let mut order: Vec<usize> = (0..kv.len()).collect();
            rng.shuffle(&mut order);
            let mut o = Object::new();
            for i in order {
                o.insert(kv[i].0.clone().into(), rebuild(&kv[i].1, rng));
            }
            Value::Object(o)
        }
        other => other.to_liquid(),
    }
}

fn ord_ch(o: Option<Ordering>) -> char {
    match o {
        Some(Ordering::Less) => 'L',
        Some(Ordering::Equal) => 'E',
        Some(Ordering::Greater) => 'G',
        None => 'N',
    }
}

/// "eq ne cmp lt le gt ge" as a compact cell string
fn cell(a: &Value, b: &Value) -> String {
    let ca = ValueViewCmp::new(a);
    let cb = ValueViewCmp::new(b);
    let f = |x: bool| if x { '1' } else { '0' };
    format!(
        "{}{}{}{}{}{}{}",
        f(ca == cb),
        f(ca != cb),
        ord_ch(ca.partial_cmp(&cb)),
        f(ca < cb),
        f(ca <= cb),
        f(ca > cb),
        f(ca >= cb)
    )
}

fn cell_value_api(a: &Value, b: &Value) -> String {
    let f = |x: bool| if x { '1' } else { '0' };
    format!(
        "{}{}{}{}{}{}{}",
        f(a == b),
        f(a != b),
        ord_ch(a.partial_cmp(b)),
        f(a < b),
        f(a <= b),
        f(a > b),
        f(a >= b)
    )
}

struct Laws<'a> {
    ctx: &'a mut Ctx,
    pool: &'a [RVal],
}

impl Laws<'_> {
    fn fail(&mut self, key: &str, what: String, i: usize, j: usize) {
        let (a, b) = (self.pool[i].clone(), self.pool[j].clone());
        self.ctx.violation(key, &what, || json!({"kind": "pair", "a": a.to_json(), "b": b.to_json(), "i": i, "j": j}));
    }
}

fn check_pair(l: &mut Laws<'_>, i: usize, j: usize, reps: usize, rng: &mut Rng, matrix: &mut Vec<String>) {
    let (ra, rb) = (l.pool[i].clone(), l.pool[j].clone());
    let mut first: Option<String> = None;
    for rep in 0..reps {
        let a = rebuild(&ra, rng);
        let b = rebuild(&rb, rng);
        let r = guard(|| {
            let c = cell(&a, &b);
            let cv = cell_value_api(&a, &b);
            let rev = cell(&b, &a);
            // ValueCow, owned and borrowed
            let cow_b = ValueCow::Borrowed(&a) == ValueCow::Borrowed(&b);
            let cow_o = ValueCow::Owned(a.clone()) == ValueCow::Owned(b.clone());
            let mut cow_v = ValueCow::Borrowed(&a) == b;
            // ValueCow against the comparison view and against bare Rust scalars: all the same answer
            let cow_view = ValueCow::Borrowed(&a) == ValueViewCmp::new(&b) && ValueCow::Owned(a.clone()) == ValueViewCmp::new(&b);
            let cow_view_ne = !(ValueCow::Borrowed(&a) == ValueViewCmp::new(&b)) && !(ValueCow::Owned(a.clone()) == ValueViewCmp::new(&b));
            if cow_view == cow_view_ne || cow_view != cow_v {
                cow_v = !cow_b; // force the disagreement report below
            }
            match &rb {
                RVal::Int(n) => {
                    if (ValueCow::Borrowed(&a) == *n) != cow_b {
                        cow_v = !cow_b;
                    }
                }
                RVal::Bool(x) => {
                    if (ValueCow::Borrowed(&a) == *x) != cow_b {
                        cow_v = !cow_b;
                    }
                }
                RVal::Str(x) => {
                    if (ValueCow::Borrowed(&a) == *x.as_str()) != cow_b {
                        cow_v = !cow_b;
                    }
                }
                _ => {}
            }
            // Value itself against ValueViewCmp and against bare Rust scalars / string types
            {
                let mut same = (a == ValueViewCmp::new(&b)) == cow_b;
                match &rb {
                    RVal::Int(n) => same &= (a == *n) == cow_b && (ValueViewCmp::new(&a) == *n) == cow_b,
                    RVal::Float(f) => same &= (a == *f) == cow_b && (ValueCow::Borrowed(&a) == *f) == cow_b && (ValueViewCmp::new(&a) == *f) == cow_b,
                    RVal::Bool(x) => same &= (a == *x) == cow_b && (ValueViewCmp::new(&a) == *x) == cow_b,
                    RVal::Str(x) => {
                        let (ks, kc) = (liquid::model::KString::from_ref(x), liquid::model::KStringCow::from_ref(x));
                        same &= (a == *x.as_str()) == cow_b
                            && (a == x.as_str()) == cow_b
                            && (a == x.clone()) == cow_b
                            && (a == ks) == cow_b
                            && (a == kc) == cow_b
                            && (ValueCow::Borrowed(&a) == x.as_str()) == cow_b
                            && (ValueCow::Borrowed(&a) == x.clone()) == cow_b
                            && (ValueCow::Borrowed(&a) == ks) == cow_b
                            && (ValueCow::Borrowed(&a) == kc) == cow_b
                            && (ValueViewCmp::new(&a) == *x.as_str()) == cow_b
                            && (ValueViewCmp::new(&a) == x.as_str()) == cow_b
                            && (ValueViewCmp::new(&a) == x.clone()) == cow_b
                            && (ValueViewCmp::new(&a) == liquid::model::KString::from_ref(x)) == cow_b
                            && (ValueViewCmp::new(&a) == liquid::model::KStringCow::from_ref(x)) == cow_b;
                    }
                    RVal::DateTime(t) => {
                        if let Some(d) = liquid::model::DateTime::from_str(t) {
                            same &= (a == d) == cow_b && (ValueCow::Borrowed(&a) == d) == cow_b && (ValueViewCmp::new(&a) == d) == cow_b;
                        }
                    }
                    RVal::Date(t) => {
                        if let Some(d) = liquid::model::Date::from_str(t) {
                            same &= (a == d) == cow_b && (ValueCow::Borrowed(&a) == d) == cow_b;
                        }
                    }
                    _ => {}
                }
                if !same {
                    cow_v = !cow_b;
                }
            }
            // scalar against scalar through ScalarCow and its impls for bare Rust scalars
            if let (Some(sa), Some(sb)) = (liquid::ValueView::as_scalar(&a), liquid::ValueView::as_scalar(&b)) {
                let want_cmp = a.partial_cmp(&b);
                let mut same = (sa == sb) == cow_b && sa.partial_cmp(&sb) == want_cmp;
                match &rb {
                    RVal::Int(n) => same &= (sa == *n) == cow_b && sa.partial_cmp(n) == want_cmp,
                    RVal::Float(f) => same &= (sa == *f) == cow_b && sa.partial_cmp(f) == want_cmp,
                    RVal::Bool(x) => same &= (sa == *x) == cow_b && sa.partial_cmp(x) == want_cmp,
                    RVal::Str(x) => same &= (sa == *x.as_str()) == cow_b && sa.partial_cmp(x.as_str()) == want_cmp,
                    _ => {}
                }
                if !same {
                    cow_v = !cow_b;
                }
            }
            (c, cv, rev, cow_b, cow_o, cow_v)
        });
        let (c, cv, rev, cow_b, cow_o, cow_v) = match r {
            Ok(x) => x,
            Err(p) => {
                l.fail(&p.key(), format!("comparison panicked at {}: {}", p.site(), p.msg), i, j);
                return;
            }
        };
        l.ctx.count("comparisons:rust-api");
        let eq = c.as_bytes()[0] == b'1';
        let ne = c.as_bytes()[1] == b'1';
        let cmp = c.as_bytes()[2] as char;
        let lt = c.as_bytes()[3] == b'1';
        let le = c.as_bytes()[4] == b'1';
        let gt = c.as_bytes()[5] == b'1';
        let ge = c.as_bytes()[6] == b'1';
        let desc = || format!("a={} b={} cell(eq ne cmp lt le gt ge)={c} reverse={rev}", ra.dump(), rb.dump());
        // APIs agree
        if c != cv {
            l.fail("api-disagreement:Value-vs-ValueViewCmp", format!("{}: Value gives {cv}", desc()), i, j);
        }
        if cow_b != eq || cow_o != eq || cow_v != eq {
            l.fail("api-disagreement:ValueCow", format!("{}: ValueCow borrowed/owned/vs-Value|ValueViewCmp|bare-scalar|ScalarCow eq = {cow_b}/{cow_o}/{cow_v}", desc()), i, j);
        }
        // construction independence
        match &first {
            None => first = Some(c.clone()),
            Some(f0) => {
                if f0 != &c {
                    l.fail("construction-dependent-comparison", format!("{}: an independent rebuild of the same two values (repetition {rep}) compared as {c}, the first as {f0}", desc()), i, j);
                }
            }
        }
        if ne == eq {
            l.fail("ne-is-not-negation-of-eq", desc(), i, j);
        }
        let req = rev.as_bytes()[0] == b'1';
        if req != eq {
            l.fail("equality-not-symmetric", desc(), i, j);
        }
        let rgt = rev.as_bytes()[5] == b'1';
        let rlt = rev.as_bytes()[3] == b'1';
        if lt != rgt || gt != rlt {
            l.fail("lt-gt-not-dual", desc(), i, j);
        }
        if cmp != 'N' {
            if le != (lt || eq) {
                l.fail("le-incoherent", desc(), i, j);
            }
            if ge != (gt || eq) {
                l.fail("ge-incoherent", desc(), i, j);
            }
        }
        if eq && (lt || gt) {
            l.fail("equal-values-strictly-ordered", desc(), i, j);
        }
        if i == j && !contains_nan(&ra) {
            if !eq {
                l.fail("not-reflexive", desc(), i, j);
            }
            if lt || gt {
                l.fail("equal-values-strictly-ordered", format!("{} (a value and its independent rebuild)", desc()), i, j);
            }
        }
    }
    // integer n and float n are equal for |n| <= 2^53
    if let (RVal::Int(x), RVal::Float(y)) = (&ra, &rb) {
        if x.unsigned_abs() <= (1u64 << 53) && (*x as f64) == *y {
            let c = first.clone().unwrap_or_default();
            if !c.starts_with('1') {
                l.fail("int-float-same-number-not-equal", format!("{} vs {}", ra.dump(), rb.dump()), i, j);
            }
            l.ctx.count("int-float-equal-cells");
        }
    }
    matrix.push(first.unwrap_or_default());
}

const TEMPLATES: &[(&str, &str)] = &[
    ("eq", "{% if a == b %}1{% else %}0{% endif %}"),
    ("ne", "{% if a != b %}1{% else %}0{% endif %}"),
    ("ne2", "{% if a <> b %}1{% else %}0{% endif %}"),
    ("lt", "{% if a < b %}1{% else %}0{% endif %}"),
    ("le", "{% if a <= b %}1{% else %}0{% endif %}"),
    ("gt", "{% if a > b %}1{% else %}0{% endif %}"),
    ("ge", "{% if a >= b %}1{% else %}0{% endif %}"),
    ("case", "{% case a %}{% when b %}1{% else %}0{% endcase %}"),
    ("contains", "{% if arr contains b %}1{% else %}0{% endif %}"),
    ("uniq", "{{ both | uniq | size }}"),
    ("sort", "{{ both | sort | vdump }}"),
];

fn check_templates(l: &mut Laws<'_>, i: usize, j: usize, rng: &mut Rng, ts: &[liquid::Template], cellv: &str) {
    let (ra, rb) = (l.pool[i].clone(), l.pool[j].clone());
    let a = rebuild(&ra, rng);
    let b = rebuild(&rb, rng);
    let mut o = Object::new();
    o.insert("a".into(), a.clone());
    o.insert("b".into(), b.clone());
    o.insert("arr".into(), Value::Array(vec![a.clone()]));
    o.insert("both".into(), Value::Array(vec![a.clone(), b.clone()]));
    let bit = |k: usize| cellv.as_bytes()[k] == b'1';
    let (eq, lt, le, gt, ge) = (bit(0), bit(3), bit(4), bit(5), bit(6));
    for (k, (name, _)) in TEMPLATES.iter().enumerate() {
        let out = render(&ts[k], &o);
        l.ctx.count(&format!("comparisons:template-{name}"));
        let got = match &out {
            Out::Ok(s) => s.clone(),
            Out::Err(_) => {
                // the property only speaks about cells where the construct yields a result
                l.ctx.count(&format!("template-{name}:error"));
                continue;
            }
            Out::Panic(p) => {
                l.fail(&p.key(), format!("template {name} panicked: {} at {}", p.msg, p.site()), i, j);
                continue;
            }
            Out::BadUtf8(_) => continue,
        };
        let want = match *name {
            "eq" | "case" | "contains" => Some(eq),
            "ne" | "ne2" => Some(!eq),
            "lt" => Some(lt),
            "le" => Some(le),
            "gt" => Some(gt),
            "ge" => Some(ge),
            _ => None,
        };
        if let Some(w) = want {
            if got != if w { "1" } else { "0" } {
                l.fail(
                    &format!("template-disagrees-with-value-model:{name}"),
                    format!("a={} b={}: template says {got}, the Rust API says {}", ra.dump(), rb.dump(), w as u8),
                    i,
                    j,
                );
            }
        } else if *name == "uniq" {
            // uniq keeps b iff it is not equal to the kept a
            let want = if eq { "1" } else { "2" };
            if got != want {
                l.fail("template-disagrees-with-value-model:uniq", format!("a={} b={}: [a,b] | uniq has {got} element(s), equality says {want}", ra.dump(), rb.dump()), i, j);
            }
        } else if *name == "sort" && !ra.is_nil() && !rb.is_nil() && !contains_nan(&ra) && !contains_nan(&rb) {
            let ab = format!("[{},{}]", crate::val::dump_view(&a), crate::val::dump_view(&b));
            let ba = format!("[{},{}]", crate::val::dump_view(&b), crate::val::dump_view(&a));
            if lt && got != ab {
                l.fail("template-disagrees-with-value-model:sort", format!("a<b but [a,b] | sort = {got}"), i, j);
            }
            if gt && got != ba {
                l.fail("template-disagrees-with-value-model:sort", format!("a>b but [a,b] | sort = {got}"), i, j);
            }
        }
    }
}

pub fn run(ctx: &mut Ctx, args: &[String]) {
    ctx.start_watchdog(120);
    // `--miri-sample`: a reduced pool (every kind, inline and heap-allocated strings) and no
    // template renders, small enough to be interpreted by Miri
    let miri_sample = args.iter().any(|a| a == "--miri-sample");
    let pool = if miri_sample {
        let full = pool();
        let mut p: Vec<RVal> = full.iter().step_by(5).cloned().collect();
        p.push(s("a string long enough to live on the heap, not inline"));
        p.push(s("fifteen bytes.."));
        p
    } else {
        pool()
    };
    let reps = if args.iter().any(|a| a == "--miri-sample") { 2 } else { ctx.scale(20usize, 200usize) };
    // per-process stream: rebuild orders differ between workers on purpose
    let mut rng = ctx.rng("c11").fork(ctx.shard + 1);
    let ts: Vec<liquid::Template> = if miri_sample {
        Vec::new() // (building the stdlib parser alone costs minutes of interpretation)
    } else {
        let p = parser(Config::Stdlib);
        TEMPLATES.iter().map(|(_, t)| p.parse(t).expect("c11 template")).collect()
    };
    let mut matrix: Vec<String> = Vec::with_capacity(pool.len() * pool.len());
    let count_distinct = ctx.shard == 0;
    for i in 0..pool.len() {
        for j in 0..pool.len() {
            let h = hash_str(&format!("{i},{j}"));
            let nontrivial = pool[i].dump() != pool[j].dump() || is_composite(&pool[i]);
            let mut l = Laws { ctx: &mut *ctx, pool: &pool };
            check_pair(&mut l, i, j, reps, &mut rng, &mut matrix);
            let cellv = matrix.last().cloned().unwrap_or_else(|| "0".repeat(7));
            if cellv.len() == 7 && !miri_sample {
                check_templates(&mut l, i, j, &mut rng, &ts, &cellv);
            }
            ctx.record(h, nontrivial && count_distinct);
            if (i * 7 + j) % 97 == 0 {
                ctx.sample(|| json!({"a": pool[i].dump(), "b": pool[j].dump(), "cell(eq ne cmp lt le gt ge)": cellv}));
            }
        }
    }
    ctx.extra.insert("pool_size".into(), json!(pool.len()));
    ctx.extra.insert("rebuilds_per_pair".into(), json!(reps));
    // exported per worker; the orchestrator requires all processes to agree cell by cell
    ctx.extra.insert("each:matrix".into(), json!(matrix));
}

pub fn replay(j: &serde_json::Value) -> bool {
    let a = RVal::from_json(&j["a"]);
    let b = RVal::from_json(&j["b"]);
    let mut rng = Rng::new(7);
    let mut seen = std::collections::BTreeMap::new();
    for _ in 0..200 {
        let (x, y) = (rebuild(&a, &mut rng), rebuild(&b, &mut rng));
        *seen.entry(format!("{} / reverse {}", cell(&x, &y), cell(&y, &x))).or_insert(0u32) += 1;
    }
    println!("a={} b={}", a.dump(), b.dump());
    println!("cells (eq ne cmp lt le gt ge) over 200 independent rebuilds: {seen:?}");
    let key = j["key"].as_str().unwrap_or("");
    if key == "construction-dependent-comparison" {
        return seen.len() > 1;
    }
    // re-run the law checks on this pair
    let pool = vec![a.clone(), b.clone()];
    let mut ctx = Ctx::new("C11", crate::ctx::Tier::Quick, 1, 0, 1, None);
    let mut m = Vec::new();
    let same = a.dump() == b.dump();
    let mut l = Laws { ctx: &mut ctx, pool: &pool };
    check_pair(&mut l, 0, if same { 0 } else { 1 }, 50, &mut rng, &mut m);
    for (k, c) in &ctx.violation_counts {
        println!("VIOLATED {k} x{c}");
    }
    !ctx.violation_counts.is_empty()
}
