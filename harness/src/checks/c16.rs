//! C16 — escape / escape_once / url_encode / url_decode / strip_html.
//!
//! Non-trivial rule (for `distinct_nontrivial`): the input contains at least one character the
//! filter group under test treats specially — escape and escape_once: one of < > & " ' ; the URL
//! pair: a character outside [A-Za-z0-9._-] ; strip_html: a '<'.
//!
//! Workload (every worker walks all of it, executes `ctx.mine(hash)`); one case = one input text in
//! one group (escape: 1 render; escape_once: 2 renders; url: 3 renders; strip_html: 1 render):
//!  * exhaustive: all strings of length <= 5 (quick: <= 4) over {< > & " ' ; # a l t m p space U+00E9}
//!    through escape and escape_once; all strings of length <= 4 over {% + 2 F f space / U+00E9 U+1F44D}
//!    through url_encode, url_encode|url_decode and url_decode; all strings of length <= 6
//!    (quick: <= 5) over {< > ! - / s c r i p t a} through strip_html;
//!  * the letter alphabet of the statement cannot spell &gt; &quot; &#39; so additionally all
//!    sequences of <= 4 (quick: <= 3) *tokens* out of the five entities, their semicolon-less and
//!    doubled forms, other entities (&copy; &#x27;) and the bare specials go through escape/escape_once;
//!  * random texts of <= 200 characters from the full generator of C13 (ASCII, Latin-1, combining
//!    marks, emoji, ZWJ sequences, CRLF, controls) mixed with entity / percent-escape / tag tokens
//!    (valid and invalid UTF-8 escapes, overlong forms, surrogates, malformed `%`), through all groups.
//!
//! Oracles (as stated by the property; decisions where the documentation is silent):
//!  * escape: no bare < > " ' in the output, every & starts one of &lt; &gt; &amp; &quot; &#39;
//!    (the five the filter produces), and replacing those entities back, left to right, gives the
//!    input. (Together these determine the output uniquely.)
//!  * escape_once ("Escapes a string without changing existing escaped entities"): no bare < > " ',
//!    every & in the output starts an entity, un-escaping the five entities once in the output gives
//!    the same text as un-escaping them once in the input, and escape_once∘escape_once = escape_once.
//!    Which strings are "existing entities" is not documented; two readings are accepted for the exact
//!    comparison "escape applied to everything that is not an entity": the five entities only, or any
//!    `&name;` / `&#digits;` / `&#xhex;` (Shopify).
//!  * url_encode: output only [A-Za-z0-9._-] and %XX; byte by byte: alphanumerics literally
//!    ("URL-unsafe characters" are converted, safe ones are not), '-' '.' '_' literally or escaped,
//!    everything else escaped (either hex case); url_decode(url_encode(x)) = x.
//!  * url_decode against a hand-written decoder: '+' -> space, %XX -> byte, decoded bytes must be
//!    UTF-8 else an error. A '%' not followed by two hex digits is outside "a string that has been
//!    encoded": the percent-encoding crate documents that it stays literal (WHATWG), that result or
//!    an error are both accepted there (counted as `url_decode:malformed-percent-cell`).
//!  * strip_html: the output contains no '<' that is followed later by a '>'; additionally (from
//!    "Removes any HTML tags") the filter only removes: the output is a subsequence of the input and
//!    an input without '<' is returned unchanged.
use super::c13::rand_text;
use crate::cfg::{parser, Config};
use crate::ctx::Ctx;
use crate::exec::{render, Out};
use crate::rng::{hash_combine, hash_str};
use crate::val::RVal;
use liquid::{Object, Parser, Template};
use serde_json::{json, Value as Json};

const HTML_ALPHA: [char; 14] = ['<', '>', '&', '"', '\'', ';', '#', 'a', 'l', 't', 'm', 'p', ' ', '\u{e9}'];
const URL_ALPHA: [char; 9] = ['%', '+', '2', 'F', 'f', ' ', '/', '\u{e9}', '\u{1F44D}'];
const TAG_ALPHA: [char; 12] = ['<', '>', '!', '-', '/', 's', 'c', 'r', 'i', 'p', 't', 'a'];

const ENTITY_TOKENS: [&str; 19] = [
    "&lt;", "&gt;", "&amp;", "&quot;", "&#39;", "&", ";", "&#39", "&amp", "&lt", "<", ">", "\"", "'", "a", "#", "&#x27;", "&copy;",
    "\u{e9}",
];

const RANDOM_TOKENS: &[&str] = &[
    "&lt;", "&gt;", "&amp;", "&quot;", "&#39;", "&#x27;", "&copy;", "&", "&#", "&amp", "&amp;amp;", "<b>", "</b>", "<script>",
    "</script>", "<SCRIPT x>", "<!--", "-->", "<style>", "</style>", "<br/>", "<a href=\"x\">", ">", "<", "\"", "'", "< ", " >",
    "%20", "%2F", "%2f", "%C3%A9", "%c3%a9", "%C3", "%A9", "%E2%82%AC", "%F0%9F%91%8D", "%ED%A0%80", "%C0%80", "%FF", "%", "%2",
    "%G1", "%%", "+", "%2B", "%00", "%7E", "~", "/", "?", "=", "-", ".", "_",
];

const T_ESCAPE: &str = "{{ x | escape | vdump }}";
const T_ONCE: &str = "{{ x | escape_once | vdump }}";
const T_ONCE2: &str = "{{ x | escape_once | escape_once | vdump }}";
const T_ENC: &str = "{{ x | url_encode | vdump }}";
const T_ENCDEC: &str = "{{ x | url_encode | url_decode | vdump }}";
const T_DEC: &str = "{{ x | url_decode | vdump }}";
const T_STRIP: &str = "{{ x | strip_html | vdump }}";
/// a non-string input (the array from split): what strip_html hands on, printed, is still tag-free
const T_STRIP_ARR: &str = "{{ x | split: 'a' | strip_html }}";

#[derive(Clone, Copy, PartialEq, Eq, Debug)]
enum Group {
    Escape,
    EscapeOnce,
    Url,
    StripHtml,
}

impl Group {
    fn name(self) -> &'static str {
        match self {
            Group::Escape => "escape",
            Group::EscapeOnce => "escape_once",
            Group::Url => "url",
            Group::StripHtml => "strip_html",
        }
    }
    fn from_name(s: &str) -> Option<Group> {
        [Group::Escape, Group::EscapeOnce, Group::Url, Group::StripHtml].into_iter().find(|g| g.name() == s)
    }
    fn nontrivial(self, x: &str) -> bool {
        match self {
            Group::Escape | Group::EscapeOnce => x.chars().any(|c| matches!(c, '<' | '>' | '&' | '"' | '\'')),
            Group::Url => x.chars().any(|c| !(c.is_ascii_alphanumeric() || matches!(c, '.' | '_' | '-'))),
            Group::StripHtml => x.contains('<'),
        }
    }
}

// ---------------------------------------------------------------------------------------------
// reference side
// ---------------------------------------------------------------------------------------------

const FIVE: [(&str, char); 5] = [("lt;", '<'), ("gt;", '>'), ("amp;", '&'), ("quot;", '"'), ("#39;", '\'')];

/// length (in chars, all ASCII) of one of the five entity bodies at the start of `rest`
fn five_body(rest: &[char]) -> Option<(usize, char)> {
    for (body, c) in FIVE {
        let b: Vec<char> = body.chars().collect();
        if rest.len() >= b.len() && rest[..b.len()] == b[..] {
            return Some((b.len(), c));
        }
    }
    None
}

/// length of a generic entity body (`name;`, `#digits;`, `#xhex;`) at the start of `rest`
fn generic_body(rest: &[char]) -> Option<usize> {
    let mut i = 0;
    if rest.first() == Some(&'#') {
        i = 1;
        if matches!(rest.get(i), Some('x') | Some('X')) {
            i += 1;
            let st = i;
            while matches!(rest.get(i), Some(c) if c.is_ascii_hexdigit()) {
                i += 1;
            }
            if i == st {
                return None;
            }
        } else {
            let st = i;
            while matches!(rest.get(i), Some(c) if c.is_ascii_digit()) {
                i += 1;
            }
            if i == st {
                return None;
            }
        }
    } else {
        while matches!(rest.get(i), Some(c) if c.is_ascii_alphabetic()) {
            i += 1;
        }
        if i == 0 {
            return None;
        }
    }
    if rest.get(i) == Some(&';') {
        Some(i + 1)
    } else {
        None
    }
}

/// replace the five entities back, left to right, once
fn unescape5(s: &str) -> String {
    let c: Vec<char> = s.chars().collect();
    let mut out = String::new();
    let mut i = 0;
    while i < c.len() {
        if c[i] == '&' {
            if let Some((l, ch)) = five_body(&c[i + 1..]) {
                out.push(ch);
                i += 1 + l;
                continue;
            }
        }
        out.push(c[i]);
        i += 1;
    }
    out
}

fn escape_char(c: char, out: &mut String) {
    match c {
        '<' => out.push_str("&lt;"),
        '>' => out.push_str("&gt;"),
        '&' => out.push_str("&amp;"),
        '"' => out.push_str("&quot;"),
        '\'' => out.push_str("&#39;"),
        _ => out.push(c),
    }
}

/// escape applied to everything that is not an existing entity
fn ref_escape_once(s: &str, generic: bool) -> String {
    let c: Vec<char> = s.chars().collect();
    let mut out = String::new();
    let mut i = 0;
    while i < c.len() {
        if c[i] == '&' {
            let l = if generic { generic_body(&c[i + 1..]) } else { five_body(&c[i + 1..]).map(|(l, _)| l) };
            if let Some(l) = l {
                out.extend(c[i..i + 1 + l].iter());
                i += 1 + l;
                continue;
            }
        }
        escape_char(c[i], &mut out);
        i += 1;
    }
    out
}

/// first bare special of an escaped text: < > " ' anywhere, or an & that does not start an entity
fn bare_special(s: &str, generic_entities: bool) -> Option<char> {
    let c: Vec<char> = s.chars().collect();
    for i in 0..c.len() {
        match c[i] {
            '<' | '>' | '"' | '\'' => return Some(c[i]),
            '&' => {
                let ok = five_body(&c[i + 1..]).is_some() || (generic_entities && generic_body(&c[i + 1..]).is_some());
                if !ok {
                    return Some('&');
                }
            }
            _ => {}
        }
    }
    None
}

fn hexval(b: u8) -> Option<u8> {
    match b {
        b'0'..=b'9' => Some(b - b'0'),
        b'a'..=b'f' => Some(b - b'a' + 10),
        b'A'..=b'F' => Some(b - b'A' + 10),
        _ => None,
    }
}

/// hand-written decoder: (bytes, saw a '%' that is not followed by two hex digits)
fn ref_url_decode(s: &str) -> (Vec<u8>, bool) {
    let b = s.as_bytes();
    let mut out = Vec::with_capacity(b.len());
    let mut malformed = false;
    let mut i = 0;
    while i < b.len() {
        match b[i] {
            b'+' => {
                out.push(b' ');
                i += 1;
            }
            b'%' => {
                let h = b.get(i + 1).copied().and_then(hexval);
                let l = b.get(i + 2).copied().and_then(hexval);
                match (h, l) {
                    (Some(h), Some(l)) => {
                        out.push(h * 16 + l);
                        i += 3;
                    }
                    _ => {
                        malformed = true;
                        out.push(b'%');
                        i += 1;
                    }
                }
            }
            c => {
                out.push(c);
                i += 1;
            }
        }
    }
    (out, malformed)
}

/// walk input bytes and encoded text in parallel; Err(description) on the first disagreement
fn check_encoding(x: &str, enc: &str) -> Result<(), String> {
    let e = enc.as_bytes();
    let mut j = 0;
    for &b in x.as_bytes() {
        let alnum = b.is_ascii_alphanumeric();
        let optional = matches!(b, b'-' | b'.' | b'_');
        if j < e.len() && e[j] == b'%' {
            let v = match (e.get(j + 1).copied().and_then(hexval), e.get(j + 2).copied().and_then(hexval)) {
                (Some(h), Some(l)) => h * 16 + l,
                _ => return Err(format!("malformed escape at output byte {j}")),
            };
            if v != b {
                return Err(format!("input byte {b:#04x} encoded as %{v:02X}"));
            }
            if alnum {
                return Err(format!("URL-safe character {:?} was percent-encoded", b as char));
            }
            j += 3;
        } else if j < e.len() && e[j] == b && (alnum || optional) {
            j += 1;
        } else {
            return Err(format!("input byte {b:#04x} not encoded as expected at output byte {j}"));
        }
    }
    if j != e.len() {
        return Err("encoded text has trailing bytes".into());
    }
    Ok(())
}

// ---------------------------------------------------------------------------------------------
// monitors
// ---------------------------------------------------------------------------------------------

pub struct Finding {
    pub key: String,
    pub what: String,
    pub template: &'static str,
    pub expected: Json,
    pub observed: String,
}

fn show(s: &str) -> String {
    let t: String = s.chars().take(60).collect();
    format!("{:?}", t)
}

/// Ok(Some(text)) = a string result, Ok(None) = the filter returned an error
fn read(out: &Out, filter: &str, template: &'static str, fs: &mut Vec<Finding>) -> Result<Option<String>, ()> {
    match out {
        Out::Ok(d) => match d.strip_prefix("s:").and_then(|j| serde_json::from_str::<String>(j).ok()) {
            Some(s) => Ok(Some(s)),
            None => {
                fs.push(Finding {
                    key: format!("{filter}:not-a-string"),
                    what: format!("{filter} of a string returned {}", show(d)),
                    template,
                    expected: json!("a string"),
                    observed: out.summary(),
                });
                Err(())
            }
        },
        Out::Err(_) => Ok(None),
        Out::Panic(p) => {
            fs.push(Finding {
                key: p.key(),
                what: format!("{filter} panicked at {}: {}", p.site(), p.msg),
                template,
                expected: json!("no panic"),
                observed: out.summary(),
            });
            Err(())
        }
        Out::BadUtf8(_) => {
            fs.push(Finding {
                key: "non-utf8-output".into(),
                what: format!("{filter} produced output that is not UTF-8"),
                template,
                expected: json!("UTF-8"),
                observed: out.summary(),
            });
            Err(())
        }
    }
}

fn unexpected_error(filter: &str, template: &'static str, out: &Out, fs: &mut Vec<Finding>) {
    fs.push(Finding {
        key: format!("{filter}:unexpected-error"),
        what: format!("{filter} of a string returned an error"),
        template,
        expected: json!("a string"),
        observed: out.summary(),
    });
}

fn check_escape(x: &str, out: &Out) -> Vec<Finding> {
    let mut fs = Vec::new();
    let Ok(r) = read(out, "escape", T_ESCAPE, &mut fs) else { return fs };
    let Some(r) = r else {
        unexpected_error("escape", T_ESCAPE, out, &mut fs);
        return fs;
    };
    if let Some(c) = bare_special(&r, false) {
        fs.push(Finding {
            key: "escape:bare-special".into(),
            what: format!("escape output contains a bare {c:?} that is not part of one of its five entities"),
            template: T_ESCAPE,
            expected: json!("no < > \" ' and every & starts &lt; &gt; &amp; &quot; or &#39;"),
            observed: out.summary(),
        });
    }
    let back = unescape5(&r);
    if back != x {
        fs.push(Finding {
            key: "escape:not-invertible".into(),
            what: format!("replacing the entities back in the escape output gives {} instead of the input", show(&back)),
            template: T_ESCAPE,
            expected: json!(format!("un-escaped output = {x:?}")),
            observed: out.summary(),
        });
    }
    fs
}

fn check_escape_once(x: &str, once: &Out, twice: &Out) -> Vec<Finding> {
    let mut fs = Vec::new();
    let Ok(r) = read(once, "escape_once", T_ONCE, &mut fs) else { return fs };
    let Some(r) = r else {
        unexpected_error("escape_once", T_ONCE, once, &mut fs);
        return fs;
    };
    if let Some(c) = bare_special(&r, true) {
        fs.push(Finding {
            key: "escape_once:bare-special".into(),
            what: format!("escape_once output contains a bare {c:?}"),
            template: T_ONCE,
            expected: json!("no < > \" ' and every & starts an entity"),
            observed: once.summary(),
        });
    }
    let (a, b) = (unescape5(&r), unescape5(x));
    if a != b {
        fs.push(Finding {
            key: "escape_once:changes-meaning".into(),
            what: format!("un-escaping the escape_once output gives {} but un-escaping the input gives {}", show(&a), show(&b)),
            template: T_ONCE,
            expected: json!(format!("un-escaped output = {b:?}")),
            observed: once.summary(),
        });
    }
    let (five, generic) = (ref_escape_once(x, false), ref_escape_once(x, true));
    if r != five && r != generic {
        fs.push(Finding {
            key: "escape_once:differs-from-reference".into(),
            what: "escape_once is not escape applied to the parts that are not existing entities (five-entity and any-entity readings)".into(),
            template: T_ONCE,
            expected: json!([five, generic]),
            observed: once.summary(),
        });
    }
    // idempotence
    if let Ok(r2) = read(twice, "escape_once", T_ONCE2, &mut fs) {
        match r2 {
            None => unexpected_error("escape_once", T_ONCE2, twice, &mut fs),
            Some(r2) => {
                if r2 != r {
                    fs.push(Finding {
                        key: "escape_once:not-idempotent".into(),
                        what: format!("escape_once applied twice gives {} but once gives {}", show(&r2), show(&r)),
                        template: T_ONCE2,
                        expected: json!(once.summary()),
                        observed: twice.summary(),
                    });
                }
            }
        }
    }
    fs
}

/// returns the findings and whether the decode cell was a malformed-percent one
fn check_url(x: &str, enc: &Out, encdec: &Out, dec: &Out) -> (Vec<Finding>, bool) {
    let mut fs = Vec::new();
    // url_encode
    if let Ok(r) = read(enc, "url_encode", T_ENC, &mut fs) {
        match r {
            None => unexpected_error("url_encode", T_ENC, enc, &mut fs),
            Some(r) => {
                let b = r.as_bytes();
                let mut i = 0;
                let mut bad: Option<char> = None;
                while i < b.len() {
                    if b[i].is_ascii_alphanumeric() || matches!(b[i], b'-' | b'.' | b'_') {
                        i += 1;
                    } else if b[i] == b'%' && b.get(i + 1).copied().and_then(hexval).is_some() && b.get(i + 2).copied().and_then(hexval).is_some() {
                        i += 3;
                    } else {
                        bad = r[i..].chars().next().or(Some('\u{fffd}'));
                        break;
                    }
                }
                if let Some(c) = bad {
                    fs.push(Finding {
                        key: "url_encode:forbidden-char".into(),
                        what: format!("url_encode emitted {c:?}, which is neither a letter, a digit, '-', '.', '_' nor a percent-escape"),
                        template: T_ENC,
                        expected: json!("only [A-Za-z0-9._-] and %XX"),
                        observed: enc.summary(),
                    });
                } else if let Err(e) = check_encoding(x, &r) {
                    fs.push(Finding {
                        key: "url_encode:differs-from-reference".into(),
                        what: format!("url_encode output is not the percent-encoding of the input: {e}"),
                        template: T_ENC,
                        expected: json!("alphanumerics literal, '-' '.' '_' literal or escaped, every other byte as %XX"),
                        observed: enc.summary(),
                    });
                }
            }
        }
    }
    // url_decode inverts url_encode
    if let Ok(r) = read(encdec, "url_encode|url_decode", T_ENCDEC, &mut fs) {
        if r.as_deref() != Some(x) {
            fs.push(Finding {
                key: "url:roundtrip".into(),
                what: format!("url_decode of url_encode gave {} instead of the input", show(&encdec.summary())),
                template: T_ENCDEC,
                expected: json!(format!("ok:{}", RVal::Str(x.to_string()).dump())),
                observed: encdec.summary(),
            });
        }
    }
    // url_decode on arbitrary text
    let (bytes, malformed) = ref_url_decode(x);
    let expected = String::from_utf8(bytes).ok();
    if let Ok(r) = read(dec, "url_decode", T_DEC, &mut fs) {
        let exp_json = match &expected {
            Some(s) => json!(format!("ok:{}", RVal::Str(s.clone()).dump())),
            None => json!("err"),
        };
        match (&r, &expected) {
            (Some(r), Some(e)) if r == e => {}
            (None, None) => {}
            (None, Some(_)) if malformed => {} // outside "has been encoded": an error is acceptable as well
            (None, Some(_)) => fs.push(Finding {
                key: "url_decode:unexpected-error".into(),
                what: "url_decode failed although the decoded bytes are valid UTF-8".into(),
                template: T_DEC,
                expected: exp_json,
                observed: dec.summary(),
            }),
            (Some(_), None) => fs.push(Finding {
                key: "url_decode:accepts-invalid-utf8".into(),
                what: "url_decode returned a string although the decoded bytes are not valid UTF-8".into(),
                template: T_DEC,
                expected: exp_json,
                observed: dec.summary(),
            }),
            (Some(r), Some(_)) => fs.push(Finding {
                key: "url_decode:differs-from-reference".into(),
                what: format!("url_decode gave {} which differs from the reference decoder", show(r)),
                template: T_DEC,
                expected: exp_json,
                observed: dec.summary(),
            }),
        }
    }
    (fs, malformed)
}

fn is_subsequence(small: &str, big: &str) -> bool {
    let mut it = big.chars();
    small.chars().all(|c| it.by_ref().any(|d| d == c))
}

fn check_strip(x: &str, out: &Out) -> Vec<Finding> {
    let mut fs = Vec::new();
    let Ok(r) = read(out, "strip_html", T_STRIP, &mut fs) else { return fs };
    let Some(r) = r else {
        unexpected_error("strip_html", T_STRIP, out, &mut fs);
        return fs;
    };
    if let Some(i) = r.find('<') {
        if r[i..].contains('>') {
            fs.push(Finding {
                key: "strip_html:tag-survives".into(),
                what: "strip_html output still contains a complete <...> tag".into(),
                template: T_STRIP,
                expected: json!("no '<' followed later by '>'"),
                observed: out.summary(),
            });
        }
    }
    if (!x.contains('<') && r != x) || !is_subsequence(&r, x) {
        fs.push(Finding {
            key: "strip_html:alters-text".into(),
            what: "strip_html did something other than removing text (output is not a subsequence of the input, or tag-free input changed)".into(),
            template: T_STRIP,
            expected: json!("a subsequence of the input; the input itself when it has no '<'"),
            observed: out.summary(),
        });
    }
    fs
}

// ---------------------------------------------------------------------------------------------
// execution
// ---------------------------------------------------------------------------------------------

struct Env {
    parser: Parser,
    esc: Template,
    once: Template,
    once2: Template,
    enc: Template,
    encdec: Template,
    dec: Template,
    strip: Template,
    strip_arr: Template,
}

impl Env {
    fn new() -> Env {
        let p = parser(Config::Stdlib);
        let t = |s: &str| p.parse(s).expect("c16 template");
        Env {
            esc: t(T_ESCAPE),
            once: t(T_ONCE),
            once2: t(T_ONCE2),
            enc: t(T_ENC),
            encdec: t(T_ENCDEC),
            dec: t(T_DEC),
            strip: t(T_STRIP),
            strip_arr: t(T_STRIP_ARR),
            parser: p,
        }
    }
}

fn data(x: &str) -> Object {
    let mut o = Object::new();
    o.insert("x".into(), liquid::model::Value::scalar(x.to_string()));
    o
}

/// renders of one group for input x, and the findings
fn evaluate(env: &Env, g: Group, x: &str) -> (Vec<Out>, Vec<Finding>, bool) {
    let d = data(x);
    match g {
        Group::Escape => {
            let o = render(&env.esc, &d);
            let f = check_escape(x, &o);
            (vec![o], f, false)
        }
        Group::EscapeOnce => {
            let a = render(&env.once, &d);
            let b = render(&env.once2, &d);
            let f = check_escape_once(x, &a, &b);
            (vec![a, b], f, false)
        }
        Group::Url => {
            let a = render(&env.enc, &d);
            let b = render(&env.encdec, &d);
            let c = render(&env.dec, &d);
            let (f, m) = check_url(x, &a, &b, &c);
            (vec![a, b, c], f, m)
        }
        Group::StripHtml => {
            let o = render(&env.strip, &d);
            let mut f = check_strip(x, &o);
            let mut outs = vec![o];
            if x.contains('a') {
                let o2 = render(&env.strip_arr, &d);
                match &o2 {
                    Out::Ok(r) => {
                        if r.find('<').map_or(false, |i| r[i..].contains('>')) {
                            f.push(Finding {
                                key: "strip_html:tag-survives".into(),
                                what: "strip_html of an array input still prints a complete <...> tag".into(),
                                template: T_STRIP_ARR,
                                expected: json!("no '<' followed later by '>'"),
                                observed: o2.summary(),
                            });
                        }
                    }
                    Out::Err(_) => {}
                    Out::Panic(p) => f.push(Finding {
                        key: p.key(),
                        what: format!("strip_html of an array panicked at {}: {}", p.site(), p.msg),
                        template: T_STRIP_ARR,
                        expected: json!("no panic"),
                        observed: o2.summary(),
                    }),
                    Out::BadUtf8(_) => f.push(Finding {
                        key: "non-utf8-output".into(),
                        what: "strip_html of an array produced output that is not UTF-8".into(),
                        template: T_STRIP_ARR,
                        expected: json!("UTF-8"),
                        observed: o2.summary(),
                    }),
                }
                outs.push(o2);
            }
            (outs, f, false)
        }
    }
}

fn case(ctx: &mut Ctx, env: &Env, g: Group, x: &str, family: &'static str) {
    let h = hash_combine(hash_str(g.name()), hash_str(x));
    if !ctx.mine(h) {
        return;
    }
    if ctx.evaluations % 64 == 0 {
        ctx.set_progress(&json!({"kind":"filter-eval","group":g.name(),"data":{"$obj":[["x", x]]}}).to_string());
    }
    let (outs, findings, malformed) = evaluate(env, g, x);
    ctx.record(h, g.nontrivial(x));
    match g {
        Group::Escape => ctx.count("filter:escape"),
        Group::EscapeOnce => {
            ctx.add("filter:escape_once", 3);
            ctx.count("law:escape_once-idempotent");
        }
        Group::Url => {
            ctx.add("filter:url_encode", 2);
            ctx.add("filter:url_decode", 2);
            ctx.count("law:url-roundtrip");
            ctx.count(if malformed { "url_decode:malformed-percent-cell" } else { "url_decode:well-formed-cell" });
            ctx.count(match outs.get(2) {
                Some(Out::Err(_)) => "url_decode:error",
                _ => "url_decode:ok",
            });
        }
        Group::StripHtml => ctx.count("filter:strip_html"),
    }
    ctx.count(family);
    for o in &outs {
        ctx.count(match o {
            Out::Ok(_) => "outcome:ok",
            Out::Err(_) => "outcome:err",
            Out::Panic(_) => "outcome:panic",
            Out::BadUtf8(_) => "outcome:bad-utf8",
        });
    }
    for f in findings {
        ctx.violation(&f.key, &f.what, || {
            json!({"kind":"filter-eval","group":g.name(),"template":f.template,"data":{"$obj":[["x", x]]},
                   "expected":f.expected,"observed":f.observed,"family":family})
        });
    }
    ctx.sample(|| {
        json!({"family":family,"group":g.name(),"x":x,
               "observed":outs.iter().map(|o| o.summary().chars().take(100).collect::<String>()).collect::<Vec<_>>()})
    });
}

/// all strings of length <= maxlen over `alpha`, by counting in base |alpha|, without materialising them
fn for_each_string(alpha: &[char], maxlen: usize, mut f: impl FnMut(&str)) {
    let mut s = String::new();
    for len in 0..=maxlen {
        let total = alpha.len().pow(len as u32);
        for mut k in 0..total {
            s.clear();
            for _ in 0..len {
                s.push(alpha[k % alpha.len()]);
                k /= alpha.len();
            }
            f(&s);
        }
    }
}

fn for_each_token_seq(tokens: &[&str], maxlen: usize, mut f: impl FnMut(&str)) {
    let mut s = String::new();
    for len in 1..=maxlen {
        let total = tokens.len().pow(len as u32);
        for mut k in 0..total {
            s.clear();
            for _ in 0..len {
                s.push_str(tokens[k % tokens.len()]);
                k /= tokens.len();
            }
            f(&s);
        }
    }
}

pub fn run(ctx: &mut Ctx) {
    ctx.start_watchdog(120);
    let env = Env::new();
    let html_len = ctx.scale(4, 5);
    let tag_len = ctx.scale(5, 6);
    let tok_len = ctx.scale(3, 4);
    ctx.extra.insert("exhaustive".into(), json!({"html_maxlen":html_len,"url_maxlen":4,"strip_html_maxlen":tag_len,"entity_token_maxlen":tok_len}));
    for_each_string(&HTML_ALPHA, html_len, |s| {
        case(ctx, &env, Group::Escape, s, "family:exhaustive-html-alphabet");
        case(ctx, &env, Group::EscapeOnce, s, "family:exhaustive-html-alphabet");
    });
    for_each_token_seq(&ENTITY_TOKENS, tok_len, |s| {
        case(ctx, &env, Group::Escape, s, "family:exhaustive-entity-tokens");
        case(ctx, &env, Group::EscapeOnce, s, "family:exhaustive-entity-tokens");
    });
    for_each_string(&URL_ALPHA, 4, |s| {
        case(ctx, &env, Group::Url, s, "family:exhaustive-url-alphabet");
    });
    for_each_string(&TAG_ALPHA, tag_len, |s| {
        case(ctx, &env, Group::StripHtml, s, "family:exhaustive-tag-alphabet");
    });
    // tags with (balanced and unbalanced) quotes, attribute syntax and line breaks inside
    for_each_string(&['<', '>', '"', '\'', 'a', '=', ' ', '\n'], tag_len + 1, |s| {
        case(ctx, &env, Group::StripHtml, s, "family:exhaustive-quoted-tag-alphabet");
    });
    let n = ctx.scale(50_000u64, 1_000_000u64);
    let rng = ctx.rng("c16-random");
    for i in 0..n {
        let mut r = rng.fork(i);
        let maxlen = if r.chance(1, 2) { 24 } else { 200 };
        let x = rand_text(&mut r, maxlen, RANDOM_TOKENS);
        for g in [Group::Escape, Group::EscapeOnce, Group::Url, Group::StripHtml] {
            case(ctx, &env, g, &x, "family:random");
        }
    }
}

pub fn replay(j: &Json) -> bool {
    let env = Env::new();
    let _ = &env.parser;
    let d = RVal::from_json(&j["data"]);
    let x = match &d {
        RVal::Object(kv) => kv.iter().find(|(k, _)| k == "x").and_then(|(_, v)| if let RVal::Str(s) = v { Some(s.clone()) } else { None }),
        _ => None,
    };
    let (Some(x), Some(g)) = (x, j["group"].as_str().and_then(Group::from_name)) else {
        println!("replay file lacks a string x or a known group");
        return false;
    };
    println!("group={} x={:?}", g.name(), x);
    println!("recorded : template {} expected {} observed {}", j["template"], j["expected"], j["observed"]);
    let (outs, findings, malformed) = evaluate(&env, g, &x);
    let names: &[&str] = match g {
        Group::Escape => &[T_ESCAPE],
        Group::EscapeOnce => &[T_ONCE, T_ONCE2],
        Group::Url => &[T_ENC, T_ENCDEC, T_DEC],
        Group::StripHtml => &[T_STRIP, T_STRIP_ARR],
    };
    for (t, o) in names.iter().zip(&outs) {
        println!("observed now : {t} -> {}", o.summary());
    }
    match g {
        Group::Escape => println!("reference    : output must un-escape to the input and contain no bare special"),
        Group::EscapeOnce => {
            println!("reference    : {:?} (five entities) | {:?} (any entity)", ref_escape_once(&x, false), ref_escape_once(&x, true))
        }
        Group::Url => {
            let (b, _) = ref_url_decode(&x);
            match String::from_utf8(b) {
                Ok(s) => println!("reference    : url_decode -> {:?}{}", s, if malformed { " (or an error: malformed %)" } else { "" }),
                Err(_) => println!("reference    : url_decode -> error (decoded bytes are not UTF-8)"),
            }
        }
        Group::StripHtml => println!("reference    : no '<' followed later by '>'; only removals"),
    }
    for f in &findings {
        println!("VIOLATION {}: {}", f.key, f.what);
    }
    !findings.is_empty()
}

#[cfg(test)]
mod tests {
    use super::*;

    fn ok(s: &str) -> Out {
        Out::Ok(RVal::Str(s.to_string()).dump())
    }
    fn keys(f: &[Finding]) -> Vec<&str> {
        f.iter().map(|f| f.key.as_str()).collect()
    }

    /// the monitors accept correct behaviour and reject the defects they are named after
    #[test]
    fn oracle_self_test() {
        assert!(check_escape("a<&'\">", &ok("a&lt;&amp;&#39;&quot;&gt;")).is_empty());
        assert_eq!(keys(&check_escape("<", &ok("<"))), ["escape:bare-special"]);
        assert_eq!(keys(&check_escape("a&b", &ok("a&b"))), ["escape:bare-special"]);
        assert_eq!(keys(&check_escape("a&b", &ok("a&amp;amp;b"))), ["escape:not-invertible"]);
        assert!(check_escape_once("&lt;<&copy;", &ok("&lt;&lt;&amp;copy;"), &ok("&lt;&lt;&amp;copy;")).is_empty());
        assert!(check_escape_once("&lt;<&copy;", &ok("&lt;&lt;&copy;"), &ok("&lt;&lt;&copy;")).is_empty());
        assert!(keys(&check_escape_once("&lt;", &ok("&amp;lt;"), &ok("&amp;lt;"))).contains(&"escape_once:changes-meaning"));
        assert_eq!(keys(&check_escape_once("&", &ok("&amp;"), &ok("&amp;amp;"))), ["escape_once:not-idempotent"]);
        assert!(keys(&check_escape_once("&amp", &ok("&amp"), &ok("&amp"))).contains(&"escape_once:bare-special"));
        let x = "a b/é";
        assert!(check_url(x, &ok("a%20b%2F%C3%A9"), &ok(x), &ok(x)).0.is_empty());
        assert_eq!(keys(&check_url(x, &ok("a+b%2F%C3%A9"), &ok(x), &ok(x)).0), ["url_encode:forbidden-char"]);
        assert_eq!(keys(&check_url(x, &ok("a%20b%2F%C3%A8"), &ok(x), &ok(x)).0), ["url_encode:differs-from-reference"]);
        assert_eq!(keys(&check_url(x, &ok("a%20b%2F%C3%A9"), &ok("a b/e"), &ok(x)).0), ["url:roundtrip"]);
        assert_eq!(keys(&check_url("%FF", &ok("%25FF"), &ok("%FF"), &ok("\u{fffd}")).0), ["url_decode:accepts-invalid-utf8"]);
        assert!(check_url("%FF", &ok("%25FF"), &ok("%FF"), &Out::Err("e".into())).0.is_empty());
        assert_eq!(keys(&check_url("%C3%A9+", &ok("%25C3%25A9%2B"), &ok("%C3%A9+"), &ok("é+")).0), ["url_decode:differs-from-reference"]);
        assert!(check_url("%C3%A9+%2", &ok("%25C3%25A9%2B%252"), &ok("%C3%A9+%2"), &ok("é %2")).0.is_empty());
        assert_eq!(keys(&check_url("a", &ok("a"), &ok("a"), &Out::Err("e".into())).0), ["url_decode:unexpected-error"]);
        assert!(check_strip("a<b>c< d", &ok("ac< d")).is_empty());
        assert_eq!(keys(&check_strip("<<a>>", &ok("<a>"))), ["strip_html:tag-survives"]);
        assert_eq!(keys(&check_strip("a > b", &ok("a  b"))), ["strip_html:alters-text"]);
    }

    #[test]
    fn enumeration_sizes() {
        let mut n = 0;
        for_each_string(&URL_ALPHA, 4, |_| n += 1);
        assert_eq!(n, 1 + 9 + 81 + 729 + 6561);
        let mut seen = std::collections::HashSet::new();
        for_each_string(&TAG_ALPHA, 3, |s| {
            seen.insert(s.to_string());
        });
        assert_eq!(seen.len(), 1 + 12 + 144 + 1728);
    }
}
