//! C14 — array filters neither invent nor lose elements beyond their contract.
//!
//! non-trivial rule: the input array has at least 2 elements (order/duplicates can matter).
use crate::cfg::{parser, Config};
use crate::ctx::Ctx;
use crate::exec::{render, Out};
use crate::rng::{hash_combine, hash_str, Rng};
use crate::val::{arr, obj, s, RVal};
use liquid::{Object, Template};
use serde_json::json;

/// split the strict dump of an array into the dumps of its elements
pub fn split_array_dump(d: &str) -> Option<Vec<String>> {
    let inner = d.strip_prefix('[')?.strip_suffix(']')?;
    let mut out = Vec::new();
    let (mut depth, mut in_str, mut esc) = (0i32, false, false);
    let mut cur = String::new();
    for ch in inner.chars() {
        if in_str {
            cur.push(ch);
            if esc {
                esc = false;
            } else if ch == '\\' {
                esc = true;
            } else if ch == '"' {
                in_str = false;
            }
            continue;
        }
        match ch {
            '"' => {
                in_str = true;
                cur.push(ch);
            }
            '[' | '{' => {
                depth += 1;
                cur.push(ch);
            }
            ']' | '}' => {
                depth -= 1;
                cur.push(ch);
            }
            ',' if depth == 0 => {
                out.push(std::mem::take(&mut cur));
            }
            _ => cur.push(ch),
        }
    }
    if !cur.is_empty() || !inner.is_empty() {
        out.push(cur);
    }
    Some(out)
}

fn num(v: &RVal) -> Option<f64> {
    match v {
        RVal::Int(i) => Some(*i as f64),
        RVal::Float(f) => Some(*f),
        _ => None,
    }
}

/// reference ordering on the unambiguous cells: numbers numerically, strings lexicographically
fn ref_cmp(a: &RVal, b: &RVal) -> Option<std::cmp::Ordering> {
    match (a, b) {
        (RVal::Str(x), RVal::Str(y)) => Some(x.cmp(y)),
        _ => match (num(a), num(b)) {
            (Some(x), Some(y)) => x.partial_cmp(&y),
            _ => None,
        },
    }
}

/// reference equality on the unambiguous cells (C06-L2); None = not claimed
fn ref_eq(a: &RVal, b: &RVal) -> Option<bool> {
    match (a, b) {
        (RVal::Nil, RVal::Nil) => Some(true),
        (RVal::Str(x), RVal::Str(y)) => Some(x == y),
        (RVal::Nil, RVal::Str(_) | RVal::Int(_) | RVal::Float(_)) | (RVal::Str(_) | RVal::Int(_) | RVal::Float(_), RVal::Nil) => Some(false),
        (RVal::Str(_), RVal::Int(_) | RVal::Float(_)) | (RVal::Int(_) | RVal::Float(_), RVal::Str(_)) => Some(false),
        _ => match (num(a), num(b)) {
            (Some(x), Some(y)) => Some(x == y),
            _ => {
                if a.dump() == b.dump() && !a.dump().contains("7ff8") {
                    Some(true)
                } else {
                    None
                }
            }
        },
    }
}

fn mutually_comparable(xs: &[RVal]) -> bool {
    let non_nil: Vec<&RVal> = xs.iter().filter(|v| !v.is_nil()).collect();
    non_nil.iter().all(|a| non_nil.iter().all(|b| ref_cmp(a, b).is_some()))
}

/// stable sort, nils last
fn ref_sort(xs: &[RVal]) -> Vec<RVal> {
    let mut v: Vec<RVal> = xs.to_vec();
    v.sort_by(|a, b| match (a.is_nil(), b.is_nil()) {
        (true, true) => std::cmp::Ordering::Equal,
        (true, false) => std::cmp::Ordering::Greater,
        (false, true) => std::cmp::Ordering::Less,
        _ => ref_cmp(a, b).unwrap_or(std::cmp::Ordering::Equal),
    });
    v
}

fn render_scalar(v: &RVal) -> String {
    match v {
        RVal::Nil => String::new(),
        RVal::Int(i) => i.to_string(),
        RVal::Float(f) => format!("{f}"),
        RVal::Str(s) => s.clone(),
        RVal::Bool(b) => b.to_string(),
        _ => "?".into(),
    }
}

struct T {
    sort: Template,
    sort2: Template,
    sort_natural: Template,
    reverse: Template,
    uniq: Template,
    compact: Template,
    concat: Template,
    first: Template,
    last: Template,
    size: Template,
    slice: Template,
    join: Template,
    map: Template,
    where1: Template,
    where2: Template,
    sortp: Template,
    compactp: Template,
    ident: Template,
}

fn templates() -> T {
    let p = parser(Config::Stdlib);
    let t = |s: &str| p.parse(s).expect("c14 template");
    T {
        sort: t("{{ x | sort | vdump }}"),
        sort2: t("{{ x | sort | sort | vdump }}"),
        sort_natural: t("{{ x | sort_natural | vdump }}"),
        reverse: t("{{ x | reverse | vdump }}"),
        uniq: t("{{ x | uniq | vdump }}"),
        compact: t("{{ x | compact | vdump }}"),
        concat: t("{{ x | concat: y | vdump }}"),
        first: t("{{ x | first | vdump }}"),
        last: t("{{ x | last | vdump }}"),
        size: t("{{ x | size | vdump }}"),
        slice: t("{{ x | slice: o, l | vdump }}"),
        join: t("{{ x | join: ',' | vdump }}"),
        map: t("{{ x | map: p | vdump }}"),
        where1: t("{{ x | where: p | vdump }}"),
        where2: t("{{ x | where: p, t | vdump }}"),
        sortp: t("{{ x | sort: p | vdump }}"),
        compactp: t("{{ x | compact: p | vdump }}"),
        ident: t("{{ x | vdump }}"),
    }
}

struct Run<'a> {
    ctx: &'a mut Ctx,
    t: &'a T,
}

impl Run<'_> {
    fn eval(&mut self, name: &str, t: &Template, o: &Object, replay: &dyn Fn() -> serde_json::Value) -> Option<String> {
        self.ctx.count(&format!("filter:{name}"));
        match render(t, o) {
            Out::Ok(s) => Some(s),
            Out::Err(e) => {
                self.ctx.count(&format!("filter:{name}:error"));
                let _ = e;
                None
            }
            Out::Panic(p) => {
                let r = replay();
                self.ctx.violation(&format!("{name}:{}", p.key()), &format!("{name} panicked at {}: {}", p.site(), p.msg), move || r);
                None
            }
            Out::BadUtf8(_) => None,
        }
    }
    fn fail(&mut self, key: &str, what: String, replay: &dyn Fn() -> serde_json::Value) {
        let r = replay();
        self.ctx.violation(key, &what, move || r);
    }
}

fn multiset(xs: &[String]) -> Vec<String> {
    let mut v = xs.to_vec();
    v.sort();
    v
}

fn check_scalar_array(r: &mut Run<'_>, xs: &[RVal], family: &str) {
    let x = arr(xs.to_vec());
    let mut o = Object::new();
    o.insert("x".into(), x.to_liquid());
    let xd = x.dump();
    let in_elems: Vec<String> = xs.iter().map(|v| v.dump()).collect();
    let replay_x = x.clone();
    let fam = family.to_string();
    let replay = move || json!({"kind": "array-filter", "x": replay_x.to_json(), "family": fam});
    let h = hash_str(&xd);
    let t = r.t;
    // sanity: the dump plugin shows the input unchanged
    if let Some(d) = r.eval("identity", &t.ident, &o, &replay) {
        if d != xd {
            r.ctx.inconclusive.push(format!("harness: dump of input {xd} reads {d}"));
            return;
        }
    }
    let comparable = mutually_comparable(xs);
    // sort
    match r.eval("sort", &t.sort, &o, &replay) {
        Some(d) => match split_array_dump(&d) {
            Some(el) => {
                if multiset(&el) != multiset(&in_elems) {
                    r.fail("sort:not-a-permutation", format!("{xd} | sort = {d}"), &replay);
                } else if comparable {
                    let want = arr(ref_sort(xs)).dump();
                    if d != want {
                        r.fail("sort:differs-from-stable-sort-nil-last", format!("{xd} | sort = {d}, stable sort with nils last = {want}"), &replay);
                    }
                    r.ctx.count("sort:compared-with-reference");
                    if let Some(d2) = r.eval("sort", &t.sort2, &o, &replay) {
                        if d2 != d {
                            r.fail("sort:not-idempotent", format!("{xd} | sort = {d} but | sort | sort = {d2}"), &replay);
                        }
                    }
                } else {
                    r.ctx.count("sort:mixed-permutation-only");
                }
            }
            None => r.fail("sort:not-an-array", format!("{xd} | sort = {d}"), &replay),
        },
        None => {
            // "none of them fails ... because of the array's length or initial order"
            r.fail("sort:fails-on-array", format!("{xd} | sort returned an error"), &replay);
        }
    }
    // sort_natural, reverse: permutations
    for (name, tpl) in [("sort_natural", &t.sort_natural), ("reverse", &t.reverse)] {
        match r.eval(name, tpl, &o, &replay) {
            Some(d) => match split_array_dump(&d) {
                Some(el) => {
                    if multiset(&el) != multiset(&in_elems) {
                        r.fail(&format!("{name}:not-a-permutation"), format!("{xd} | {name} = {d}"), &replay);
                    }
                    if name == "reverse" {
                        let want: Vec<String> = in_elems.iter().rev().cloned().collect();
                        if el != want {
                            r.fail("reverse:wrong-order", format!("{xd} | reverse = {d}"), &replay);
                        }
                    }
                }
                None => r.fail(&format!("{name}:not-an-array"), format!("{xd} | {name} = {d}"), &replay),
            },
            None => r.fail(&format!("{name}:fails-on-array"), format!("{xd} | {name} returned an error"), &replay),
        }
    }
    // uniq: drops exactly the elements equal to an earlier kept one (on the claimed cells)
    if let Some(d) = r.eval("uniq", &t.uniq, &o, &replay) {
        let mut kept: Vec<RVal> = Vec::new();
        let mut claimed = true;
        for v in xs {
            let mut dup = false;
            for k in &kept {
                match ref_eq(k, v) {
                    Some(true) => {
                        dup = true;
                        break;
                    }
                    Some(false) => {}
                    None => claimed = false,
                }
            }
            if !dup {
                kept.push(v.clone());
            }
        }
        if claimed {
            let want = arr(kept).dump();
            if d != want {
                r.fail("uniq:differs-from-reference", format!("{xd} | uniq = {d}, reference = {want}"), &replay);
            }
            r.ctx.count("uniq:compared-with-reference");
        } else if !xd.contains("7ff8") {
            // cells the statements leave to the value model (booleans vs other kinds, composites):
            // the *algorithm* is still fixed — keep an element iff it equals no earlier KEPT one —
            // with equality consulted from the value model through the Rust API (layer 1)
            let vals: Vec<liquid::model::Value> = xs.iter().map(|v| v.to_liquid()).collect();
            let mut kept_idx: Vec<usize> = Vec::new();
            for i in 0..vals.len() {
                if !kept_idx.iter().any(|&k| liquid::model::ValueViewCmp::new(&vals[k]) == liquid::model::ValueViewCmp::new(&vals[i])) {
                    kept_idx.push(i);
                }
            }
            let want = arr(kept_idx.iter().map(|&i| xs[i].clone()).collect()).dump();
            if d != want {
                r.fail("uniq:differs-from-first-kept-dedup", format!("{xd} | uniq = {d}, first-occurrence dedup against the kept elements (value-model equality) = {want}"), &replay);
            }
            r.ctx.count("uniq:compared-with-value-model-dedup");
        }
    } else {
        r.fail("uniq:fails-on-array", format!("{xd} | uniq returned an error"), &replay);
    }
    // compact: removes exactly the nils
    if let Some(d) = r.eval("compact", &t.compact, &o, &replay) {
        let want = arr(xs.iter().filter(|v| !v.is_nil()).cloned().collect()).dump();
        if d != want {
            r.fail("compact:differs-from-reference", format!("{xd} | compact = {d}, reference = {want}"), &replay);
        }
    } else {
        r.fail("compact:fails-on-array", format!("{xd} | compact returned an error"), &replay);
    }
    // first / last / size / join agree with indexing
    if let Some(d) = r.eval("size", &t.size, &o, &replay) {
        if d != format!("i:{}", xs.len()) {
            r.fail("size:wrong", format!("{xd} | size = {d}"), &replay);
        }
    }
    if !xs.is_empty() {
        if let Some(d) = r.eval("first", &t.first, &o, &replay) {
            if d != xs[0].dump() {
                r.fail("first:wrong", format!("{xd} | first = {d}"), &replay);
            }
        }
        if let Some(d) = r.eval("last", &t.last, &o, &replay) {
            if d != xs[xs.len() - 1].dump() {
                r.fail("last:wrong", format!("{xd} | last = {d}"), &replay);
            }
        }
    } else {
        // [] | first: nil or an error are both defensible
        r.eval("first", &t.first, &o, &replay);
        r.eval("last", &t.last, &o, &replay);
    }
    if xs.iter().all(|v| matches!(v, RVal::Nil | RVal::Int(_) | RVal::Float(_) | RVal::Str(_))) {
        if let Some(d) = r.eval("join", &t.join, &o, &replay) {
            let want = RVal::Str(xs.iter().map(render_scalar).collect::<Vec<_>>().join(",")).dump();
            if d != want {
                r.fail("join:wrong", format!("{xd} | join: ',' = {d}, reference = {want}"), &replay);
            }
        }
    }
    r.ctx.record(h, xs.len() >= 2);
    r.ctx.count(&format!("family:{family}"));
    let n = xs.len();
    r.ctx.sample(|| json!({"family": family, "x": xd, "len": n}));
}

fn check_slice_concat(r: &mut Run<'_>, xs: &[RVal], ys: &[RVal]) {
    let x = arr(xs.to_vec());
    let y = arr(ys.to_vec());
    let xd = x.dump();
    let t = r.t;
    let n = xs.len() as i64;
    let (rx, ry) = (x.clone(), y.clone());
    let replay = move || json!({"kind": "array-filter", "x": rx.to_json(), "y": ry.to_json(), "family": "slice-concat"});
    let mut o = Object::new();
    o.insert("x".into(), x.to_liquid());
    o.insert("y".into(), y.to_liquid());
    if let Some(d) = r.eval("concat", &t.concat, &o, &replay) {
        let want = arr(xs.iter().chain(ys.iter()).cloned().collect()).dump();
        if d != want {
            r.fail("concat:wrong", format!("{xd} | concat: {} = {d}", y.dump()), &replay);
        }
    } else {
        r.fail("concat:fails-on-array", format!("{xd} | concat: {} returned an error", y.dump()), &replay);
    }
    for off in -(n + 2)..=(n + 1) {
        for len in [-1i64, 0, 1, 2, n, n + 1] {
            o.insert("o".into(), liquid::model::Value::scalar(off));
            o.insert("l".into(), liquid::model::Value::scalar(len));
            let rp = {
                let x = x.clone();
                move || json!({"kind": "array-filter", "x": x.to_json(), "o": off, "l": len, "family": "slice"})
            };
            if let Some(d) = r.eval("slice", &t.slice, &o, &rp) {
                let el = match split_array_dump(&d) {
                    Some(e) => e,
                    None => {
                        r.fail("slice:not-an-array", format!("{xd} | slice: {off}, {len} = {d}"), &rp);
                        continue;
                    }
                };
                let in_elems: Vec<String> = xs.iter().map(|v| v.dump()).collect();
                // law: contiguous piece of at most the requested length
                let contiguous = el.is_empty() || in_elems.windows(el.len()).any(|w| w == el.as_slice());
                if !contiguous || (el.len() as i64) > len.max(0) {
                    r.fail("slice:not-a-contiguous-piece-of-requested-length", format!("{xd} | slice: {off}, {len} = {d}"), &rp);
                }
                // exact on in-range offsets
                let start = if off >= 0 { off } else { n + off };
                if (0..n).contains(&start) && (off >= 0 || off >= -n) {
                    let end = (start + len.max(0)).min(n);
                    let want: Vec<String> = in_elems[start as usize..end.max(start) as usize].to_vec();
                    if el != want {
                        r.fail("slice:wrong-elements", format!("{xd} | slice: {off}, {len} = {d}, indexing gives [{}]", want.join(",")), &rp);
                    }
                    r.ctx.count("slice:compared-with-indexing");
                }
            }
            r.ctx.record(hash_combine(hash_str(&xd), (off * 100 + len + 5000) as u64), xs.len() >= 2);
        }
    }
}

fn objects_pool() -> Vec<RVal> {
    vec![
        obj(vec![("p", RVal::Int(1))]),
        obj(vec![("p", RVal::Int(2))]),
        obj(vec![("p", RVal::Float(1.0)), ("q", s("x"))]),
        obj(vec![("p", s("a")), ("q", RVal::Int(1))]),
        obj(vec![("p", RVal::Nil)]),
        obj(vec![("p", RVal::Bool(false))]),
        obj(vec![("q", RVal::Int(1))]),
        obj(vec![]),
    ]
}

fn prop_of<'a>(o: &'a RVal, p: &str) -> Option<&'a RVal> {
    match o {
        RVal::Object(kv) => kv.iter().find(|(k, _)| k == p).map(|(_, v)| v),
        _ => None,
    }
}

fn check_object_array(r: &mut Run<'_>, xs: &[RVal]) {
    let x = arr(xs.to_vec());
    let xd = x.dump();
    let t = r.t;
    for p in ["p", "q", "zz"] {
        let mut o = Object::new();
        o.insert("x".into(), x.to_liquid());
        o.insert("p".into(), liquid::model::Value::scalar(p));
        let rp = {
            let x = x.clone();
            move || json!({"kind": "array-filter", "x": x.to_json(), "p": p, "family": "objects"})
        };
        // map: in order, exactly the properties of the objects that have the property.
        if let Some(d) = r.eval("map", &t.map, &o, &rp) {
            // an object whose property is present but nil HAS the property: its (nil) entry stays
            let strict: Vec<String> = xs.iter().filter_map(|v| prop_of(v, p)).map(|v| v.dump()).collect();
            let el = split_array_dump(&d).unwrap_or_default();
            if el != strict {
                r.fail("map:wrong", format!("{xd} | map: '{p}' = {d}, reference = [{}]", strict.join(",")), &rp);
            }
        } else {
            r.fail("map:fails-on-array", format!("{xd} | map: '{p}' returned an error"), &rp);
        }
        // where without target: objects whose property is truthy (present, not nil, not false)
        if let Some(d) = r.eval("where", &t.where1, &o, &rp) {
            let want: Vec<String> = xs
                .iter()
                .filter(|v| matches!(prop_of(v, p), Some(pv) if !pv.is_nil() && !matches!(pv, RVal::Bool(false))))
                .map(|v| v.dump())
                .collect();
            let el = split_array_dump(&d).unwrap_or_default();
            if el != want {
                r.fail("where:wrong", format!("{xd} | where: '{p}' = {d}, reference = [{}]", want.join(",")), &rp);
            }
        } else {
            r.fail("where:fails-on-array", format!("{xd} | where: '{p}' returned an error"), &rp);
        }
        // where with a boolean / nil target: membership = the object HAS the property and the
        // value model (consulted through the Rust API, C06 layer 1) says it equals the target
        for target in [RVal::Bool(false), RVal::Nil, RVal::Bool(true)] {
            o.insert("t".into(), target.to_liquid());
            if let Some(d) = r.eval("where-target", &t.where2, &o, &rp) {
                let tv = target.to_liquid();
                let want: Vec<String> = xs
                    .iter()
                    .filter(|v| match prop_of(v, p) {
                        Some(pv) => {
                            let pvl = pv.to_liquid();
                            liquid::model::ValueViewCmp::new(&pvl) == liquid::model::ValueViewCmp::new(&tv)
                        }
                        None => false,
                    })
                    .map(|v| v.dump())
                    .collect();
                let el = split_array_dump(&d).unwrap_or_default();
                if el != want {
                    r.fail("where:wrong-with-target", format!("{xd} | where: '{p}', {} = {d}, objects having the property equal to the target = [{}]", target.dump(), want.join(",")), &rp);
                }
            }
        }
        // where with target (only on cells where equality is claimed)
        for target in [RVal::Int(1), s("a"), RVal::Int(2)] {
            o.insert("t".into(), target.to_liquid());
            let claimed = xs.iter().all(|v| prop_of(v, p).map(|pv| ref_eq(pv, &target).is_some()).unwrap_or(true));
            if let Some(d) = r.eval("where-target", &t.where2, &o, &rp) {
                if claimed {
                    let want: Vec<String> = xs
                        .iter()
                        .filter(|v| prop_of(v, p).map(|pv| ref_eq(pv, &target) == Some(true)).unwrap_or(false))
                        .map(|v| v.dump())
                        .collect();
                    let el = split_array_dump(&d).unwrap_or_default();
                    if el != want {
                        r.fail("where:wrong-with-target", format!("{xd} | where: '{p}', {} = {d}, reference = [{}]", target.dump(), want.join(",")), &rp);
                    }
                }
            }
        }
        // sort by property: permutation; non-decreasing by property with nil/missing last when comparable
        match r.eval("sort-by-property", &t.sortp, &o, &rp) {
            Some(d) => {
                let el = split_array_dump(&d).unwrap_or_default();
                let in_elems: Vec<String> = xs.iter().map(|v| v.dump()).collect();
                if multiset(&el) != multiset(&in_elems) {
                    r.fail("sort:not-a-permutation", format!("{xd} | sort: '{p}' = {d}"), &rp);
                } else {
                    let props: Vec<RVal> = xs.iter().map(|v| prop_of(v, p).cloned().unwrap_or(RVal::Nil)).collect();
                    if mutually_comparable(&props) {
                        let mut idx: Vec<usize> = (0..xs.len()).collect();
                        idx.sort_by(|&a, &b| match (props[a].is_nil(), props[b].is_nil()) {
                            (true, true) => std::cmp::Ordering::Equal,
                            (true, false) => std::cmp::Ordering::Greater,
                            (false, true) => std::cmp::Ordering::Less,
                            _ => ref_cmp(&props[a], &props[b]).unwrap_or(std::cmp::Ordering::Equal),
                        });
                        let want: Vec<String> = idx.iter().map(|&i| in_elems[i].clone()).collect();
                        if el != want {
                            r.fail("sort:by-property-differs-from-stable-sort", format!("{xd} | sort: '{p}' = {d}, reference = [{}]", want.join(",")), &rp);
                        }
                    }
                }
            }
            None => r.fail("sort:fails-on-array", format!("{xd} | sort: '{p}' returned an error"), &rp),
        }
        // compact by property: removes exactly the objects whose property is nil or missing
        if let Some(d) = r.eval("compact-by-property", &t.compactp, &o, &rp) {
            let want: Vec<String> = xs.iter().filter(|v| matches!(prop_of(v, p), Some(pv) if !pv.is_nil())).map(|v| v.dump()).collect();
            let el = split_array_dump(&d).unwrap_or_default();
            if el != want {
                r.fail("compact:by-property-wrong", format!("{xd} | compact: '{p}' = {d}, reference = [{}]", want.join(",")), &rp);
            }
        }
    }
    r.ctx.record(hash_str(&format!("obj{xd}")), xs.len() >= 2);
    r.ctx.count("family:object-arrays");
}

fn enumerate<F: FnMut(&[RVal])>(pool: &[RVal], max_len: usize, mut f: F) {
    for len in 0..=max_len {
        let total = pool.len().pow(len as u32);
        let mut idx = vec![0usize; len];
        for _ in 0..total {
            let xs: Vec<RVal> = idx.iter().map(|&i| pool[i].clone()).collect();
            f(&xs);
            for k in (0..len).rev() {
                idx[k] += 1;
                if idx[k] < pool.len() {
                    break;
                }
                idx[k] = 0;
            }
        }
    }
}

fn random_array(rng: &mut Rng, len: usize, kind: usize) -> Vec<RVal> {
    let mut xs: Vec<RVal> = (0..len)
        .map(|_| match kind {
            0 => RVal::Int(rng.range(-5, 30)),
            1 => {
                if rng.chance(1, 3) {
                    RVal::Float(rng.range(-10, 60) as f64 / 2.0)
                } else {
                    RVal::Int(rng.range(-5, 30))
                }
            }
            2 => s(rng.choose(&["a", "B", "b", "A", "ab", "", "é", "z", "Z", "10", "9"])),
            3 => {
                if rng.chance(1, 5) {
                    RVal::Nil
                } else {
                    RVal::Int(rng.range(0, 9))
                }
            }
            _ => match rng.below(7) {
                0 => RVal::Nil,
                1 => s(rng.choose(&["a", "B", "10", "x"])),
                2 => RVal::Float(rng.range(0, 9) as f64 + 0.5),
                3 => RVal::Bool(rng.chance(1, 2)),
                4 => arr(vec![RVal::Int(rng.range(0, 3))]),
                5 => obj(vec![("k", RVal::Int(rng.range(0, 3)))]),
                _ => RVal::Int(rng.range(0, 9)),
            },
        })
        .collect();
    // initial orders: random, sorted, reversed, organ-pipe (sorted by a total order: the
    // reference order where it is defined, the dump text otherwise)
    let total_sorted = |xs: &[RVal]| -> Vec<RVal> {
        if mutually_comparable(xs) {
            ref_sort(xs)
        } else {
            let mut v = xs.to_vec();
            v.sort_by_key(|x| x.dump());
            v
        }
    };
    match rng.below(4) {
        0 => {}
        1 => xs = total_sorted(&xs),
        2 => {
            xs = total_sorted(&xs);
            xs.reverse();
        }
        _ => {
            let sorted = total_sorted(&xs);
            let mut a = Vec::new();
            let mut b = Vec::new();
            for (i, v) in sorted.into_iter().enumerate() {
                if i % 2 == 0 {
                    a.push(v)
                } else {
                    b.push(v)
                }
            }
            b.reverse();
            a.extend(b);
            xs = a;
        }
    }
    xs
}

pub fn run(ctx: &mut Ctx) {
    ctx.start_watchdog(120);
    let t = templates();
    let scalars = vec![RVal::Nil, RVal::Int(1), RVal::Float(1.0), RVal::Int(2), RVal::Float(1.5), s("a"), s("B"), s("b"), RVal::Bool(true)];
    let cases = vec![s("a"), s("A"), s("b"), s("B"), s("ab"), s("Ab")];
    let max_len = ctx.scale(4usize, 5usize);
    let mut r = Run { ctx, t: &t };
    enumerate(&scalars, max_len, |xs| {
        if r.ctx.mine(hash_str(&arr(xs.to_vec()).dump())) {
            check_scalar_array(&mut r, xs, "scalars-exhaustive");
        }
    });
    enumerate(&cases, max_len, |xs| {
        if r.ctx.mine(hash_str(&arr(xs.to_vec()).dump())) {
            check_scalar_array(&mut r, xs, "case-variants-exhaustive");
        }
    });
    let objs = objects_pool();
    let omax = r.ctx.scale(3usize, 4usize);
    enumerate(&objs, omax, |xs| {
        if r.ctx.mine(hash_str(&arr(xs.to_vec()).dump())) {
            check_object_array(&mut r, xs);
        }
    });
    // long arrays of objects with many ties in the property and a unique tag each: stability (and the
    // other by-property filters) on lengths where sort implementations switch algorithms
    {
        let n_long = r.ctx.scale(64u64, 640u64);
        let lrng = r.ctx.rng("c14-long-objects");
        for i in 0..n_long {
            if !r.ctx.mine_idx(i) {
                continue;
            }
            let mut g = lrng.fork(i);
            let len = 21 + g.below(70);
            let kinds = 2 + g.below(3) as i64;
            let xs: Vec<RVal> = (0..len)
                .map(|id| {
                    let mut kv = vec![("q".to_string(), RVal::Int(id as i64))];
                    // one element in eight lacks the property, one in eight has it nil
                    match g.below(8) {
                        0 => {}
                        1 => kv.push(("p".to_string(), RVal::Nil)),
                        _ => kv.push(("p".to_string(), RVal::Int(g.range(0, kinds)))),
                    }
                    RVal::Object(kv)
                })
                .collect();
            r.ctx.count("family:long-object-arrays");
            check_object_array(&mut r, &xs);
        }
    }
    // slice / concat on small arrays
    let small = vec![RVal::Nil, RVal::Int(1), s("a")];
    enumerate(&small, 4, |xs| {
        if r.ctx.mine(hash_str(&format!("sl{}", arr(xs.to_vec()).dump()))) {
            let ys: Vec<RVal> = xs.iter().rev().take(2).cloned().collect();
            check_slice_concat(&mut r, xs, &ys);
        }
    });
    // non-array inputs: nil is the empty sequence, any other scalar or an object a singleton
    // (the contract of the shared `as_sequence` helper named in the property's anchors)
    for (k, x) in [RVal::Bool(false), RVal::Bool(true), RVal::Int(0), s(""), s("a"), RVal::Float(1.5), obj(vec![("p", RVal::Int(1))]), RVal::Nil, RVal::Empty].iter().enumerate() {
        if !r.ctx.mine_idx(k as u64) {
            continue;
        }
        let mut o = Object::new();
        o.insert("x".into(), x.to_liquid());
        let rp = {
            let x = x.clone();
            move || json!({"kind": "array-filter", "x": x.to_json(), "family": "scalar-input"})
        };
        for (name, tpl) in [("sort", &t.sort), ("sort_natural", &t.sort_natural)] {
            if let Some(d) = r.eval(name, tpl, &o, &rp) {
                let want = match x {
                    RVal::Nil => "[]".to_string(),
                    // the empty/blank markers are query symbols: not claimed
                    RVal::Empty | RVal::Blank => d.clone(),
                    other => format!("[{}]", other.dump()),
                };
                if d != want {
                    r.fail(&format!("{name}:scalar-input-not-a-singleton"), format!("{} | {name} = {d}, expected {want}", x.dump()), &rp);
                }
            }
        }
        r.ctx.record(hash_str(&format!("scalar-input{}", x.dump())), true);
        r.ctx.count("family:scalar-input");
    }
    // random longer arrays, every initial order, homogeneous and mixed
    let n = r.ctx.scale(60_000u64, 1_000_000u64);
    let rng = r.ctx.rng("c14-random");
    for i in 0..n {
        if !r.ctx.mine_idx(i) {
            continue;
        }
        let mut g = rng.fork(i);
        let len = if g.chance(1, 2) { 21 + g.below(40) } else { g.below(22) };
        let kind = g.below(5);
        let xs = random_array(&mut g, len, kind);
        check_scalar_array(&mut r, &xs, &format!("random-kind{kind}"));
        if len > 20 {
            r.ctx.count("random:longer-than-20");
        }
    }
}

pub fn replay(j: &serde_json::Value) -> bool {
    let t = templates();
    let mut ctx = Ctx::new("C14", crate::ctx::Tier::Quick, 1, 0, 1, None);
    let x = RVal::from_json(&j["x"]);
    let xs = match &x {
        RVal::Array(v) => v.clone(),
        _ => vec![],
    };
    {
        let mut r = Run { ctx: &mut ctx, t: &t };
        match j["family"].as_str().unwrap_or("") {
            "objects" => check_object_array(&mut r, &xs),
            "slice" | "slice-concat" => {
                let ys: Vec<RVal> = xs.iter().rev().take(2).cloned().collect();
                check_slice_concat(&mut r, &xs, &ys)
            }
            f => check_scalar_array(&mut r, &xs, f),
        }
    }
    println!("x = {}", x.dump());
    for v in &ctx.violations {
        println!("VIOLATED {}: {}", v.key, v.what);
    }
    !ctx.violations.is_empty()
}
