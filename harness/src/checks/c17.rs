//! C17 — not built yet (stub).
use crate::ctx::Ctx;

pub fn run(_ctx: &mut Ctx) {}

pub fn replay(_j: &serde_json::Value) -> bool {
    false
}
