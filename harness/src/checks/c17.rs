//! C17 — dates. This module only RECORDS: formatting through `{{ ts | date: fmt }}`, print/parse round
//! trips of `DateTime`, and comparisons of date-times given in different offsets become events in the
//! worker's event log; the judging (independent calendar arithmetic + the documented strftime
//! semantics) is in `/verif/checkers/c17_dates.py`.
//!
//! Accepted input syntaxes of `DateTime::from_str` (crates/core/src/model/scalar/datetime.rs), all
//! exercised below; the offset ` +HHMM` / ` -HHMM` is optional everywhere (default +0000):
//!   0 default       `YYYY-MM-DD HH:MM:SS[.fraction] +HHMM`
//!   1 default-nooff `YYYY-MM-DD HH:MM:SS[.fraction]`
//!   2 day_month     `DD Month YYYY HH:MM:SS +HHMM`
//!   3 day_mon       `DD Mon YYYY HH:MM:SS +HHMM`
//!   4 mdy           `MM/DD/YYYY HH:MM:SS +HHMM`
//!   5 dow_mon       `Dow Mon D HH:MM:SS YYYY +HHMM`
//!   6 unix          decimal seconds since the epoch
//!   ("now" / "today" are accepted too but not deterministic, hence not recorded)
//!
//! Events
//!   {"ev":"fmt","ts":{y,mo,d,h,mi,s,ns,off_s},"via":"value|string","x":"<input text>","fmt":"…",
//!    "res":{"k":"ok|err|panic|unparsed|other","v":"…"}}
//!   {"ev":"rt","ts":{…},"rt":{"x","syntax","printed","reparsed","same_instant","same_offset",
//!    "ns0","ns1","off0","off1"}}            (printed = null when from_str rejected x)
//!   {"ev":"cmp","cmp":{"a","b","via":"Value|template","eq","lt","gt","le","ge","ne"[,"res"]}}
use crate::cfg::{parser, Config};
use crate::ctx::Ctx;
use crate::exec::{render, Out};
use crate::mon::guard;
use crate::rng::{hash_combine, hash_str, Rng};
use liquid::model::{DateTime, Value};
use liquid::{Object, Template};
use serde_json::{json, Value as Json};

#[derive(Clone, Copy, Debug, PartialEq, Eq)]
pub struct Ts {
    y: i64,
    mo: i64,
    d: i64,
    h: i64,
    mi: i64,
    s: i64,
    ns: i64,
    off: i64,
}

const MONTHS: [&str; 12] = [
    "January", "February", "March", "April", "May", "June", "July", "August", "September", "October", "November",
    "December",
];
const DOW: [&str; 7] = ["Sun", "Mon", "Tue", "Wed", "Thu", "Fri", "Sat"];

// Howard Hinnant's civil-date algorithms (input generation only: weekday names for syntax 5 and
// shifting an instant into another offset for the comparison pairs)
fn days_from_civil(y: i64, m: i64, d: i64) -> i64 {
    let y = if m <= 2 { y - 1 } else { y };
    let era = y.div_euclid(400);
    let yoe = y - era * 400;
    let mp = (m + 9) % 12;
    let doy = (153 * mp + 2) / 5 + d - 1;
    let doe = yoe * 365 + yoe / 4 - yoe / 100 + doy;
    era * 146097 + doe - 719468
}
fn civil_from_days(z: i64) -> (i64, i64, i64) {
    let z = z + 719468;
    let era = z.div_euclid(146097);
    let doe = z - era * 146097;
    let yoe = (doe - doe / 1460 + doe / 36524 - doe / 146096) / 365;
    let y = yoe + era * 400;
    let doy = doe - (365 * yoe + yoe / 4 - yoe / 100);
    let mp = (5 * doy + 2) / 153;
    let d = doy - (153 * mp + 2) / 5 + 1;
    let m = if mp < 10 { mp + 3 } else { mp - 9 };
    (if m <= 2 { y + 1 } else { y }, m, d)
}
fn is_leap(y: i64) -> bool {
    (y % 4 == 0 && y % 100 != 0) || y % 400 == 0
}
fn days_in_month(y: i64, m: i64) -> i64 {
    match m {
        1 | 3 | 5 | 7 | 8 | 10 | 12 => 31,
        4 | 6 | 9 | 11 => 30,
        _ => {
            if is_leap(y) {
                29
            } else {
                28
            }
        }
    }
}

impl Ts {
    fn to_json(&self) -> Json {
        json!({"y": self.y, "mo": self.mo, "d": self.d, "h": self.h, "mi": self.mi, "s": self.s, "ns": self.ns, "off_s": self.off})
    }
    fn from_json(j: &Json) -> Option<Ts> {
        Some(Ts {
            y: j.get("y")?.as_i64()?,
            mo: j.get("mo")?.as_i64()?,
            d: j.get("d")?.as_i64()?,
            h: j.get("h")?.as_i64()?,
            mi: j.get("mi")?.as_i64()?,
            s: j.get("s")?.as_i64()?,
            ns: j.get("ns")?.as_i64()?,
            off: j.get("off_s")?.as_i64()?,
        })
    }
    /// seconds since the epoch of the instant
    fn unix(&self) -> i64 {
        days_from_civil(self.y, self.mo, self.d) * 86400 + self.h * 3600 + self.mi * 60 + self.s - self.off
    }
    /// the same instant (+ delta) seen in another offset; None outside years 1..=9999
    fn shifted(&self, delta_ns: i64, off: i64) -> Option<Ts> {
        let total = self.unix() as i128 * 1_000_000_000 + self.ns as i128 + delta_ns as i128;
        let secs = total.div_euclid(1_000_000_000) as i64;
        let ns = total.rem_euclid(1_000_000_000) as i64;
        let local = secs + off;
        let days = local.div_euclid(86400);
        let sod = local.rem_euclid(86400);
        let (y, mo, d) = civil_from_days(days);
        if !(1..=9999).contains(&y) {
            return None;
        }
        Some(Ts { y, mo, d, h: sod / 3600, mi: sod / 60 % 60, s: sod % 60, ns, off })
    }
    fn off_text(&self) -> String {
        let a = self.off.abs();
        format!("{}{:02}{:02}", if self.off < 0 { '-' } else { '+' }, a / 3600, a / 60 % 60)
    }
    /// text in one of the accepted syntaxes (see module doc); `frac_digits` only for syntax 0/1
    fn text(&self, syntax: u8, trim_fraction: bool) -> String {
        let frac = if self.ns == 0 {
            String::new()
        } else {
            let f = format!("{:09}", self.ns);
            if trim_fraction {
                format!(".{}", f.trim_end_matches('0'))
            } else {
                format!(".{f}")
            }
        };
        let hms = format!("{:02}:{:02}:{:02}", self.h, self.mi, self.s);
        match syntax {
            0 => format!("{:04}-{:02}-{:02} {hms}{frac} {}", self.y, self.mo, self.d, self.off_text()),
            1 => format!("{:04}-{:02}-{:02} {hms}{frac}", self.y, self.mo, self.d),
            2 => format!("{:02} {} {:04} {hms} {}", self.d, MONTHS[self.mo as usize - 1], self.y, self.off_text()),
            3 => format!("{:02} {} {:04} {hms} {}", self.d, &MONTHS[self.mo as usize - 1][..3], self.y, self.off_text()),
            4 => format!("{:02}/{:02}/{:04} {hms} {}", self.mo, self.d, self.y, self.off_text()),
            5 => {
                let wd = (days_from_civil(self.y, self.mo, self.d) + 4).rem_euclid(7);
                format!(
                    "{} {} {} {hms} {:04} {}",
                    DOW[wd as usize],
                    &MONTHS[self.mo as usize - 1][..3],
                    self.d,
                    self.y,
                    self.off_text()
                )
            }
            _ => self.unix().to_string(),
        }
    }
    /// the timestamp a syntax can express (no fraction outside 0/1, no offset in 1, UTC in 6)
    fn for_syntax(&self, syntax: u8) -> Ts {
        let mut t = *self;
        match syntax {
            0 => {}
            1 => t.off = 0,
            6 => {
                t.ns = 0;
                t = t.shifted(0, 0).unwrap_or(Ts { off: 0, ns: 0, ..*self });
            }
            _ => t.ns = 0,
        }
        t
    }
}

const SYNTAX_NAMES: [&str; 7] = ["default", "default-nooff", "day_month", "day_mon", "mdy", "dow_mon", "unix"];

pub const YEARS_EXTRA: [i64; 3] = [1, 1000, 9999];
fn years() -> Vec<i64> {
    let mut v = vec![1, 1000];
    v.extend(1970..=2040);
    v.push(9999);
    v
}
/// first/last day of the year, leap day and its neighbours, ISO-week-year edges, mid-year
fn edge_days(y: i64) -> Vec<(i64, i64)> {
    let mut v: Vec<(i64, i64)> = (1..=7).map(|d| (1, d)).collect();
    v.push((2, 28));
    if is_leap(y) {
        v.push((2, 29));
    }
    v.push((3, 1));
    v.push((6, 30));
    v.push((7, 1));
    v.push((10, 9));
    v.extend((25..=31).map(|d| (12, d)));
    v
}
const NANOS: [i64; 12] = [0, 5_000_000, 1_000, 1, 5_006_007, 999_999_999, 123_456_789, 100_000_000, 10, 50_000, 0, 0];
/// -12:00 ..= +14:00, with the :30 / :45 zones
fn offsets() -> Vec<i64> {
    let mut v: Vec<i64> = (-12..=14).map(|h| h * 3600).collect();
    for (h, m) in [(-9, 30), (-3, 30), (-2, 30), (0, 30), (3, 30), (4, 30), (5, 30), (5, 45), (6, 30), (8, 45), (9, 30), (10, 30), (12, 45), (13, 45)] {
        let s: i64 = if h < 0 { -1 } else { 1 };
        v.push(h * 3600 + s * m * 60);
    }
    v.push(-30 * 60);
    v
}

/// every directive the documentation names, without flags
const PLAIN: &str = "%Y|%C|%y|%m|%B|%b|%h|%d|%e|%j|%H|%k|%I|%l|%P|%p|%M|%S|%L|%N|%z|%:z|%::z|%A|%a|%u|%w|%G|%g|%V|%U|%W|%s|%n|%t|%%|%c|%D|%F|%v|%x|%X|%r|%R|%T|%Z";
const SUBSEC: &str = "%s|%L|%N|%1N|%3N|%6N|%9N|%12N|%2L|%5L|%z|%:z|%::z|%Z|%F %T";
pub const DIRECTIVES: &str = "YCymBbhdejHkIlPpMSLNzZAauwGgVUWsnt%cDFvxXrRT+";
const FLAGS: [&str; 6] = ["", "-", "_", "0", "^", "#"];
const WIDTHS: [&str; 5] = ["", "1", "3", "6", "12"];

/// flag combinations, modifiers, unknown directives, malformed formats
const SPECIAL_FORMATS: &[&str] = &[
    // several flags: `-` sticks, the last of `_`/`0` and of `^`/`#` wins
    "%-_5y", "%_-5y", "%-5y", "%_05d", "%0_5d", "%-0d", "%0-d", "%__3m", "%00003m", "%_0e", "%0_e", "%-_e", "%^#a", "%#^a",
    "%^#p", "%#^p", "%^#P", "%#^P", "%-^10B", "%^-10B", "%_^10A", "%^_10A", "%^10b", "%#10h", "%-10a", "%_10p", "%10P",
    "%-3N", "%_3N", "%03N", "%^6N", "%#9L", "%-L", "%_L", "%0L", "%024N", "%24N", "%15L", "%10N", "%11N", "%2N", "%4N", "%5N",
    "%7N", "%8N", "%1L", "%4L", "%6L", "%9L",
    // E / O modifiers are recognised and ignored
    "%Ec", "%EC", "%Ex", "%EX", "%Ey", "%EY", "%Od", "%Oe", "%OH", "%OI", "%Om", "%OM", "%OS", "%Ou", "%OU", "%OV", "%Ow",
    "%OW", "%Oy", "%Ok", "%Ol", "%EB", "%Oz", "%E%", "%OQ", "%E:z", "%-Ey", "%5Od", "%_3Oe",
    // unknown directives are echoed, with their flags and width
    "%f", "%i", "%J", "%K", "%o", "%q", "%Q", "%E", "%O", "%!", "% ", "%.", "%/", "%,", "%@", "%$", "%&", "%*", "%(", "%=",
    "%~", "%?", "%\"", "%'", "%\\", "%<", "%{", "%|", "%-f", "%5q", "%_0-^#^q", "%012i", "%^J", "%#K", "%é", "%€", "%😀",
    "%日", "%ß", "%-é", "%5é", "%_12€", "%^😀", "%0日x", "a%éb%Yc", "%\u{301}", "%\u{a0}", "%:b", "%:", "%::", "%:::z", "%::x",
    "%:é", "%-_::xX%Y", "%:%Y", "%10::z", "%10:z", "%-:z",
    // malformed: nothing after '%', after the flags / the width / the modifier
    "%", "%-", "%_", "%0", "%^", "%#", "%5", "%05", "%-_0^#", "%-12", "%E", "%O", "%5E", "%-O", "X%", "%Y%", "%%%", "%Y-%m-%",
    "abc%", "é%", "%é%", "%18446744073709551616d", "%99999999999999999999Y", "%18446744073709551616",
    // literals only
    "", "plain text", "é日😀", "100%%", "%%%%", "%%Y", "a%nb%tc",
    // a longer realistic mix
    "%Y-%m-%dT%H:%M:%S.%L%:z", "%a, %d %b %Y %H:%M:%S %z", "%A, %B %-d, %Y at %-I:%M %p", "%G-W%V-%u", "%Y%j", "%s.%N",
    "%d/%m/%y %l:%M%P", "%e %b %Y %k:%M", "week %U/%W of %Y", "%C%y == %Y", "%FT%T%z", "%x %X", "%D %r", "%v %R",
];

pub struct Tpls {
    fmt: Template,
    cmp: Template,
}
impl Tpls {
    pub fn new() -> Tpls {
        let p = parser(Config::Stdlib);
        Tpls {
            fmt: p.parse("{{ ts | date: fmt }}").expect("c17 template"),
            cmp: p
                .parse("{% if a == b %}E{% endif %}{% if a < b %}L{% endif %}{% if a > b %}G{% endif %}{% if a <= b %}l{% endif %}{% if a >= b %}g{% endif %}{% if a != b %}N{% endif %}")
                .expect("c17 template"),
        }
    }
}

fn out_json(out: &Out) -> Json {
    match out {
        Out::Ok(s) => json!({"k":"ok","v": s}),
        Out::Err(m) => json!({"k":"err","v": m}),
        Out::Panic(p) => json!({"k":"panic","v": p.key(), "site": p.site(), "msg": p.msg}),
        Out::BadUtf8(b) => json!({"k":"other","v": format!("non-utf8 output of {} bytes", b.len())}),
    }
}

/// format `ts` (given as the text `x`) through the date filter, as DateTime value or as string
pub fn fmt_event(tp: &Tpls, ts: &Ts, x: &str, via_string: bool, fmt: &str) -> Json {
    let mut o = Object::new();
    o.insert("fmt".into(), Value::scalar(fmt.to_string()));
    let res = if via_string {
        o.insert("ts".into(), Value::scalar(x.to_string()));
        out_json(&render(&tp.fmt, &o))
    } else {
        match guard(|| DateTime::from_str(x)) {
            Ok(Some(dt)) => {
                o.insert("ts".into(), Value::scalar(dt));
                out_json(&render(&tp.fmt, &o))
            }
            Ok(None) => json!({"k":"unparsed","v":""}),
            Err(p) => json!({"k":"panic","v": p.key(), "site": p.site(), "msg": p.msg}),
        }
    };
    json!({"ev":"fmt","ts": ts.to_json(),"via": if via_string {"string"} else {"value"},"x": x,"fmt": fmt,"res": res})
}

pub fn rt_event(ts: &Ts, x: &str, syntax: &str) -> Json {
    let r = guard(|| {
        let Some(d0) = DateTime::from_str(x) else {
            return json!({"x": x, "syntax": syntax, "printed": null});
        };
        let printed = d0.to_string();
        let d1 = DateTime::from_str(&printed);
        let off0 = d0.offset().whole_seconds();
        let mut j = json!({
            "x": x, "syntax": syntax, "printed": printed,
            "ns0": d0.unix_timestamp_nanos().to_string(), "off0": off0,
        });
        match d1 {
            Some(d1) => {
                j["reparsed"] = json!(d1.to_string());
                j["same_instant"] = json!(Value::scalar(d0) == Value::scalar(d1) && d0 == d1);
                j["same_offset"] = json!(off0 == d1.offset().whole_seconds());
                j["ns1"] = json!(d1.unix_timestamp_nanos().to_string());
                j["off1"] = json!(d1.offset().whole_seconds());
            }
            None => {
                j["reparsed"] = Json::Null;
                j["same_instant"] = json!(false);
                j["same_offset"] = json!(false);
            }
        }
        j
    });
    let rt = match r {
        Ok(j) => j,
        Err(p) => json!({"x": x, "syntax": syntax, "panic": p.key(), "site": p.site(), "msg": p.msg}),
    };
    json!({"ev":"rt","ts": ts.to_json(),"rt": rt})
}

pub fn cmp_event(tp: &Tpls, a: &str, b: &str, via_template: bool) -> Json {
    let r = guard(|| {
        let (Some(da), Some(db)) = (DateTime::from_str(a), DateTime::from_str(b)) else {
            return json!({"a": a, "b": b, "unparsed": true});
        };
        let (va, vb) = (Value::scalar(da), Value::scalar(db));
        if via_template {
            let mut o = Object::new();
            o.insert("a".into(), va);
            o.insert("b".into(), vb);
            match render(&tp.cmp, &o) {
                Out::Ok(s) => json!({"a": a, "b": b, "via": "template",
                    "eq": s.contains('E'), "lt": s.contains('L'), "gt": s.contains('G'),
                    "le": s.contains('l'), "ge": s.contains('g'), "ne": s.contains('N')}),
                other => json!({"a": a, "b": b, "via": "template", "res": out_json(&other)}),
            }
        } else {
            use std::cmp::Ordering::*;
            let c = va.partial_cmp(&vb);
            let eq = va == vb;
            json!({"a": a, "b": b, "via": "Value",
                "eq": eq, "lt": c == Some(Less), "gt": c == Some(Greater),
                "le": matches!(c, Some(Less | Equal)), "ge": matches!(c, Some(Greater | Equal)), "ne": !eq,
                "ord": match c { Some(Less) => "lt", Some(Equal) => "eq", Some(Greater) => "gt", None => "none" }})
        }
    });
    let c = match r {
        Ok(j) => j,
        Err(p) => json!({"a": a, "b": b, "via": if via_template {"template"} else {"Value"},
            "res": {"k":"panic","v": p.key(), "site": p.site(), "msg": p.msg}}),
    };
    json!({"ev":"cmp","cmp": c})
}

struct Run<'a> {
    ctx: &'a mut Ctx,
    tp: Tpls,
}

impl Run<'_> {
    fn fmt(&mut self, family: &str, ts: &Ts, syntax: u8, via_string: bool, fmt: &str) {
        let ts = ts.for_syntax(syntax);
        let x = ts.text(syntax, ts.ns % 1000 == 0);
        let h = hash_combine(hash_str(&x), hash_str(fmt) ^ via_string as u64);
        if !self.ctx.mine(h) {
            return;
        }
        if self.ctx.evaluations % 128 == 0 {
            self.ctx.set_progress(&json!({"check":"C17","kind":"fmt","x":x,"fmt":fmt,"via_string":via_string}).to_string());
        }
        let ev = fmt_event(&self.tp, &ts, &x, via_string, fmt);
        self.ctx.record(h, fmt.contains('%'));
        self.ctx.count(&format!("family:{family}"));
        self.ctx.count(&format!("fmt-outcome:{}", ev["res"]["k"].as_str().unwrap_or("?")));
        self.ctx.count(if via_string { "fmt-via:string" } else { "fmt-via:value" });
        if ev["res"]["k"] == "panic" {
            self.ctx.set_insert("panic_sites", hash_str(ev["res"]["site"].as_str().unwrap_or("")));
        }
        self.ctx.event(&ev);
        self.ctx.sample(|| ev.clone());
    }
    fn composition(&mut self, ts: &Ts, segs: &[String]) {
        let ts = ts.for_syntax(0);
        let x = ts.text(0, ts.ns % 1000 == 0);
        let whole: String = segs.concat();
        let h = hash_combine(hash_str(&x), hash_str(&whole) ^ 0x636f6d70);
        if segs.len() < 2 || !self.ctx.mine(h) {
            return;
        }
        let Ok(Some(dt)) = guard(|| DateTime::from_str(&x)) else { return };
        let one = |f: &str| {
            let mut o = Object::new();
            o.insert("fmt".into(), Value::scalar(f.to_string()));
            o.insert("ts".into(), Value::scalar(dt));
            render(&self.tp.fmt, &o)
        };
        let parts: Vec<Out> = segs.iter().map(|f| one(f)).collect();
        let all = one(&whole);
        self.ctx.record(h, true);
        self.ctx.count("family:composition");
        let replay = || json!({"check":"C17","kind":"fmt","x":x,"fmt":whole,"via_string":false,"segments":segs});
        if let Out::Panic(p) = &all {
            self.ctx.violation(&p.key(), &format!("date: {whole:?} on {x} panicked: {}", p.msg), replay);
            return;
        }
        if parts.iter().all(|p| matches!(p, Out::Ok(_))) {
            let want: String = parts.iter().map(|p| if let Out::Ok(s) = p { s.as_str() } else { "" }).collect();
            match &all {
                Out::Ok(got) if *got == want => self.ctx.count("composition:agrees"),
                Out::Ok(got) => self.ctx.violation(
                    "strftime:format-is-not-rendered-piece-by-piece",
                    &format!("date: {whole:?} on {x} gave {got:?}, but its pieces {segs:?} give {want:?} one by one"),
                    replay,
                ),
                _ => self.ctx.violation(
                    "strftime:concatenation-fails-where-pieces-render",
                    &format!("date: {whole:?} on {x} failed although each of its pieces {segs:?} renders"),
                    replay,
                ),
            }
        } else {
            self.ctx.count("composition:a-piece-fails");
            if matches!(all, Out::Ok(_)) {
                self.ctx.violation(
                    "strftime:concatenation-renders-where-a-piece-fails",
                    &format!("date: {whole:?} on {x} rendered although one of its pieces {segs:?} fails alone"),
                    replay,
                );
            }
        }
    }
    fn rt(&mut self, ts: &Ts, syntax: u8, trim: bool) {
        let ts = ts.for_syntax(syntax);
        let x = ts.text(syntax, trim);
        let h = hash_combine(hash_str(&x), 0x7274);
        if !self.ctx.mine(h) {
            return;
        }
        let ev = rt_event(&ts, &x, SYNTAX_NAMES[syntax as usize]);
        self.ctx.record(h, true);
        self.ctx.count("family:round-trip");
        self.ctx.count(&format!("round-trip-syntax:{}", SYNTAX_NAMES[syntax as usize]));
        self.ctx.event(&ev);
        self.ctx.sample(|| ev.clone());
    }
    /// date-time `a` against the calendar date (a.y, a.mo, day): checked here, no offline part
    fn cmp_date(&mut self, a: &Ts, day: i64) {
        use std::cmp::Ordering;
        let xa = a.text(0, true);
        let h = hash_combine(hash_str(&xa), 0x6474 + day as u64);
        if !self.ctx.mine(h) {
            return;
        }
        let want = a.d.cmp(&day);
        let r = guard(|| {
            let da = DateTime::from_str(&xa)?;
            let dd = liquid::model::Date::from_ymd(a.y as i32, a.mo as u8, day as u8);
            let (va, vd) = (Value::scalar(da), Value::scalar(dd));
            let api = (va == vd, vd == va, va.partial_cmp(&vd), vd.partial_cmp(&va));
            let mut o = Object::new();
            o.insert("a".into(), va);
            o.insert("b".into(), vd);
            Some((api, render(&self.tp.cmp, &o)))
        });
        self.ctx.record(h, a.off != 0);
        self.ctx.count("family:compare-datetime-with-date");
        let replay = || json!({"check":"C17","kind":"cmp-date","a": xa, "date": format!("{:04}-{:02}-{:02}", a.y, a.mo, day)});
        match r {
            Err(p) => self.ctx.violation(&p.key(), &format!("comparing {xa} with a date panicked: {}", p.msg), replay),
            Ok(None) => self.ctx.count("compare-datetime-with-date:unparsed"),
            Ok(Some(((eq, eq_rev, c, c_rev), out))) => {
                let tpl = match &out {
                    Out::Ok(s) => Some((s.contains('E'), s.contains('L'), s.contains('G'))),
                    _ => None,
                };
                let ok_api = eq == (want == Ordering::Equal) && eq_rev == eq && c == Some(want) && c_rev == Some(want.reverse());
                let ok_tpl = tpl.map_or(true, |(e, l, g)| e == (want == Ordering::Equal) && l == (want == Ordering::Less) && g == (want == Ordering::Greater));
                if !ok_api || !ok_tpl {
                    self.ctx.violation(
                        "compare:datetime-vs-date-not-by-shown-day",
                        &format!(
                            "{xa} against the date {:04}-{:02}-{:02}: expected {want:?} by the calendar day shown; Value API eq={eq} rev-eq={eq_rev} cmp={c:?} rev-cmp={c_rev:?}; template (E,L,G)={tpl:?}",
                            a.y, a.mo, day
                        ),
                        replay,
                    );
                }
            }
        }
    }
    fn cmp(&mut self, a: &Ts, b: &Ts) {
        let (xa, xb) = (a.text(0, true), b.text(0, false));
        for via_template in [false, true] {
            let h = hash_combine(hash_combine(hash_str(&xa), hash_str(&xb)), 0x636d + via_template as u64);
            if !self.ctx.mine(h) {
                continue;
            }
            let ev = cmp_event(&self.tp, &xa, &xb, via_template);
            self.ctx.record(h, a.off != b.off);
            self.ctx.count("family:compare");
            self.ctx.count(if via_template { "compare-via:template" } else { "compare-via:Value" });
            self.ctx.event(&ev);
            self.ctx.sample(|| ev.clone());
        }
    }
}

/// deterministic (seed-independent) choice of the fields an enumeration does not sweep
fn fill(y: i64, mo: i64, d: i64, h: i64, variant: u64, offs: &[i64]) -> Ts {
    let k = hash_combine((y * 10000 + mo * 100 + d) as u64, (h as u64) << 8 | variant);
    let pick = |salt: u64, n: u64| (hash_combine(k, salt) % n) as i64;
    Ts {
        y,
        mo,
        d,
        h,
        mi: [0, 59, 5, 30][pick(1, 4) as usize],
        s: [0, 59, 7, 30][pick(2, 4) as usize],
        ns: NANOS[pick(3, NANOS.len() as u64) as usize],
        off: offs[pick(4, offs.len() as u64) as usize],
    }
}

pub fn run(ctx: &mut Ctx) {
    ctx.start_watchdog(120);
    let quick = ctx.quick();
    let rng = ctx.rng("c17-random");
    let offs = offsets();
    let mut r = Run { ctx, tp: Tpls::new() };

    // W1: every boundary day x every hour, all plain directives in one format
    let variants: u64 = if quick { 1 } else { 3 };
    for &y in &years() {
        for (mo, d) in edge_days(y) {
            for h in 0..24 {
                for v in 0..variants {
                    let ts = fill(y, mo, d, h, v, &offs);
                    r.fmt("plain-sweep", &ts, 0, false, PLAIN);
                    if (h + v as i64) % 6 == 0 {
                        let syntax = ((y + d + h) % 6) as u8;
                        r.fmt("plain-sweep-string", &ts, syntax, true, PLAIN);
                    }
                }
            }
        }
    }

    // W2: offsets x sub-second values on instants next to the range ends and the epoch
    let bases = [
        (1, 1, 1, 0, 0, 0),
        (1, 1, 1, 13, 30, 15),
        (1, 12, 31, 23, 59, 59),
        (1969, 12, 31, 23, 59, 59),
        (1970, 1, 1, 0, 0, 0),
        (2000, 2, 29, 12, 0, 0),
        (2024, 12, 30, 0, 0, 1),
        (2038, 1, 19, 3, 14, 7),
        (9999, 1, 1, 0, 0, 0),
        (9999, 12, 31, 23, 59, 59),
    ];
    for &(y, mo, d, h, mi, s) in &bases {
        for &off in &offs {
            for &ns in &NANOS[..10] {
                let ts = Ts { y, mo, d, h, mi, s, ns, off };
                r.fmt("offset-x-subsecond", &ts, 0, false, SUBSEC);
            }
        }
    }

    // a small set of varied timestamps for the format matrices
    let small = small_set(if quick { 12 } else { 250 }, &offs);

    // W3: every directive x flag x width
    for dch in DIRECTIVES.chars() {
        for fl in FLAGS {
            for w in WIDTHS {
                for colon in ["", ":", "::"] {
                    if !colon.is_empty() && dch != 'z' {
                        continue;
                    }
                    let f = format!("%{fl}{w}{colon}{dch}");
                    for ts in &small {
                        r.fmt("directive-x-flag-x-width", ts, 0, false, &f);
                    }
                }
            }
        }
    }

    // W4: flag combinations, E/O, unknown directives (ASCII and not), malformed formats
    for f in SPECIAL_FORMATS {
        for (i, ts) in small.iter().take(if quick { 12 } else { 60 }).enumerate() {
            r.fmt("special-formats", ts, 0, i % 3 == 1, f);
        }
    }
    for c in (0x20u8..0x7f).map(|b| b as char) {
        // every printable ASCII character in directive position
        for ts in small.iter().take(3) {
            r.fmt("ascii-directive-sweep", ts, 0, false, &format!("[%{c}]"));
            r.fmt("ascii-directive-sweep", ts, 0, false, &format!("[%-7{c}]"));
        }
    }

    // W5: random concatenations on random timestamps
    let n = if quick { 20_000u64 } else { 1_200_000 };
    for i in 0..n {
        let mut g = rng.fork(i);
        let ts = random_ts(&mut g, &offs);
        let f = random_format(&mut g);
        let via_string = g.chance(1, 5);
        let syntax = if via_string && g.chance(1, 2) { g.below(7) as u8 } else { 0 };
        r.fmt("random-concatenation", &ts, syntax, via_string, &f);
    }

    // W5b: a format is rendered piece by piece -- the output of a concatenation of directives and
    // literals is the concatenation of their separate outputs (checked here, no offline part;
    // needs no reference: both sides are the real code)
    let n = if quick { 6_000u64 } else { 300_000 };
    for i in 0..n {
        let mut g = rng.fork(0x5b00_0000 + i);
        let ts = random_ts(&mut g, &offs);
        let segs = random_format_segments(&mut g);
        r.composition(&ts, &segs);
    }

    // W6: print / parse round trips over every accepted syntax
    let hours: Vec<i64> = if quick { vec![0, 23] } else { (0..24).collect() };
    for &y in &years() {
        for (mo, d) in edge_days(y) {
            for &h in &hours {
                let ts = fill(y, mo, d, h, 7, &offs);
                if quick {
                    r.rt(&ts, 0, h == 0);
                    r.rt(&ts, (1 + (y + d + h) % 6) as u8, false);
                } else {
                    for syntax in 0..7u8 {
                        r.rt(&ts, syntax, h % 2 == 0);
                    }
                }
            }
        }
    }
    for &(y, mo, d, h, mi, s) in &bases {
        for &off in &offs {
            for &ns in &NANOS[..10] {
                r.rt(&Ts { y, mo, d, h, mi, s, ns, off }, 0, ns % 2 == 0);
            }
        }
    }

    // W7: the same or neighbouring instants written in different offsets
    let cmp_offs: Vec<i64> = if quick {
        vec![-12 * 3600, -(9 * 3600 + 1800), 0, 3600, 5 * 3600 + 2700, 14 * 3600]
    } else {
        vec![-12 * 3600, -(9 * 3600 + 1800), -5 * 3600, -3600, -1800, 0, 3600, 2 * 3600, 5 * 3600 + 2700, 9 * 3600, 12 * 3600 + 2700, 14 * 3600]
    };
    let cmp_bases: Vec<Ts> = small_set(if quick { 8 } else { 40 }, &[0]);
    for base in &cmp_bases {
        for &oa in &cmp_offs {
            let Some(a) = base.shifted(0, oa) else { continue };
            for &ob in &cmp_offs {
                let diff = (oa - ob) * 1_000_000_000;
                for delta in [0, 1, -1, 1_000_000_000, -1_000_000_000, 3_600_000_000_000, -3_600_000_000_000, diff, -diff, diff + 1, diff - 1] {
                    if let Some(b) = a.shifted(delta, ob) {
                        r.cmp(&a, &b);
                    }
                }
            }
        }
    }

    // W8: a date-time against a calendar date (the DateTime/Date arms of scalar_eq / scalar_cmp):
    // decided by the calendar day the date-time shows in its own offset -- taken here from the
    // fields the text was written from, never from the code under test. Times close to midnight
    // with non-zero offsets are the cases where the UTC day differs from the shown day.
    for base in &cmp_bases {
        for &off in &cmp_offs {
            for (h, mi) in [(0, 0), (0, 30), (1, 0), (12, 0), (23, 0), (23, 59)] {
                let a = Ts { h, mi, off, ..*base };
                if !(2..=27).contains(&a.d) {
                    continue;
                }
                for dd in [-1i64, 0, 1] {
                    r.cmp_date(&a, a.d + dd);
                }
            }
        }
    }
}

/// varied timestamps: single- and double-digit fields, range ends, pre-epoch, leading-zero fractions
fn small_set(n: usize, offs: &[i64]) -> Vec<Ts> {
    let fixed = [
        (2022, 1, 3, 7, 5, 9, 5_000_000),
        (1, 1, 1, 0, 0, 0, 0),
        (9999, 12, 31, 23, 59, 59, 999_999_999),
        (1969, 12, 31, 23, 59, 59, 1),
        (2024, 2, 29, 12, 0, 0, 1_000),
        (2021, 1, 3, 13, 30, 0, 5_006_007),
        (2020, 12, 31, 0, 0, 1, 100_000_000),
        (1000, 6, 5, 1, 2, 3, 10),
        (2007, 11, 19, 8, 37, 48, 0),
        (2026, 1, 1, 11, 59, 59, 123_456_789),
        (1999, 12, 27, 12, 0, 0, 50_000),
        (2038, 1, 19, 3, 14, 7, 0),
    ];
    let mut v = Vec::new();
    let mut g = Rng::new(0xC17);
    for i in 0..n {
        if i < fixed.len() {
            let (y, mo, d, h, mi, s, ns) = fixed[i];
            let off = offs[(i * 7) % offs.len()];
            v.push(Ts { y, mo, d, h, mi, s, ns, off });
        } else {
            v.push(random_ts(&mut g, offs));
        }
    }
    v
}

fn random_ts(g: &mut Rng, offs: &[i64]) -> Ts {
    let y = match g.below(6) {
        0 => *g.pick(&YEARS_EXTRA),
        1 => g.range(1, 9999),
        2 => g.range(1900, 1970),
        _ => g.range(1970, 2040),
    };
    let (mo, d) = if g.chance(1, 3) {
        *g.pick(&edge_days(y))
    } else {
        let mo = g.range(1, 12);
        (mo, g.range(1, days_in_month(y, mo)))
    };
    let ns = match g.below(4) {
        0 => 0,
        1 => *g.pick(&NANOS),
        2 => g.range(0, 999_999_999) / *g.pick(&[1, 1000, 1_000_000, 100_000_000]),
        _ => g.range(0, 999_999_999),
    };
    Ts { y, mo, d, h: g.range(0, 23), mi: g.range(0, 59), s: g.range(0, 59), ns, off: *g.pick(offs) }
}

const NUMERIC: &str = "YCymdejHkIlMSuwGgVUWs";
const ALPHA: &str = "BbhAaPp";
const COMPOSITE: &str = "cDFvxXrRT";
const UNKNOWN: [&str; 16] = ["f", "i", "J", "K", "o", "q", "Q", "!", ".", "é", "€", "😀", "日", "ß", "@", "/"];
const LITERALS: [&str; 20] = [" ", "-", ":", "/", ", ", "T", "Z", "at ", "é", "日本", "😀", "0", "12", "a", "W", ".", "|", "[", "]", "day "];

fn random_format(g: &mut Rng) -> String {
    let mut f = random_format_segments(g).concat();
    if g.chance(1, 40) {
        f.push_str(*g.pick(&["%", "%-", "%5", "%E", "%^#", "%012", "%_O"]));
    }
    f
}

/// the segments (one directive or one literal each) of a random format
fn random_format_segments(g: &mut Rng) -> Vec<String> {
    let mut segs: Vec<String> = Vec::new();
    let nseg = 1 + g.below(8);
    for _ in 0..nseg {
        let mut f = String::new();
        match g.below(100) {
            0..=24 => {
                // numeric directive, flags and widths of the exactly specified sub-domain
                f.push('%');
                f.push_str(*g.pick(&["", "", "", "-", "_", "0", "-_", "_0", "0_"]));
                if g.chance(1, 3) {
                    f.push_str(&g.range(1, 12).to_string());
                }
                f.push(*g.pick(&NUMERIC.chars().collect::<Vec<_>>()));
            }
            25..=36 => {
                f.push('%');
                f.push_str(*g.pick(&["", "", "", "^", "#", "-", "_", "^#", "#^"]));
                if g.chance(1, 3) {
                    f.push_str(&g.range(1, 12).to_string());
                }
                f.push(*g.pick(&ALPHA.chars().collect::<Vec<_>>()));
            }
            37..=44 => {
                f.push('%');
                if g.chance(1, 4) {
                    f.push_str(*g.pick(&["-", "_", "0"]));
                }
                if g.chance(2, 3) {
                    f.push_str(&g.range(1, 15).to_string());
                }
                f.push(if g.chance(1, 2) { 'L' } else { 'N' });
            }
            45..=50 => f.push_str(*g.pick(&["%z", "%:z", "%::z", "%Z"])),
            51..=56 => {
                f.push('%');
                f.push(*g.pick(&COMPOSITE.chars().collect::<Vec<_>>()));
            }
            57..=60 => f.push_str(*g.pick(&["%%", "%n", "%t"])),
            61..=68 => {
                // anything goes: mostly outside the exactly specified sub-domain
                f.push('%');
                for _ in 0..g.below(4) {
                    f.push(*g.pick(&['-', '_', '0', '^', '#']));
                }
                if g.chance(1, 2) {
                    f.push_str(&g.range(1, 40).to_string());
                }
                if g.chance(1, 8) {
                    f.push(*g.pick(&['E', 'O']));
                }
                f.push(*g.pick(&DIRECTIVES.chars().collect::<Vec<_>>()));
            }
            69..=76 => {
                f.push('%');
                if g.chance(1, 3) {
                    f.push(*g.pick(&['-', '_', '0', '^', '#']));
                }
                if g.chance(1, 3) {
                    f.push_str(&g.range(1, 20).to_string());
                }
                f.push_str(*g.pick(&UNKNOWN));
            }
            77..=79 => {
                f.push('%');
                f.push(*g.pick(&['E', 'O']));
                f.push(*g.pick(&"cCxXyYdeHkIlmMSuUVwW".chars().collect::<Vec<_>>()));
            }
            _ => f.push_str(*g.pick(&LITERALS)),
        }
        segs.push(f);
    }
    segs
}

/// re-execute one recorded input on the real code and print the fresh event
pub fn replay(j: &Json) -> bool {
    let tp = Tpls::new();
    let kind = j["kind"].as_str().or(j["ev"].as_str()).unwrap_or("fmt");
    if kind == "cmp-date" {
        use std::cmp::Ordering;
        let (xa, ds) = (j["a"].as_str().unwrap_or(""), j["date"].as_str().unwrap_or(""));
        let (Some(da), Some(dd)) = (DateTime::from_str(xa), liquid::model::Date::from_str(ds)) else {
            println!("c17 replay: cannot parse {xa:?} / {ds:?}");
            return false;
        };
        // the shown day is the first ten characters of the default text form
        let want = xa.get(..10).unwrap_or("").cmp(ds);
        let (va, vd) = (Value::scalar(da), Value::scalar(dd));
        let (eq, c) = (va == vd, va.partial_cmp(&vd));
        println!("{xa} against the date {ds}: expected {want:?} by the shown calendar day; observed eq={eq} cmp={c:?}");
        return eq != (want == Ordering::Equal) || c != Some(want);
    }
    let ev = match kind {
        "rt" => {
            let Some(ts) = Ts::from_json(&j["ts"]) else {
                eprintln!("c17 replay: ts missing");
                return false;
            };
            rt_event(&ts, j["x"].as_str().unwrap_or(""), j["syntax"].as_str().unwrap_or("default"))
        }
        "cmp" => cmp_event(&tp, j["a"].as_str().unwrap_or(""), j["b"].as_str().unwrap_or(""), j["via"].as_str() == Some("template")),
        _ => {
            let Some(ts) = Ts::from_json(&j["ts"]) else {
                eprintln!("c17 replay: ts missing");
                return false;
            };
            fmt_event(&tp, &ts, j["x"].as_str().unwrap_or(""), j["via"].as_str() == Some("string"), j["fmt"].as_str().unwrap_or(""))
        }
    };
    println!("{}", serde_json::to_string(&ev).unwrap());
    false
}
