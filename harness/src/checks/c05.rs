//! C05 — loops visit exactly the selected elements, with truthful loop metadata.
//!
//! non-trivial rule: the loop's source collection is non-empty (the window selection, the loop
//! fields or the interrupt handling are actually exercised).
use super::common::{run_case, Case};
use crate::ctx::Ctx;
use crate::gen::ast::*;
use crate::rng::Rng;
use crate::val::{arr, obj, s, RVal};

fn v(name: &str) -> Expr {
    Expr::var(name)
}
fn field(obj_name: &str, f: &str) -> Node {
    Node::Out(Expr::Var(Path::name(obj_name).dot(f)), vec![])
}
fn t(x: &str) -> Node {
    Node::Text(x.to_string())
}

/// body printing the item and every loop field between separators
fn body(loopobj: &str, item: Node, with_cols: bool) -> Vec<Node> {
    let mut b = vec![t("["), item, t("|")];
    for f in ["index", "index0", "rindex", "rindex0", "first", "last", "length"] {
        b.push(field(loopobj, f));
        b.push(t(","));
    }
    if with_cols {
        for f in ["col", "col0", "col_first", "col_last"] {
            b.push(field(loopobj, f));
            b.push(t(","));
        }
    }
    b.push(t("]"));
    b
}

fn opt_exprs() -> Vec<Option<i64>> {
    let mut v = vec![None];
    v.extend((0..=8).map(Some));
    v
}

#[derive(Clone, Copy, Debug)]
enum Kind {
    ArrayVar,
    LiteralRange,
    VarRange,
    DescendingRange,
    Object,
    NilVar,
}

fn collection(kind: Kind, len: usize) -> Option<(Coll, RVal, bool)> {
    // returns (collection expression, data, items_are_pairs)
    let data_arr = arr((0..len).map(|i| RVal::Int(10 + i as i64)).collect());
    Some(match kind {
        Kind::ArrayVar => (Coll::Expr(v("a")), obj(vec![("a", data_arr)]), false),
        Kind::LiteralRange => (Coll::Range(Expr::int(1), Expr::int(len as i64)), obj(vec![]), false),
        Kind::VarRange => (Coll::Range(v("lo"), v("hi")), obj(vec![("lo", RVal::Int(3)), ("hi", RVal::Int(2 + len as i64))]), false),
        Kind::DescendingRange => {
            if len > 2 {
                return None;
            }
            (Coll::Range(Expr::int(5), Expr::int(4 - len as i64)), obj(vec![]), false)
        }
        Kind::Object => {
            if len > 1 {
                return None;
            }
            let o = if len == 0 { obj(vec![]) } else { obj(vec![("k", s("v"))]) };
            (Coll::Expr(v("a")), obj(vec![("a", o)]), true)
        }
        Kind::NilVar => {
            if len > 0 {
                return None;
            }
            (Coll::Expr(v("a")), obj(vec![("a", RVal::Nil)]), false)
        }
    })
}

fn item_node(pairs: bool) -> Node {
    if pairs {
        // objects iterate as [key, value] pairs
        Node::Out(Expr::Var(Path { root: "i".into(), segs: vec![Seg::Lit(RVal::Int(0))] }), vec![FilterCall { name: "append".into(), args: vec![Expr::Var(Path { root: "i".into(), segs: vec![Seg::Lit(RVal::Int(1))] })] }])
    } else {
        Node::Out(v("i"), vec![])
    }
}

fn windows(ctx: &mut Ctx) {
    let kinds = [Kind::ArrayVar, Kind::LiteralRange, Kind::VarRange, Kind::DescendingRange, Kind::Object, Kind::NilVar];
    for kind in kinds {
        for len in 0..=6usize {
            let Some((coll, data, pairs)) = collection(kind, len) else { continue };
            for off in opt_exprs() {
                for lim in opt_exprs() {
                    // limit/offset as literals and through variables
                    for via_var in [false, true] {
                        let mut data = data.clone();
                        let mk = |name: &str, x: Option<i64>, data: &mut RVal| -> Option<Expr> {
                            x.map(|n| {
                                if via_var {
                                    if let RVal::Object(kv) = data {
                                        kv.push((name.to_string(), RVal::Int(n)));
                                    }
                                    v(name)
                                } else {
                                    Expr::int(n)
                                }
                            })
                        };
                        let offset = mk("off", off, &mut data);
                        let limit = mk("lim", lim, &mut data);
                        if via_var && off.is_none() && lim.is_none() {
                            continue;
                        }
                        for reversed in [false, true] {
                            let main = vec![
                                Node::For {
                                    var: "i".into(),
                                    coll: coll.clone(),
                                    limit: limit.clone(),
                                    offset: offset.clone(),
                                    reversed,
                                    body: body("forloop", item_node(pairs), false),
                                    else_: Some(vec![t("E")]),
                                },
                                t("."),
                            ];
                            let c = Case { main: &main, partials: &[], data: &data, family: "for-window", strip_newlines: false, style_seed: (len * 31 + reversed as usize) as u64 };
                            run_case(ctx, &c, len > 0);
                        }
                        // tablerow with cols absent / 1..4
                        for cols in [None, Some(1), Some(2), Some(3), Some(4)] {
                            let main = vec![
                                Node::TableRow {
                                    var: "i".into(),
                                    coll: coll.clone(),
                                    cols: cols.map(Expr::int),
                                    limit: limit.clone(),
                                    offset: offset.clone(),
                                    body: body("tablerow", item_node(pairs), true),
                                },
                                t("."),
                            ];
                            let c = Case { main: &main, partials: &[], data: &data, family: "tablerow-window", strip_newlines: true, style_seed: (len * 7) as u64 };
                            run_case(ctx, &c, len > 0);
                        }
                    }
                }
            }
        }
    }
}

fn interrupts(ctx: &mut Ctx) {
    for la in 0..=4usize {
        for lb in 0..=4usize {
            let data = obj(vec![
                ("a", arr((0..la).map(|i| RVal::Int(i as i64)).collect())),
                ("b", arr((0..lb).map(|i| s(&format!("s{i}"))).collect())),
            ]);
            for k1 in 0..=5i64 {
                for op1 in [Node::Break, Node::Continue] {
                    for k2 in 0..=5i64 {
                        for op2 in [Node::Break, Node::Continue] {
                            // when the inner loop selects nothing its else branch runs: an interrupt
                                // raised there belongs to the enclosing (outer) loop
                                let else_ops: &[Option<Node>] = if lb == 0 && k2 <= 1 { &[None, Some(Node::Break), Some(Node::Continue)] } else { &[None] };
                            for else_op in else_ops {
                            for outer_first in [true, false] {
                                let guard = |k: i64, op: &Node| Node::If {
                                    arms: vec![(Cond::atom(Atom::Cmp(Expr::Var(Path::name("forloop").dot("index")), Op::Eq, Expr::int(k))), vec![op.clone()])],
                                    else_: None,
                                };
                                let inner = Node::For {
                                    var: "j".into(),
                                    coll: Coll::Expr(v("b")),
                                    limit: None,
                                    offset: None,
                                    reversed: false,
                                    body: vec![
                                        t("("),
                                        Node::Out(Expr::Var(Path::name("forloop").dot("parentloop").dot("index")), vec![]),
                                        t("."),
                                        field("forloop", "index"),
                                        guard(k2, &op2),
                                        t(":"),
                                        Node::Out(v("j"), vec![]),
                                        Node::Out(Expr::Var(Path::name("forloop").dot("parentloop").dot("length")), vec![]),
                                        t(")"),
                                    ],
                                    else_: Some(match else_op {
                                        None => vec![t("e")],
                                        Some(op) => vec![t("e"), op.clone(), t("unreached")],
                                    }),
                                };
                                let mut ob = vec![t("<"), field("forloop", "index")];
                                if outer_first {
                                    ob.push(guard(k1, &op1));
                                    ob.push(inner);
                                } else {
                                    ob.push(inner);
                                    ob.push(guard(k1, &op1));
                                }
                                ob.push(t(">"));
                                let main = vec![
                                    Node::For { var: "i".into(), coll: Coll::Expr(v("a")), limit: None, offset: None, reversed: false, body: ob, else_: Some(vec![t("E")]) },
                                    t("!"),
                                    // the loop variables are gone, and nothing is pending
                                    Node::If { arms: vec![(Cond::atom(Atom::Truthy(v("i"))), vec![t("leak-i")]), (Cond::atom(Atom::Truthy(v("forloop"))), vec![t("leak-forloop")])], else_: Some(vec![t("ok")]) },
                                ];
                                let c = Case { main: &main, partials: &[], data: &data, family: "break-continue", strip_newlines: false, style_seed: (k1 * 13 + k2) as u64 };
                                run_case(ctx, &c, la > 0);
                            }
                            }
                        }
                    }
                }
            }
        }
    }
}

fn random_loops(ctx: &mut Ctx) {
    let n = ctx.scale(40_000u64, 1_000_000u64);
    let rng = ctx.rng("c05-random");
    for i in 0..n {
        let mut r = rng.fork(i);
        let (main, data) = gen_nest(&mut r);
        let c = Case { main: &main, partials: &[], data: &data, family: "random-nested-loops", strip_newlines: true, style_seed: r.next() };
        run_case(ctx, &c, true);
    }
}

fn gen_nest(r: &mut Rng) -> (Vec<Node>, RVal) {
    let la = r.below(41);
    let data = obj(vec![
        ("a", arr((0..la).map(|i| RVal::Int(i as i64 * 3 % 17)).collect())),
        ("b", arr((0..r.below(6)).map(|i| s(&format!("b{i}"))).collect())),
        ("n", RVal::Int(r.range(0, 6))),
        ("m", RVal::Int(r.range(0, 12))),
        ("o", obj(vec![("only", RVal::Int(7))])),
    ]);
    (vec![gen_loop(r, 0), t("$")], data)
}

fn gen_loop(r: &mut Rng, depth: usize) -> Node {
    let var = ["i", "j", "k"][depth.min(2)].to_string();
    let coll = match r.below(7) {
        0 => Coll::Range(Expr::int(r.range(-2, 3)), v("n")),
        1 => Coll::Range(v("n"), v("m")),
        2 => Coll::Expr(v("b")),
        3 => Coll::Expr(v("o")),
        4 => Coll::Range(Expr::int(1), Expr::int(r.range(0, 5))),
        _ => Coll::Expr(v("a")),
    };
    let pairs = matches!(&coll, Coll::Expr(Expr::Var(p)) if p.root == "o");
    let limit = if r.chance(1, 2) { Some(if r.chance(1, 3) { v("n") } else { Expr::int(r.range(0, 45)) }) } else { None };
    let offset = if r.chance(1, 2) { Some(if r.chance(1, 3) { v("n") } else { Expr::int(r.range(0, 45)) }) } else { None };
    if depth < 2 && r.chance(1, 6) {
        // tablerow (no interrupts inside)
        return Node::TableRow {
            var,
            coll,
            cols: if r.chance(1, 2) { Some(Expr::int(r.range(1, 5))) } else { None },
            limit,
            offset,
            body: body("tablerow", item_node(pairs), true),
        };
    }
    let mut b = body("forloop", item_node_named(&var, pairs), false);
    if depth > 0 {
        b.push(Node::Out(Expr::Var(Path::name("forloop").dot("parentloop").dot("index")), vec![]));
        b.push(Node::Out(Expr::Var(Path::name("forloop").dot("parentloop").dot("rindex0")), vec![]));
    }
    if r.chance(1, 3) {
        let k = r.range(1, 6);
        let op = if r.chance(1, 2) { Node::Break } else { Node::Continue };
        b.insert(
            r.below(b.len()),
            Node::If { arms: vec![(Cond::atom(Atom::Cmp(Expr::Var(Path::name("forloop").dot("index")), *r.pick(&[Op::Eq, Op::Gt, Op::Ge]), Expr::int(k))), vec![op])], else_: None },
        );
    }
    if depth < 2 && r.chance(1, 2) {
        let pos = r.below(b.len());
        b.insert(pos, gen_loop(r, depth + 1));
    }
    Node::For { var, coll, limit, offset, reversed: r.chance(1, 3), body: b, else_: if r.chance(1, 2) { Some(vec![t("E")]) } else { None } }
}

fn item_node_named(var: &str, pairs: bool) -> Node {
    if pairs {
        Node::Out(Expr::Var(Path { root: var.into(), segs: vec![Seg::Lit(RVal::Int(0))] }), vec![])
    } else {
        Node::Out(v(var), vec![])
    }
}

pub fn run(ctx: &mut Ctx) {
    ctx.start_watchdog(120);
    windows(ctx);
    interrupts(ctx);
    random_loops(ctx);
}

pub fn replay(j: &serde_json::Value) -> bool {
    super::common::replay_program(j)
}
