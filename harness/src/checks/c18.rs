//! C18 — runtime stack algebra: exhaustive operation sequences executed on the real frame
//! types and compared with an abstract stack-of-maps model.
//!
//! non-trivial rule: the sequence contains at least one push (a layered scope exists).
use crate::ctx::Ctx;
use crate::mon::guard;
use crate::rng::{hash_combine, hash_str};
use crate::val::{dump_view, RVal};
use liquid_core::model::{Object, Scalar};
use liquid_core::runtime::{GlobalFrame, RuntimeBuilder, SandboxedStackFrame, StackFrame};
use liquid_core::Runtime;
use serde_json::json;
use std::collections::BTreeMap;

#[derive(Clone, Copy, Debug, PartialEq, Eq)]
pub enum Op {
    /// index into MAPS
    PushPlain(usize),
    PushSandbox(usize),
    PushGlobal,
    Pop,
    /// (name index, value index)
    Assign(usize, usize),
    Counter(usize, usize),
}

const NAMES: [&str; 2] = ["x", "y"];

fn obj(z: i64) -> RVal {
    RVal::Object(vec![("z".to_string(), RVal::Int(z))])
}

/// the value an entry of a pushed map takes: 0 = absent, 1 = scalar, 2 = object
fn map_value(kind: usize, name: usize) -> Option<RVal> {
    match kind {
        0 => None,
        1 => Some(RVal::Int(1 + name as i64)),
        _ => Some(obj(5 + name as i64)),
    }
}

type Map = BTreeMap<String, RVal>;

/// all 9 maps over {x, y} with values in {absent, scalar, object}
fn maps() -> Vec<Map> {
    let mut out = Vec::new();
    for kx in 0..3 {
        for ky in 0..3 {
            let mut m = Map::new();
            if let Some(v) = map_value(kx, 0) {
                m.insert("x".into(), v);
            }
            if let Some(v) = map_value(ky, 1) {
                m.insert("y".into(), v);
            }
            out.push(m);
        }
    }
    out
}

/// the two assignable values deliberately coincide with what some pushed maps hold (value 0 is the
/// scalar that maps give `x`, value 1 the object that maps give `y`), so that "assigning what is
/// already visible" occurs -- and differ from what the maps give the other name, which keeps every
/// source of a value distinguishable through that name
fn assign_value(i: usize) -> RVal {
    if i == 0 {
        RVal::Int(1)
    } else {
        obj(6)
    }
}
fn counter_value(i: usize) -> RVal {
    if i == 0 {
        RVal::Int(1)
    } else {
        RVal::Int(11)
    }
}

pub fn all_ops() -> Vec<Op> {
    let mut v = Vec::new();
    for i in 0..9 {
        v.push(Op::PushPlain(i));
    }
    for i in 0..9 {
        v.push(Op::PushSandbox(i));
    }
    v.push(Op::PushGlobal);
    v.push(Op::Pop);
    for n in 0..2 {
        for val in 0..2 {
            v.push(Op::Assign(n, val));
        }
    }
    for n in 0..2 {
        for val in 0..2 {
            v.push(Op::Counter(n, val));
        }
    }
    v
}

// ---------------- abstract model ----------------

#[derive(Clone, Debug)]
enum Frame {
    Plain(Map),
    Sandbox(Map),
    Global(Map),
}

#[derive(Clone, Debug)]
struct Model {
    counters: Map,
    data: Map,
    global: Map,
    stack: Vec<Frame>,
}

fn find_in(m: &Map, path: &[&str]) -> Option<RVal> {
    let mut cur = m.get(path[0])?.clone();
    for seg in &path[1..] {
        cur = match cur {
            RVal::Object(kv) => kv.iter().find(|(k, _)| k == seg).map(|(_, v)| v.clone())?,
            _ => return None,
        };
    }
    Some(cur)
}

impl Model {
    fn new(caller: &Map) -> Model {
        Model {
            counters: Map::new(),
            data: caller.clone(),
            global: Map::new(),
            stack: Vec::new(),
        }
    }
    fn lookup(&self, path: &[&str]) -> Option<RVal> {
        for f in self.stack.iter().rev() {
            match f {
                Frame::Plain(m) | Frame::Global(m) => {
                    if m.contains_key(path[0]) {
                        return find_in(m, path);
                    }
                }
                Frame::Sandbox(m) => {
                    // a sandbox answers for its own names and hides everything below
                    return if m.contains_key(path[0]) { find_in(m, path) } else { None };
                }
            }
        }
        for m in [&self.global, &self.data, &self.counters] {
            if m.contains_key(path[0]) {
                return find_in(m, path);
            }
        }
        None
    }
    fn assign(&mut self, k: &str, v: RVal) {
        for f in self.stack.iter_mut().rev() {
            if let Frame::Global(m) = f {
                m.insert(k.to_string(), v);
                return;
            }
        }
        self.global.insert(k.to_string(), v);
    }
    fn apply(&mut self, op: Op, maps: &[Map]) -> bool {
        match op {
            Op::PushPlain(i) => self.stack.push(Frame::Plain(maps[i].clone())),
            Op::PushSandbox(i) => self.stack.push(Frame::Sandbox(maps[i].clone())),
            Op::PushGlobal => self.stack.push(Frame::Global(Map::new())),
            Op::Pop => {
                if self.stack.pop().is_none() {
                    return false;
                }
            }
            Op::Assign(n, v) => self.assign(NAMES[n], assign_value(v)),
            Op::Counter(n, v) => {
                self.counters.insert(NAMES[n].to_string(), counter_value(v));
            }
        }
        true
    }
    fn observe(&self) -> String {
        let mut out = String::new();
        let mut roots = Vec::new();
        for p in PATHS {
            let v = self.lookup(p).map(|v| v.dump());
            out.push_str(&format!("{}:T{}G{};", p.join("."), v.as_deref().unwrap_or("~"), v.as_deref().unwrap_or("!")));
        }
        // the empty path names nothing, whatever the layers hold
        out.push_str("[]:T~G!;");
        for n in NAMES {
            if self.lookup(&[n]).is_some() {
                roots.push(n);
            }
        }
        out.push_str(&format!("roots={};", roots.join(",")));
        for n in NAMES {
            out.push_str(&format!("idx.{n}={};", self.counters.get(n).map(|v| v.dump()).unwrap_or("~".into())));
        }
        out
    }
    fn state_hash(&self) -> u64 {
        hash_str(&format!("{:?}", self))
    }
}

// `size` / `first` are never defined by any layer: a layer must not answer for them out of its
// container's synthetic members
const PATHS: [&[&str]; 8] = [&["x"], &["y"], &["x", "z"], &["y", "z"], &["x", "q"], &["y", "q"], &["size"], &["first"]];

// ---------------- the real runtime ----------------

fn observe_real(rt: &dyn Runtime) -> String {
    let mut out = String::new();
    for p in PATHS {
        let path: Vec<Scalar> = p.iter().map(|s| Scalar::new(s.to_string())).collect();
        let t = rt.try_get(&path).map(|v| dump_view(v.as_view()));
        let g = rt.get(&path).ok().map(|v| dump_view(v.as_view()));
        out.push_str(&format!("{}:T{}G{};", p.join("."), t.as_deref().unwrap_or("~"), g.as_deref().unwrap_or("!")));
    }
    {
        let t = rt.try_get(&[]).map(|v| dump_view(v.as_view()));
        let g = rt.get(&[]).ok().map(|v| dump_view(v.as_view()));
        out.push_str(&format!("[]:T{}G{};", t.as_deref().unwrap_or("~"), g.as_deref().unwrap_or("!")));
    }
    let roots = rt.roots();
    let mut rs: Vec<String> = roots.iter().map(|k| k.as_str().to_string()).collect();
    rs.sort();
    out.push_str(&format!("roots={};", rs.join(",")));
    for n in NAMES {
        out.push_str(&format!("idx.{n}={};", rt.get_index(n).map(|v| dump_view(v.as_view())).unwrap_or("~".into())));
    }
    out
}

fn to_object(m: &Map) -> Object {
    let mut o = Object::new();
    for (k, v) in m {
        o.insert(k.clone().into(), v.to_liquid());
    }
    o
}

/// execute ops[*pos..] on `rt`; push = construct the frame over `rt` and recurse, pop = return.
/// When the ops are exhausted the observation is taken on the then-current top frame.
/// Returns Some(observation) once the end was reached (propagated up through the recursion).
fn exec(rt: &dyn Runtime, ops: &[Op], pos: &mut usize, objs: &[Object], depth: usize) -> Option<String> {
    while *pos < ops.len() {
        let op = ops[*pos];
        *pos += 1;
        match op {
            Op::PushPlain(i) => {
                let frame = StackFrame::new(rt, &objs[i]);
                if let Some(o) = exec(&frame, ops, pos, objs, depth + 1) {
                    return Some(o);
                }
            }
            Op::PushSandbox(i) => {
                let frame = SandboxedStackFrame::new(rt, &objs[i]);
                if let Some(o) = exec(&frame, ops, pos, objs, depth + 1) {
                    return Some(o);
                }
            }
            Op::PushGlobal => {
                let frame = GlobalFrame::new(rt);
                if let Some(o) = exec(&frame, ops, pos, objs, depth + 1) {
                    return Some(o);
                }
            }
            Op::Pop => {
                // depth 0 pops are pruned by the enumerator
                return None;
            }
            Op::Assign(n, v) => {
                rt.set_global(NAMES[n].into(), assign_value(v).to_liquid());
            }
            Op::Counter(n, v) => {
                rt.set_index(NAMES[n].into(), counter_value(v).to_liquid());
            }
        }
    }
    Some(observe_real(rt))
}

fn run_real(ops: &[Op], caller: Option<&Object>, objs: &[Object]) -> Result<String, crate::mon::Panic> {
    guard(|| {
        let mut pos = 0;
        match caller {
            Some(c) => {
                let rt = RuntimeBuilder::new().set_globals(c).build();
                exec(&rt, ops, &mut pos, objs, 0).expect("observation")
            }
            None => {
                let rt = RuntimeBuilder::new().build();
                exec(&rt, ops, &mut pos, objs, 0).expect("observation")
            }
        }
    })
}

fn ops_json(ops: &[Op], with_caller: bool) -> serde_json::Value {
    json!({"kind": "stack-ops", "with_caller_data": with_caller, "ops": ops.iter().map(|o| format!("{o:?}")).collect::<Vec<_>>()})
}

fn parse_op(s: &str) -> Option<Op> {
    let num = |s: &str| -> Vec<usize> { s.split(|c: char| !c.is_ascii_digit()).filter(|t| !t.is_empty()).filter_map(|t| t.parse().ok()).collect() };
    let n = num(s);
    Some(if s.starts_with("PushPlain") {
        Op::PushPlain(n[0])
    } else if s.starts_with("PushSandbox") {
        Op::PushSandbox(n[0])
    } else if s.starts_with("PushGlobal") {
        Op::PushGlobal
    } else if s.starts_with("Pop") {
        Op::Pop
    } else if s.starts_with("Assign") {
        Op::Assign(n[0], n[1])
    } else if s.starts_with("Counter") {
        Op::Counter(n[0], n[1])
    } else {
        return None;
    })
}

fn caller_map() -> Map {
    let mut m = Map::new();
    m.insert("x".into(), RVal::Int(100));
    m
}

/// check one sequence; returns (model state hash path) or violation
fn check_seq(ops: &[Op], with_caller: bool, maps: &[Map], objs: &[Object], caller_obj: &Object) -> Result<(String, Vec<u64>), (String, String)> {
    let cm = if with_caller { caller_map() } else { Map::new() };
    let mut model = Model::new(&cm);
    let mut hashes = vec![model.state_hash()];
    for &op in ops {
        model.apply(op, maps);
        hashes.push(model.state_hash());
    }
    let want = model.observe();
    match run_real(ops, if with_caller { Some(caller_obj) } else { None }, objs) {
        Err(p) => Err((p.key(), format!("runtime panicked at {}: {}", p.site(), p.msg))),
        Ok(got) => {
            if got != want {
                // name the clause that failed
                let key = if got.split(';').zip(want.split(';')).any(|(g, w)| g != w && g.starts_with("roots=")) {
                    "roots-differ-from-model"
                } else if got.split(';').any(|f| {
                    // get/try_get disagreement inside the real observation
                    f.contains(":T") && {
                        let t = f.split(":T").nth(1).unwrap_or("");
                        let (tv, gv) = t.split_once('G').unwrap_or((t, ""));
                        (tv == "~") != (gv == "!") || (tv != "~" && tv != gv)
                    }
                }) {
                    "get-and-try_get-disagree"
                } else if got.split(';').zip(want.split(';')).any(|(g, w)| g != w && g.starts_with("idx.")) {
                    "counters-differ-from-model"
                } else {
                    "lookup-differs-from-model"
                };
                Err((key.to_string(), format!("after {:?} (caller data: {}): runtime says {} but the stack-of-maps model says {}", ops, with_caller, got, want)))
            } else {
                Ok((got, hashes))
            }
        }
    }
}

pub fn run(ctx: &mut Ctx) {
    ctx.start_watchdog(120);
    let maps = maps();
    let objs: Vec<Object> = maps.iter().map(to_object).collect();
    let caller_obj = to_object(&caller_map());
    let ops_all = all_ops();
    let n = ops_all.len();
    let max_len = ctx.scale(4usize, 5usize);
    let mut seq_counter: u64 = 0;
    for len in 0..=max_len {
        let total = (n as u64).pow(len as u32);
        let mut idx = vec![0usize; len];
        for _ in 0..total {
            // prune sequences that pop an empty (pushed) stack
            let mut depth = 0i32;
            let mut valid = true;
            let mut has_push = false;
            for &i in &idx {
                match ops_all[i] {
                    Op::Pop => {
                        depth -= 1;
                        if depth < 0 {
                            valid = false;
                            break;
                        }
                    }
                    Op::PushPlain(_) | Op::PushSandbox(_) | Op::PushGlobal => {
                        depth += 1;
                        has_push = true;
                    }
                    _ => {}
                }
            }
            if valid {
                seq_counter += 1;
                if ctx.mine_idx(seq_counter) {
                    let ops: Vec<Op> = idx.iter().map(|&i| ops_all[i]).collect();
                    for with_caller in [false, true] {
                        let h = hash_combine(hash_str(&format!("{ops:?}")), with_caller as u64);
                        if ctx.evaluations % 256 == 0 {
                            ctx.set_progress(&ops_json(&ops, with_caller).to_string());
                        }
                        let r = check_seq(&ops, with_caller, &maps, &objs, &caller_obj);
                        ctx.record(h, has_push);
                        ctx.add("observations", (PATHS.len() * 2 + 2 + 1 + 2) as u64);
                        match r {
                            Ok((obs, hashes)) => {
                                for w in hashes.windows(2) {
                                    ctx.set_insert("abstract_transitions", hash_combine(w[0], w[1]));
                                }
                                ctx.set_insert("abstract_states", *hashes.last().unwrap());
                                ctx.set_insert("distinct_observations", hash_str(&obs));
                                ctx.sample(|| json!({"ops": ops.iter().map(|o| format!("{o:?}")).collect::<Vec<_>>(), "with_caller_data": with_caller, "observed": obs}));
                            }
                            Err((key, what)) => {
                                ctx.violation(&key, &what, || ops_json(&ops, with_caller));
                            }
                        }
                    }
                }
            }
            for k in (0..len).rev() {
                idx[k] += 1;
                if idx[k] < n {
                    break;
                }
                idx[k] = 0;
            }
        }
        ctx.count(&format!("lengths-enumerated-exhaustively:{len}"));
    }
    // beyond the exhaustive lengths: a seeded sample of longer sequences (the quantifier goes to
    // length 6; 28^6 sequences are sampled, not enumerated -- the evidence says how many)
    let samples: &[(usize, u64)] = if ctx.quick() { &[(5, 60_000), (6, 60_000), (7, 20_000)] } else { &[(6, 20_000_000), (7, 2_000_000), (8, 1_000_000)] };
    let rng = ctx.rng("c18-long");
    for &(len, count) in samples {
        for i in 0..count {
            if !ctx.mine_idx(i) {
                continue;
            }
            let mut r = rng.fork((len as u64) << 40 | i);
            let mut ops: Vec<Op> = Vec::with_capacity(len);
            let mut depth = 0i32;
            while ops.len() < len {
                let op = ops_all[r.below(n)];
                match op {
                    Op::Pop if depth == 0 => continue,
                    Op::Pop => depth -= 1,
                    Op::PushPlain(_) | Op::PushSandbox(_) | Op::PushGlobal => depth += 1,
                    _ => {}
                }
                ops.push(op);
            }
            let has_push = ops.iter().any(|o| matches!(o, Op::PushPlain(_) | Op::PushSandbox(_) | Op::PushGlobal));
            let with_caller = r.chance(1, 2);
            let h = hash_combine(hash_str(&format!("{ops:?}")), with_caller as u64);
            if ctx.evaluations % 256 == 0 {
                ctx.set_progress(&ops_json(&ops, with_caller).to_string());
            }
            let res = check_seq(&ops, with_caller, &maps, &objs, &caller_obj);
            ctx.record(h, has_push);
            ctx.count(&format!("sampled-sequences-of-length:{len}"));
            ctx.add("observations", (PATHS.len() * 2 + 2 + 1 + 2) as u64);
            match res {
                Ok((obs, hashes)) => {
                    ctx.set_insert("abstract_states", *hashes.last().unwrap());
                    ctx.set_insert("distinct_observations", hash_str(&obs));
                    ctx.sample(|| json!({"ops": ops.iter().map(|o| format!("{o:?}")).collect::<Vec<_>>(), "with_caller_data": with_caller, "observed": obs}));
                }
                Err((key, what)) => ctx.violation(&key, &what, || ops_json(&ops, with_caller)),
            }
        }
    }
    ctx.extra.insert("max_sequence_length".into(), json!(max_len));
    ctx.extra.insert("max_sampled_sequence_length".into(), json!(samples.iter().map(|s| s.0).max()));
    ctx.extra.insert("operations".into(), json!(n));
}

pub fn replay(j: &serde_json::Value) -> bool {
    let ops: Vec<Op> = j["ops"].as_array().map(|a| a.iter().filter_map(|s| parse_op(s.as_str().unwrap_or(""))).collect()).unwrap_or_default();
    let with_caller = j["with_caller_data"].as_bool().unwrap_or(false);
    let maps = maps();
    let objs: Vec<Object> = maps.iter().map(to_object).collect();
    let caller_obj = to_object(&caller_map());
    println!("ops={ops:?} with_caller_data={with_caller}");
    match check_seq(&ops, with_caller, &maps, &objs, &caller_obj) {
        Ok((obs, _)) => {
            println!("runtime and model agree: {obs}");
            false
        }
        Err((k, w)) => {
            println!("VIOLATED {k}: {w}");
            true
        }
    }
}
