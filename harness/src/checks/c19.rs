//! C19 — eager, lazy and on-demand partial compilation are observationally equivalent.
use crate::cfg::{parser_with, parser_with_source, Config, Policy};
use crate::ctx::Ctx;
use crate::exec::render;
use crate::gen::prog::{scenario, Opts, Scenario};
use crate::psrc::{Delay, Log, RecSource};
use crate::rng::hash_str;
use serde_json::json;

fn replay_json(sc: &Scenario) -> serde_json::Value {
    let mut j = sc.to_json();
    j["kind"] = json!("policies");
    j
}

/// names of partials that are broken (do not parse on their own)
fn broken_names(sc: &Scenario) -> Vec<String> {
    let p = crate::cfg::parser(Config::Stdlib);
    sc.partials
        .iter()
        .filter(|(_, t)| p.parse(t).is_err())
        .map(|(n, _)| n.clone())
        .collect()
}

pub fn check_scenario(sc: &Scenario, renders: usize) -> Result<serde_json::Value, (String, String)> {
    let data = sc.data.to_object();
    let mut results: Vec<(Policy, Vec<String>)> = Vec::new();
    let mut first_full: Vec<(Policy, String)> = Vec::new();
    for policy in Policy::ALL {
        let parser = parser_with(Config::Stdlib, policy, &sc.partials).map_err(|e| {
            (
                format!("build-failed:{}", policy.name()),
                format!("ParserBuilder::build failed under the {} policy: {}", policy.name(), e.to_string().lines().next().unwrap_or("")),
            )
        })?;
        let t = match parser.parse(&sc.main) {
            Ok(t) => t,
            Err(_) => {
                results.push((policy, vec!["main-parse-error".into()]));
                continue;
            }
        };
        let mut outs = Vec::new();
        let mut fulls: Vec<String> = Vec::new();
        for _ in 0..renders {
            let o = render(&t, &data);
            fulls.push(match &o {
                crate::exec::Out::Err(_) => crate::exec::error_fingerprint(&crate::exec::last_error_text().unwrap_or_default()),
                _ => String::new(),
            });
            if let crate::exec::Out::Panic(p) = &o {
                return Err((p.key(), format!("render panicked under {}: {} at {}", policy.name(), p.msg, p.site())));
            }
            // failures carry the first line of their message: "fail alike" / "same result as its
            // first use" is read as the same kind of failure, not merely some failure
            outs.push(o.summary_with_error());
        }
        // repeated use equals first use
        if outs.iter().any(|o| o != &outs[0]) || fulls.iter().any(|f| f != &fulls[0]) {
            return Err((
                format!("repeat-differs:{}", policy.name()),
                format!("repeated renders on one parser differ under {}: {:?}", policy.name(), outs.iter().zip(&fulls).map(|(o, f)| format!("{} {}", o.chars().take(80).collect::<String>(), f)).collect::<Vec<_>>()),
            ));
        }
        first_full.push((policy, fulls[0].clone()));
        results.push((policy, outs));
    }
    let first = &results[0].1[0];
    for (policy, outs) in &results[1..] {
        if &outs[0] != first {
            return Err((
                "policies-disagree".into(),
                format!(
                    "eager = {:?} but {} = {:?}",
                    first.chars().take(200).collect::<String>(),
                    policy.name(),
                    outs[0].chars().take(200).collect::<String>()
                ),
            ));
        }
    }
    // which partial names did the executed path actually ask for?  Observed through an
    // instrumented source under the on-demand policy (it consults the source on every lookup).
    let log = Log::default();
    let src = RecSource::new(&sc.partials, log.clone(), Delay::None);
    let mut reached_broken = false;
    let mut reached_bad = false;
    let mut looked_up = Vec::new();
    if let Ok(parser) = parser_with_source(Config::Stdlib, Policy::OnDemand, src) {
        if let Ok(t) = parser.parse(&sc.main) {
            let _ = render(&t, &data);
            let bad = broken_names(sc);
            let present: Vec<&String> = sc.partials.iter().map(|(n, _)| n).collect();
            for l in log.take() {
                looked_up.push(l.name.clone());
                // `render` retries "<name>.liquid"; that retry only happens after the first miss
                let base = l.name.trim_end_matches(".liquid").to_string();
                if bad.contains(&l.name) {
                    reached_broken = true;
                }
                if bad.contains(&l.name) || !present.contains(&&base) && !present.contains(&&l.name) {
                    reached_bad = true;
                }
            }
        }
    }
    if !reached_broken {
        // the executed path never named a broken partial: every policy must behave exactly as if
        // the broken partials were healthy (empty) ones -- same output, or the same failure down to
        // its whole message (e.g. the failure for a *missing* partial that the path did name)
        let healthy: Vec<(String, String)> = {
            let bad = broken_names(sc);
            sc.partials
                .iter()
                .map(|(n, t)| if bad.contains(n) { (n.clone(), String::new()) } else { (n.clone(), t.clone()) })
                .collect()
        };
        for (policy, outs) in &results {
            if outs[0] == "main-parse-error" {
                continue;
            }
            let hp = parser_with(Config::Stdlib, *policy, &healthy).map_err(|e| ("harness".to_string(), e.to_string()))?;
            if let Ok(t) = hp.parse(&sc.main) {
                let o = render(&t, &data);
                let want = o.summary_with_error();
                let want_full = match &o {
                    crate::exec::Out::Err(_) => crate::exec::error_fingerprint(&crate::exec::last_error_text().unwrap_or_default()),
                    _ => String::new(),
                };
                let got_full = first_full.iter().find(|(p, _)| p == policy).map(|(_, f)| f.clone()).unwrap_or_default();
                if outs[0] != want || got_full != want_full {
                    return Err((
                        format!("unused-broken-partial-affects:{}", policy.name()),
                        format!(
                            "no broken partial was reached (lookups: {:?}) yet the {} result {:?} {} differs from the result with healthy partials {:?} {}",
                            looked_up,
                            policy.name(),
                            outs[0].chars().take(200).collect::<String>(),
                            got_full,
                            want.chars().take(200).collect::<String>(),
                            want_full
                        ),
                    ));
                }
            }
        }
    }
    Ok(json!({"result": first.chars().take(60).collect::<String>(), "lookups": looked_up, "reached_bad": reached_bad}))
}

/// The partial store seen through its whole interface (a custom tag may call any of it): under
/// every policy `contains` says whether the source has the name, `names` lists the source's names,
/// `try_get` / `get` hand out a partial exactly for names that exist and parse, and what they hand
/// out renders like `include` of that name.
pub fn probe_store_api(sc: &Scenario) -> Result<u64, (String, String)> {
    let bad = broken_names(sc);
    let mut names: Vec<String> = sc.partials.iter().map(|(n, _)| n.clone()).collect();
    names.sort();
    names.dedup();
    let mut cands: Vec<String> = names.clone();
    cands.push("no-such-partial".into());
    for n in names.iter().take(2) {
        cands.push(format!("{n}.liquid"));
        cands.push(n.trim_end_matches(".liquid").to_string());
    }
    cands.sort();
    cands.dedup();
    let mut observed = 0;
    for policy in Policy::ALL {
        let parser = parser_with(Config::Stdlib, policy, &sc.partials).map_err(|e| (format!("build-failed:{}", policy.name()), e.to_string()))?;
        let (Ok(tp), Ok(ti)) = (parser.parse("{% pprobe n %}"), parser.parse("{% include n %}")) else {
            return Err(("harness".into(), "probe templates do not parse".into()));
        };
        for (ci, cand) in cands.iter().enumerate() {
            let mut data = sc.data.to_object();
            data.insert("n".into(), liquid::model::Value::scalar(cand.clone()));
            let has = names.contains(cand);
            let usable = has && !bad.contains(cand);
            // every other name is probed *before* its first use, so that the optional lookup is the
            // one that has to compile it under the lazy policy
            let probe_first = ci % 2 == 1;
            let early = if probe_first { Some(render(&tp, &data)) } else { None };
            let inc = render(&ti, &data);
            let want_r = match (&inc, usable) {
                (_, false) => "-".to_string(),
                (crate::exec::Out::Ok(s), true) => s.clone(),
                (_, true) => "!".to_string(),
            };
            let want = format!("«P c={} t={} g={} n={} r={want_r}»", has as u8, usable as u8, usable as u8, names.join(","));
            let got = match early {
                Some(g) => g,
                None => render(&tp, &data),
            };
            observed += 1;
            if let crate::exec::Out::Panic(p) = &got {
                return Err((p.key(), format!("partial store probe panicked under {}: {}", policy.name(), p.msg)));
            }
            if got.ok() != Some(want.as_str()) {
                return Err((
                    format!("store-interface:{}", policy.name()),
                    format!("under {} the partial store answers {:?} for name {cand:?}; expected {want:?}", policy.name(), got.summary().chars().take(300).collect::<String>()),
                ));
            }
        }
    }
    Ok(observed)
}

pub fn run(ctx: &mut Ctx) {
    ctx.start_watchdog(120);
    let n = ctx.scale(30_000u64, 1_000_000u64);
    let rng = ctx.rng("c19");
    for i in 0..n {
        if !ctx.mine_idx(i) {
            continue;
        }
        let mut r = rng.fork(i);
        let opts = Opts {
            max_depth: 3,
            max_len: 4,
            allow_partials: true,
            undefined_pct: 2,
            ..Opts::default()
        };
        let n_partials = r.below(5);
        let mut sc = scenario(&mut r, n_partials, i % 2 == 0, &opts);
        // the render tag falls back to "<name>.liquid": exercise partials stored under that name,
        // alone or next to a differently-bodied partial of the bare name, used in every order
        if !sc.partials.is_empty() && r.chance(1, 3) {
            let k = r.below(sc.partials.len());
            let bare = sc.partials[k].0.clone();
            if r.chance(1, 2) {
                sc.partials[k].0 = format!("{bare}.liquid");
            } else {
                sc.partials.push((format!("{bare}.liquid"), format!("(alt-{bare})")));
            }
            let mut uses = vec![format!("{{% render '{bare}' %}}"), format!("{{% include '{bare}.liquid' %}}"), format!("{{% include '{bare}' %}}"), format!("{{% render '{bare}.liquid' %}}")];
            r.shuffle(&mut uses);
            for u in uses.iter().take(1 + r.below(4)) {
                if r.chance(1, 2) {
                    sc.main.push_str(u);
                } else {
                    sc.main = format!("{u}{}", sc.main);
                }
            }
            ctx.count("scenarios:with-dot-liquid-names");
        }
        // a partial whose source is the empty text is a perfectly valid partial
        if !sc.partials.is_empty() && r.chance(1, 6) {
            let k = r.below(sc.partials.len());
            sc.partials[k].1 = String::new();
            let name = sc.partials[k].0.trim_end_matches(".liquid").to_string();
            sc.main.push_str(&format!("[{{% include '{}' %}}{{% render '{name}' %}}]", sc.partials[k].0));
            ctx.count("scenarios:with-empty-partial");
        }
        // partial sources are taken verbatim: leading / trailing invisible characters and white space
        // are part of the partial under every policy
        if !sc.partials.is_empty() && r.chance(1, 6) {
            let k = r.below(sc.partials.len());
            let pre = r.choose(&["\u{feff}", " ", "\n", "\t", "\u{a0}", "\r\n", "\u{200b}"]);
            let post = r.choose(&["", "\u{feff}", " \n", "\u{a0}"]);
            sc.partials[k].1 = format!("{pre}{}{post}", sc.partials[k].1);
            let name = sc.partials[k].0.trim_end_matches(".liquid").to_string();
            sc.main.push_str(&format!("<{{% include '{}' %}}|{{% render '{name}' %}}>", sc.partials[k].0));
            ctx.count("scenarios:with-invisible-edges-in-a-partial");
        }
        // tags inside a partial whose own partial name changes from use to use (the partial's parsed
        // nodes are shared by every use under the eager and lazy policies, re-made under on-demand)
        if r.chance(1, 6) {
            sc.partials.push(("rowr".into(), "<{% render kk %}>".into()));
            sc.partials.push(("rowi".into(), "<{% include kk %}>".into()));
            sc.partials.push(("ka".into(), "A".into()));
            sc.partials.push(("kb".into(), "B{{ kk }}".into()));
            let kinds: Vec<crate::val::RVal> = (0..2 + r.below(3)).map(|_| crate::val::RVal::Str(r.choose(&["ka", "kb"]).to_string())).collect();
            if let crate::val::RVal::Object(kv) = &mut sc.data {
                kv.retain(|(k, _)| k != "kinds");
                kv.push(("kinds".into(), crate::val::RVal::Array(kinds)));
            }
            sc.main.push_str("{% for kk in kinds %}{% include 'rowr' %}{% include 'rowi' %}{% render 'rowr', kk: kk %}{% endfor %}");
            ctx.count("scenarios:with-changing-names-inside-a-partial");
        }
        let renders = 1 + r.below(3);
        ctx.set_progress(&replay_json(&sc).to_string());
        let uses_partials = sc.main.contains("include") || sc.main.contains("render");
        let mut res = check_scenario(&sc, renders);
        if res.is_ok() && i % 4 == 0 {
            match probe_store_api(&sc) {
                Ok(n) => ctx.add("store-interface:probes", n),
                Err(e) => res = Err(e),
            }
        }
        ctx.record(hash_str(&sc.to_json().to_string()), uses_partials);
        match res {
            Ok(info) => {
                if info["reached_bad"] == json!(true) {
                    ctx.count("scenarios:reached-broken-or-missing-partial");
                } else if !broken_names(&sc).is_empty() {
                    ctx.count("scenarios:broken-partial-present-but-unreached");
                }
                if info["result"].as_str().map(|s| s.starts_with("ok:")).unwrap_or(false) {
                    ctx.count("scenarios:all-policies-ok");
                } else {
                    ctx.count("scenarios:all-policies-fail-alike");
                }
                ctx.add("partial_lookups_observed", info["lookups"].as_array().map(|a| a.len()).unwrap_or(0) as u64);
                ctx.sample(|| json!({"main": sc.main, "partials": sc.partials, "renders": renders, "observed": info}));
            }
            Err((key, what)) => {
                if key == "harness" {
                    ctx.inconclusive.push(what);
                } else {
                    ctx.violation(&key, &what, || {
                        let mut j = replay_json(&sc);
                        j["renders"] = json!(renders);
                        j
                    });
                }
            }
        }
    }
}

pub fn replay(j: &serde_json::Value) -> bool {
    let sc = Scenario {
        main: j["template"].as_str().unwrap_or("").to_string(),
        partials: j["partials"].as_array().map(|a| a.iter().map(|p| (p[0].as_str().unwrap_or("").to_string(), p[1].as_str().unwrap_or("").to_string())).collect()).unwrap_or_default(),
        data: crate::val::RVal::from_json(&j["data"]),
    };
    match check_scenario(&sc, j["renders"].as_u64().unwrap_or(2) as usize).and_then(|info| probe_store_api(&sc).map(|n| json!({"render": info, "store_interface_probes": n}))) {
        Ok(info) => {
            println!("policies agree: {info}");
            false
        }
        Err((k, w)) => {
            println!("VIOLATED {k}: {w}");
            true
        }
    }
}
