//! C03 — literal text is preserved; trim markers, raw and comment do exactly their job.
//!
//! Templates are generated as item lists whose delimiter sides independently carry or omit the
//! trim marker; the expected output is pure string algebra over the generated structure.
//! non-trivial rule: the template contains at least one delimiter adjacent to a non-empty text
//! segment (so trimming / verbatim copying is actually exercised); markup-free texts of the
//! identity family count when they contain a brace, percent, quote or whitespace character.
use crate::cfg::{parser, Config};
use crate::ctx::Ctx;
use crate::exec::{render, Out};
use crate::rng::{hash_str, Rng};
use liquid::Object;
use serde_json::json;

#[derive(Clone, Copy, Debug, Default)]
pub struct D {
    pub lt: bool,
    pub rt: bool,
    pub pl: usize,
    pub pr: usize,
}

#[derive(Clone, Debug)]
pub enum Item {
    Text(String),
    Out(D, String),
    Assign(D),
    IfTrue(D, D, Vec<Item>),
    ForOne(D, D, Vec<Item>),
    CapturePrint(D, D, D, Vec<Item>),
    Raw(D, D, String),
    Comment(D, D, String),
}

#[derive(Clone, Debug)]
enum Seg {
    Text(String),
    Delim { lt: bool, rt: bool, prints: Option<String> },
}

fn tag(d: &D, inner: &str) -> String {
    format!("{{%{}{}{}{}{}%}}", if d.lt { "-" } else { "" }, " ".repeat(d.pl.max(if d.lt { 0 } else { 0 })), inner, " ".repeat(d.pr), if d.rt { "-" } else { "" })
}
fn expr(d: &D, inner: &str) -> String {
    format!("{{{{{}{}{}{}{}}}}}", if d.lt { "-" } else { "" }, " ".repeat(d.pl), inner, " ".repeat(d.pr), if d.rt { "-" } else { "" })
}

fn source(items: &[Item], out: &mut String) {
    for it in items {
        match it {
            Item::Text(t) => out.push_str(t),
            Item::Out(d, lit) => out.push_str(&expr(d, &format!("'{lit}'"))),
            Item::Assign(d) => out.push_str(&tag(d, "assign zz = 5")),
            Item::IfTrue(a, b, body) => {
                out.push_str(&tag(a, "if true"));
                source(body, out);
                out.push_str(&tag(b, "endif"));
            }
            Item::ForOne(a, b, body) => {
                out.push_str(&tag(a, "for q in (1..1)"));
                source(body, out);
                out.push_str(&tag(b, "endfor"));
            }
            Item::CapturePrint(a, b, c, body) => {
                out.push_str(&tag(a, "capture cc"));
                source(body, out);
                out.push_str(&tag(b, "endcapture"));
                out.push_str(&expr(c, "cc"));
            }
            Item::Raw(a, b, body) => {
                out.push_str(&tag(a, "raw"));
                out.push_str(body);
                out.push_str(&tag(b, "endraw"));
            }
            Item::Comment(a, b, body) => {
                out.push_str(&tag(a, "comment"));
                out.push_str(body);
                out.push_str(&tag(b, "endcomment"));
            }
        }
    }
}

fn flatten(items: &[Item], segs: &mut Vec<Seg>) {
    let d = |x: &D, prints: Option<String>| Seg::Delim { lt: x.lt, rt: x.rt, prints };
    for it in items {
        match it {
            Item::Text(t) => segs.push(Seg::Text(t.clone())),
            Item::Out(x, lit) => segs.push(d(x, Some(lit.clone()))),
            Item::Assign(x) => segs.push(d(x, None)),
            Item::IfTrue(a, b, body) | Item::ForOne(a, b, body) => {
                segs.push(d(a, None));
                flatten(body, segs);
                segs.push(d(b, None));
            }
            Item::CapturePrint(a, b, c, body) => {
                segs.push(d(a, None));
                flatten(body, segs);
                segs.push(d(b, None));
                // the captured text is printed here; nothing is printed between endcapture and it
                segs.push(d(c, None));
            }
            Item::Raw(a, b, body) => {
                segs.push(d(a, None));
                segs.push(Seg::Text(body.clone()));
                segs.push(d(b, None));
            }
            Item::Comment(a, b, _) => {
                segs.push(d(a, None));
                // body emits nothing; text trimmed or not is irrelevant
                segs.push(Seg::Delim { lt: false, rt: false, prints: None });
                segs.push(d(b, None));
            }
        }
    }
}

fn is_trim_ws(c: char) -> bool {
    c == ' ' || c == '\t' || c == '\n' || c == '\r'
}

/// the prediction: a text segment loses its trailing whitespace run iff the next delimiter has a
/// left marker and its leading run iff the previous delimiter has a right marker; nothing else
pub fn predict(items: &[Item]) -> String {
    predict_with(items, is_trim_ws)
}

fn predict_with(items: &[Item], is_ws: fn(char) -> bool) -> String {
    let mut segs = Vec::new();
    flatten(items, &mut segs);
    // merge adjacent texts
    let mut merged: Vec<Seg> = Vec::new();
    for s in segs {
        match (merged.last_mut(), &s) {
            (Some(Seg::Text(a)), Seg::Text(b)) => a.push_str(b),
            _ => merged.push(s),
        }
    }
    let mut out = String::new();
    for i in 0..merged.len() {
        match &merged[i] {
            Seg::Delim { prints, .. } => {
                if let Some(p) = prints {
                    out.push_str(p);
                }
            }
            Seg::Text(t) => {
                let mut s: &str = t;
                if i > 0 {
                    if let Seg::Delim { rt: true, .. } = merged[i - 1] {
                        s = s.trim_start_matches(is_ws);
                    }
                }
                if i + 1 < merged.len() {
                    if let Seg::Delim { lt: true, .. } = merged[i + 1] {
                        s = s.trim_end_matches(is_ws);
                    }
                }
                out.push_str(s);
            }
        }
    }
    out
}

const WS: [&str; 5] = [" ", "\t", "\n", "\r", "\r\n"];
const TEXT_ATOMS: [&str; 27] = [
    "a", "B", "é", "👍", "\u{a0}", "\u{3000}", "{", "}", "%", "'", "\"", "-", "|", "x y", " ", "\t", "\n", "\r\n", "}}", "%}", "-}", "e\u{301}",
    // invisible / exotic characters that are text, not trimmable whitespace
    "\u{feff}", "\u{200b}", "\u{2028}", "\u{85}", "\u{b}",
];

fn ws_run(r: &mut Rng) -> String {
    let n = r.below(5);
    (0..n).map(|_| r.choose(&WS)).collect()
}

/// text that is not markup: never contains `{{` / `{%`, never ends in `{`
fn gen_text(r: &mut Rng) -> String {
    let n = 1 + r.below(5);
    let mut s = String::new();
    if r.chance(1, 2) {
        s.push_str(&ws_run(r));
    }
    for _ in 0..n {
        s.push_str(r.choose(&TEXT_ATOMS));
    }
    if r.chance(1, 2) {
        s.push_str(&ws_run(r));
    }
    sanitize_text(&s)
}

fn sanitize_text(s: &str) -> String {
    let mut t = s.to_string();
    while t.contains("{{") || t.contains("{%") {
        t = t.replace("{{", "{ {").replace("{%", "{ %");
    }
    while t.ends_with('{') {
        t.push('.');
    }
    t
}

fn gen_d(r: &mut Rng) -> D {
    D { lt: r.chance(1, 2), rt: r.chance(1, 2), pl: r.below(4), pr: r.below(4) }
}

/// raw bodies: text, things that look like tags/outputs, unterminated markup — but no quote
/// character inside markup-looking text (that is the separately labelled sub-family) and not the
/// closing tag itself
fn gen_raw_body(r: &mut Rng) -> String {
    let atoms = ["x", " ", "\n", "\t", "\r\n", "\r", "{{ x -}}", "{% y -%}", "{{ a }}", "{% if b %}", "{%- assign q = 1 -%}", "{{", "{%", "}}", "%}", "{{ a | upcase", "{% endif %}", "{% raw %}", "é", "{", "}", "  ", "{{- 1 -}}", "{% comment %}", "\u{a0}",
        // closing-tag look-alikes (a closing tag carrying arguments is body text) and white space the grammar treats as text
        "{% endraw x %}", "{%- endraw , -%}", "{% endraw 1 %}", "{% endrawx %}", "{{ endraw }}", "\u{2003}", "\u{3000}", "\u{2028}", "\u{85}", "\u{c}", "\u{b}", "\u{feff}"];
    let n = r.below(6);
    (0..n).map(|_| r.choose(&atoms)).collect()
}

/// comment bodies: arbitrary text, invalid output tags, well-formed programs with side effects,
/// nested comments (no unbalanced block openers: those belong to C01)
fn gen_comment_body(r: &mut Rng) -> String {
    let atoms = [
        "note", " ", "\n", "{{ a | nofilter }}", "{{ }}", "{% assign vv = 2 %}", "{% increment nn %}", "{% comment %}inner{% endcomment %}",
        "{% if true %}{% assign vv = 3 %}{% endif %}", "{{ vv }}", "é", "{% capture vv %}zz{% endcapture %}", "{%- decrement nn -%}", "}}", "%}", "{% unknowntag %}",
    ];
    let n = r.below(6);
    (0..n).map(|_| r.choose(&atoms)).collect()
}

fn gen_items(r: &mut Rng, depth: usize, max: usize) -> Vec<Item> {
    let n = 1 + r.below(max);
    let mut v = Vec::new();
    for _ in 0..n {
        let k = r.below(if depth >= 2 { 5 } else { 10 });
        v.push(match k {
            0 | 1 => Item::Text(gen_text(r)),
            2 => Item::Out(gen_d(r), r.choose(&["o", "", " p ", "é"]).to_string()),
            3 => Item::Assign(gen_d(r)),
            4 => Item::Raw(gen_d(r), gen_d(r), gen_raw_body(r)),
            5 => Item::Comment(gen_d(r), gen_d(r), gen_comment_body(r)),
            6 => Item::IfTrue(gen_d(r), gen_d(r), gen_items(r, depth + 1, 3)),
            7 => Item::ForOne(gen_d(r), gen_d(r), gen_items(r, depth + 1, 3)),
            8 => Item::CapturePrint(gen_d(r), gen_d(r), gen_d(r), gen_items(r, depth + 1, 3)),
            _ => Item::Text(gen_text(r)),
        });
    }
    v
}

fn has_comment(items: &[Item]) -> bool {
    items.iter().any(|i| match i {
        Item::Comment(..) => true,
        Item::IfTrue(_, _, b) | Item::ForOne(_, _, b) | Item::CapturePrint(_, _, _, b) => has_comment(b),
        _ => false,
    })
}

fn nontrivial(items: &[Item]) -> bool {
    let mut segs = Vec::new();
    flatten(items, &mut segs);
    segs.windows(2).any(|w| matches!((&w[0], &w[1]), (Seg::Text(t), Seg::Delim { .. }) | (Seg::Delim { .. }, Seg::Text(t)) if !t.is_empty()))
}

struct Env {
    parser: liquid::Parser,
    globals: Object,
}

fn check(ctx: &mut Ctx, env: &Env, items: &[Item], family: &str) {
    let mut src = String::new();
    source(items, &mut src);
    let mut want = predict(items);
    // comments must have no effect: wrap with a probe of the variables their bodies touch
    let probe = has_comment(items);
    if probe {
        src = format!("{{% assign vv = 1 %}}{src}|{{{{ vv }}}}|{{% increment nn %}}");
        want = format!("{want}|1|0");
    }
    let h = hash_str(&src);
    if !ctx.mine(h) {
        return;
    }
    ctx.set_progress(&src);
    let replay = || json!({"kind": "c03", "template": src, "expected": want, "family": family});
    let t = match crate::mon::guard(|| env.parser.parse(&src)) {
        Ok(Ok(t)) => t,
        Ok(Err(e)) => {
            ctx.record(h, nontrivial(items));
            ctx.violation(
                &format!("{family}:well-formed-template-rejected"),
                &format!("generated template rejected: {}", e.to_string().lines().next().unwrap_or("")),
                replay,
            );
            return;
        }
        Err(p) => {
            ctx.violation(&p.key(), &format!("parse panicked: {}", p.msg), replay);
            return;
        }
    };
    let out = render(&t, &env.globals);
    ctx.record(h, nontrivial(items));
    ctx.count(&format!("family:{family}"));
    match &out {
        Out::Ok(got) => {
            if got != &want {
                let key = classify(items, probe, got, family);
                ctx.violation(&key, &format!("template {src:?} rendered {got:?}, structure predicts {want:?}"), replay);
            }
        }
        Out::Err(e) => ctx.violation(&format!("{family}:render-error"), &format!("template {src:?} failed to render: {e}"), replay),
        Out::Panic(p) => ctx.violation(&p.key(), &format!("render panicked: {}", p.msg), replay),
        Out::BadUtf8(_) => ctx.violation("non-utf8-output", "bad utf8", replay),
    }
    ctx.sample(|| json!({"family": family, "template": src, "expected": want}));
}

/// defect-class key for a wrong output
fn classify(items: &[Item], probe: bool, got: &str, family: &str) -> String {
    // defect model "tab next to a trim marker survives": the observed output equals the
    // prediction made with a whitespace class that lacks the tab
    fn no_tab(c: char) -> bool {
        c == ' ' || c == '\n' || c == '\r'
    }
    let mut alt = predict_with(items, no_tab);
    if probe {
        alt.push_str("|1|0");
    }
    if alt == got {
        return "trim:tab-not-trimmed".to_string();
    }
    format!("{family}:output-differs-from-structure")
}

pub fn run(ctx: &mut Ctx) {
    ctx.start_watchdog(120);
    let mut globals = Object::new();
    globals.insert("a".into(), liquid::model::Value::scalar("A"));
    let env = Env { parser: parser(Config::Stdlib), globals };

    // (1) exhaustive single-item core: left ws run x right ws run x markers x item kind
    let mut runs: Vec<String> = vec![String::new()];
    let ws4 = [" ", "\t", "\n", "\r"];
    for a in ws4 {
        runs.push(a.to_string());
        for b in ws4 {
            runs.push(format!("{a}{b}"));
        }
    }
    runs.extend(["\r\n\r\n".to_string(), "  \n\t".to_string(), "\n\n\n\n".to_string(), "\t \t ".to_string(), "\u{a0}".to_string(), " \u{3000} ".to_string(), "\u{a0} ".to_string(), " \u{a0}".to_string()]);
    let pads = if ctx.quick() { vec![(1usize, 1usize)] } else { vec![(0, 0), (1, 1), (3, 0), (0, 2)] };
    for l in &runs {
        for r_ in &runs {
            for bits in 0..16u32 {
                for (pl, pr) in &pads {
                    let d1 = D { lt: bits & 1 != 0, rt: bits & 2 != 0, pl: *pl, pr: *pr };
                    let d2 = D { lt: bits & 4 != 0, rt: bits & 8 != 0, pl: *pr, pr: *pl };
                    let left = Item::Text(format!("a{l}"));
                    let right = Item::Text(format!("{r_}b"));
                    let inner_ws = |s: &str| vec![Item::Text(format!("{r_}{s}{l}"))];
                    let mut kinds: Vec<Item> = vec![
                        Item::IfTrue(d1, d2, inner_ws("m")),
                        Item::ForOne(d1, d2, inner_ws("m")),
                        Item::Raw(d1, d2, format!("{r_}{{{{ m }}}}{l}")),
                        Item::Comment(d1, d2, format!("{r_}m{l}")),
                    ];
                    if bits < 4 {
                        kinds.push(Item::Out(d1, "o".into()));
                        kinds.push(Item::Assign(d1));
                    }
                    if bits < 4 || !ctx.quick() {
                        kinds.push(Item::CapturePrint(d1, d2, D { lt: bits & 2 != 0, rt: bits & 1 != 0, pl: 1, pr: 1 }, inner_ws("m")));
                    }
                    for k in kinds {
                        check(ctx, &env, &[left.clone(), k, right.clone()], "single-item-exhaustive");
                    }
                }
            }
        }
    }
    // (2) random multi-item templates
    let n = ctx.scale(60_000u64, 1_000_000u64);
    let rng = ctx.rng("c03-multi");
    for i in 0..n {
        let mut r = rng.fork(i);
        let items = gen_items(&mut r, 0, 5);
        check(ctx, &env, &items, "multi-item-random");
    }
    // (3) no markup => identity
    let n = ctx.scale(30_000u64, 300_000u64);
    let rng = ctx.rng("c03-identity");
    for i in 0..n {
        let mut r = rng.fork(i);
        let k = 1 + r.below(6);
        let text: String = (0..k).map(|_| gen_text(&mut r)).collect();
        let text = sanitize_text(&text);
        let h = hash_str(&format!("id:{text}"));
        if !ctx.mine(h) {
            continue;
        }
        let nt = text.chars().any(|c| "{}%'\"-".contains(c) || c.is_whitespace());
        match env.parser.parse(&text) {
            Ok(t) => {
                let out = render(&t, &env.globals);
                ctx.record(h, nt);
                ctx.count("family:identity");
                if out.ok() != Some(text.as_str()) {
                    ctx.violation("identity:markup-free-text-changed", &format!("text {text:?} rendered as {:?}", out.summary()), || {
                        json!({"kind": "c03", "template": text, "expected": text, "family": "identity"})
                    });
                }
            }
            Err(e) => {
                ctx.record(h, nt);
                ctx.violation("identity:markup-free-text-rejected", &format!("text {text:?} rejected: {}", e.to_string().lines().next().unwrap_or("")), || {
                    json!({"kind": "c03", "template": text, "expected": text, "family": "identity"})
                });
            }
        }
    }
    // (4) labelled sub-family: a string-literal opener inside a raw/comment body that pairs with
    // a quote after the closing tag (kept apart so that it neither pollutes nor hides behind the
    // main family)
    let quote_cases: [(&str, &str); 6] = [
        ("{% raw %}{{ \"a{% endraw %}b\" }}", "{{ \"ab\" }}"),
        ("{% raw %}{{ 'a{% endraw %}b' }}", "{{ 'ab' }}"),
        ("{% raw %}{% if \"a{% endraw %}b\" %}", "{% if \"ab\" %}"),
        ("{% raw %}x {{ 'q {% endraw %} y ' }} z", "x {{ 'q  y ' }} z"),
        ("{% comment %}{{ \"a{% endcomment %}b\" }}", "b\" }}"),
        ("{% comment %}{{ 'a{% endcomment %}b' }}c", "b' }}c"),
    ];
    if ctx.shard == 0 {
        for (src, want) in quote_cases {
            let h = hash_str(src);
            let got = match env.parser.parse(src) {
                Ok(t) => render(&t, &env.globals).summary(),
                Err(e) => format!("parse-error:{}", e.to_string().lines().next().unwrap_or("")),
            };
            ctx.record(h, true);
            ctx.count("family:quote-across-closing-tag");
            if got != format!("ok:{want}") {
                ctx.violation(
                    "raw-or-comment:string-literal-spans-closing-tag",
                    &format!("template {src:?}: the body is merely unterminated markup, expected output {want:?}, got {got:?}"),
                    || json!({"kind": "c03", "template": src, "expected": want, "family": "quote-across-closing-tag"}),
                );
            }
        }
    }
}

pub fn replay(j: &serde_json::Value) -> bool {
    let p = parser(Config::Stdlib);
    let src = j["template"].as_str().unwrap_or("");
    let want = j["expected"].as_str().unwrap_or("");
    let mut globals = Object::new();
    globals.insert("a".into(), liquid::model::Value::scalar("A"));
    println!("template = {src:?}\nexpected = {want:?}");
    match p.parse(src) {
        Ok(t) => {
            let out = render(&t, &globals);
            println!("observed = {:?}", out.summary());
            out.ok() != Some(want)
        }
        Err(e) => {
            println!("observed = parse error: {}", e.to_string().lines().next().unwrap_or(""));
            true
        }
    }
}
