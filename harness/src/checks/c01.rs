//! C01 — parsing is total.
use crate::cfg::{parser, Config};
use crate::ctx::Ctx;
use crate::gen::ast::{to_source, Node, Style};
use crate::gen::prog::{Gen, Opts};
use crate::mon::guard;
use crate::rng::{hash_combine, hash_str, Rng};
use liquid::Parser;
use serde_json::json;

pub const TOKENS: &[&str] = &[
    // delimiters
    "{{", "{{-", "}}", "-}}", "{%", "{%-", "%}", "-%}",
    // tags and blocks with their inner keywords
    "assign", "capture", "endcapture", "increment", "decrement", "cycle", "include", "render",
    "break", "continue", "raw", "endraw", "comment", "endcomment", "if", "elsif", "else", "endif",
    "unless", "endunless", "case", "when", "endcase", "for", "endfor", "tablerow", "endtablerow",
    "ifchanged", "endifchanged",
    "in", "limit:", "offset:", "reversed", "cols:", "with", "as",
    // operators and punctuation
    "==", "!=", "<>", "<", ">", "<=", ">=", "contains", "and", "or", "=", ",", ":", "|", ".",
    "[", "]", "(", ")", "..",
    // literals
    "0", "-1", "+5", "007", "1.5", "99999999999999999999", "-99999999999999999999", "'a'",
    "\"b\"", "'", "\"", "nil", "true", "empty", "blank",
    // identifiers, filters, text
    "x", "a.b", "upcase", "append", "é", "👍", "\t", "\n", "{", "}", "%", "-",
    // case variants of the literal keywords and identifiers that merely start with one (the
    // grammar matches literals as prefixes; conversion assumes the exact lower-case spelling)
    "True", "FALSE", "Nil", "NULL", "Empty", "BLANK", "trueish", "nilx", "x-",
];

pub const ELEMENTS: &[&str] = &[
    "{% comment %}", "{% endcomment %}", "{% raw %}", "{% endraw %}", "{% if x %}", "{% elsif y %}",
    "{% else %}", "{% endif %}", "{% unless x %}", "{% endunless %}", "{% for i in a %}",
    "{% endfor %}", "{% tablerow i in a %}", "{% endtablerow %}", "{% capture c %}",
    "{% endcapture %}", "{% case x %}", "{% when 1 %}", "{% endcase %}", "{% ifchanged %}",
    "{% endifchanged %}", "{% break %}", "{% assign a = 1 %}", "{% cycle 1, 2 %}", "{{ x }}",
    "{{ x | upcase }}", "{{", "{%", "text", "{% include 'p' %}", "'", "{%- endraw -%}",
    // multi-line string literals and quote fragments: an element that spans a line break, followed
    // by invalid markup on its last line, is what reaches the line-based strict re-parse of
    // InvalidLiquid tokens with a line prefix that can re-pair quotes
    "{{ \"\n", "\" }}", "{{ '\n", "' }}", "{{ ' }}", "{{ \" }}", "{{ x' }}", "{{ x\" }}", "\n", "{% if \"\n", "\" %}",
];

/// block openers of the element alphabet with the elements that close them
const OPENERS: &[(&str, &[&str])] = &[
    ("{% comment %}", &["{% endcomment %}"]),
    ("{% raw %}", &["{% endraw %}", "{%- endraw -%}"]),
    ("{% if x %}", &["{% endif %}"]),
    ("{% unless x %}", &["{% endunless %}"]),
    ("{% for i in a %}", &["{% endfor %}"]),
    ("{% tablerow i in a %}", &["{% endtablerow %}"]),
    ("{% capture c %}", &["{% endcapture %}"]),
    ("{% case x %}", &["{% endcase %}"]),
    ("{% ifchanged %}", &["{% endifchanged %}"]),
];

struct Parsers {
    stdlib: Parser,
    full: Parser,
    empty: Parser,
    jekyll: Parser,
}

impl Parsers {
    fn get(&self, c: Config) -> &Parser {
        match c {
            Config::Stdlib => &self.stdlib,
            Config::Full => &self.full,
            Config::Empty => &self.empty,
            Config::Jekyll => &self.jekyll,
        }
    }
}

#[derive(Debug, Clone, Copy, PartialEq)]
pub enum Outcome {
    Ok,
    Err,
    Crash,
}

/// one monitored parse; returns the outcome after reporting violations of totality
fn observe(ctx: &mut Ctx, ps: &Parsers, cfg: Config, text: &str, family: &str) -> Outcome {
    ctx.set_progress(text);
    let h = hash_combine(hash_str(text), cfg as u64);
    let r = guard(|| ps.get(cfg).parse(text).map(|_| ()).map_err(|e| e.to_string()));
    let nontrivial = text.contains("{{") || text.contains("{%");
    ctx.record(h, nontrivial);
    ctx.count(&format!("family:{family}"));
    match r {
        Ok(Ok(())) => {
            ctx.count("outcome:accepted");
            Outcome::Ok
        }
        Ok(Err(msg)) => {
            ctx.count("outcome:rejected");
            if msg.lines().next().map(|l| l.trim().is_empty()).unwrap_or(true) {
                ctx.violation("empty-error-message", "parse returned an error without a message", || {
                    json!({"kind": "parse", "config": cfg.name(), "text": text})
                });
            }
            Outcome::Err
        }
        Err(p) => {
            ctx.count("outcome:panic");
            ctx.set_insert("panic_sites", hash_str(&p.site()));
            let key = p.key();
            ctx.violation(&key, &format!("Parser::parse panicked at {}: {}", p.site(), p.msg), || {
                json!({"kind": "parse", "config": cfg.name(), "text": text})
            });
            Outcome::Crash
        }
    }
}

fn sample_case(ctx: &mut Ctx, cfg: Config, text: &str, o: Outcome) {
    ctx.sample(|| json!({"config": cfg.name(), "text": text, "outcome": format!("{o:?}")}));
}

pub fn run(ctx: &mut Ctx) {
    let ps = Parsers {
        stdlib: parser(Config::Stdlib),
        full: parser(Config::Full),
        empty: parser(Config::Empty),
        jekyll: parser(Config::Jekyll),
    };
    ctx.start_watchdog(60);
    token_enumeration(ctx, &ps);
    element_enumeration(ctx, &ps);
    depth_sweep(ctx, &ps);
    random_soups(ctx, &ps);
    mutations(ctx, &ps);
    rejection(ctx, &ps);
    from_files(ctx, &ps);
    jekyll_include(ctx, &ps);
    contexts_wellformed(ctx, &ps);
    tag_arguments(ctx, &ps);
    ctx.extra.insert("token_alphabet".into(), json!(TOKENS.len()));
    ctx.extra.insert("element_alphabet".into(), json!(ELEMENTS.len()));
}

fn contexts_wellformed(ctx: &mut Ctx, ps: &Parsers) {
    for (pre, post) in CONTEXTS {
        for body in ["", "x", "{{ a }}", "{% assign q = 1 %}"] {
            let text = format!("{pre}{body}{post}");
            if observe(ctx, ps, Config::Stdlib, &text, "context-wellformed") != Outcome::Ok {
                ctx.violation("context:wellformed-rejected", &format!("well-formed block rejected: {text:?}"), || json!({"kind": "parse", "config": "stdlib", "text": text}));
            }
        }
    }
}

/// argument atoms for the per-tag argument enumeration: whole values (plain, dotted and indexed
/// variables, literals, ranges), separators, keywords and filter applications
const ARG_ATOMS: &[&str] = &[
    "x", "x.y", "x[0]", "x['k'].z", "'s'", "1", "-2.5", "true", "nil", "(1..3)", "(x..y.z)", ":", ",", "=", "in", "| f", "| upcase", "| append: x.y",
    "==", "contains", "and", "or", "with", "as", "for", "limit:", "offset:", "cols:", "reversed", "g:", "x.y:", "x[0]:", "'q':", "é",
];

/// every stdlib tag / block keyword with every argument list of up to N atoms (totality of the
/// argument parsers: plain, dotted and indexed variables where a name or a literal is expected, ...)
fn tag_arguments(ctx: &mut Ctx, ps: &Parsers) {
    const TAGS: &[(&str, &str, &str)] = &[
        ("assign", "", ""), ("increment", "", ""), ("decrement", "", ""), ("cycle", "", ""), ("include", "", ""), ("render", "", ""), ("break", "", ""), ("continue", "", ""),
        ("if", "", "{% endif %}"), ("unless", "", "{% endunless %}"), ("elsif", "{% if a %}", "{% endif %}"), ("else", "{% if a %}", "{% endif %}"),
        ("for", "", "{% endfor %}"), ("tablerow", "", "{% endtablerow %}"), ("capture", "", "{% endcapture %}"), ("case", "", "{% when 1 %}{% endcase %}"),
        ("when", "{% case a %}", "{% endcase %}"), ("ifchanged", "", "{% endifchanged %}"), ("raw", "", "{% endraw %}"), ("comment", "", "{% endcomment %}"),
        ("endif", "{% if a %}", ""), ("endfor", "{% for i in a %}", ""), ("endcase", "{% case a %}{% when 1 %}", ""),
    ];
    let l = ctx.scale(3usize, 4usize);
    let n = ARG_ATOMS.len();
    for len in 0..=l {
        let total = n.pow(len as u32);
        let mut idx = vec![0usize; len];
        for _ in 0..total {
            let args: Vec<&str> = idx.iter().map(|&i| ARG_ATOMS[i]).collect();
            let joined = args.join(" ");
            if ctx.mine(hash_str(&joined)) {
                for (tag, pre, post) in TAGS {
                    let text = format!("{pre}{{% {tag} {joined} %}}{post}");
                    let o = observe(ctx, ps, Config::Stdlib, &text, "tag-argument-enum");
                    sample_case(ctx, Config::Stdlib, &text, o);
                    if len <= 2 {
                        // the same tag inside a comment (parsed for side effects, errors ignored) and under the other configurations
                        observe(ctx, ps, Config::Stdlib, &format!("{{% comment %}}{text}{{% endcomment %}}"), "tag-argument-enum-in-comment");
                        observe(ctx, ps, Config::Jekyll, &text, "tag-argument-enum-jekyll");
                    }
                }
                // output expressions built from the same atoms
                let text = format!("{{{{ {joined} }}}}");
                observe(ctx, ps, Config::Stdlib, &text, "output-argument-enum");
            }
            for k in (0..len).rev() {
                idx[k] += 1;
                if idx[k] < n {
                    break;
                }
                idx[k] = 0;
            }
        }
    }
    ctx.extra.insert("tag_argument_atoms".into(), json!(ARG_ATOMS.len()));
    ctx.extra.insert("tag_argument_max_len".into(), json!(l));
}

/// argument tokens of the jekyll-style `{% include name k=v ... %}` tag (configuration `jekyll`)
const JEKYLL_ARGS: &[&str] = &[
    "p", "p.html", "'p'", "\"p q\"", "a", "b", "=", "1", "-2.5", "'v'", "x.y", "x[0]", "|", "upcase", ":", ",", "é", "==", "true", "nil", "..", "(", ")", "99999999999999999999",
];

/// every argument list of up to N tokens for the jekyll include tag, alone and between other
/// elements: totality; and its definite faults (no name; `k=` without a value; a value without `=`;
/// `=v` without a key) must be rejected wherever they stand
fn jekyll_include(ctx: &mut Ctx, ps: &Parsers) {
    let l = ctx.scale(3usize, 4usize);
    let n = JEKYLL_ARGS.len();
    for len in 0..=l {
        let total = n.pow(len as u32);
        let mut idx = vec![0usize; len];
        for _ in 0..total {
            let args: Vec<&str> = idx.iter().map(|&i| JEKYLL_ARGS[i]).collect();
            for (pre, post) in [("", ""), ("{% if x %}", "{% endif %}"), ("{% for i in a %}{{ i }}", "{% endfor %}tail")] {
                for sep in [" ", ""] {
                    let text = format!("{pre}{{% include {} %}}{post}", args.join(sep));
                    if ctx.mine(hash_str(&text)) {
                        let o = observe(ctx, ps, Config::Jekyll, &text, "jekyll-include-enum");
                        sample_case(ctx, Config::Jekyll, &text, o);
                    }
                    if len < 2 {
                        break;
                    }
                }
                if len == l {
                    break;
                }
            }
            for k in (0..len).rev() {
                idx[k] += 1;
                if idx[k] < n {
                    break;
                }
                idx[k] = 0;
            }
        }
    }
    const FAULTS: &[(&str, &str)] = &[
        ("jekyll-include-without-name", "{% include %}"),
        ("jekyll-include-key-without-value", "{% include p.html a= %}"),
        ("jekyll-include-key-without-value-after-a-pair", "{% include p.html a=1 b= %}"),
        ("jekyll-include-value-without-equals", "{% include p.html a 1 %}"),
        ("jekyll-include-value-without-key", "{% include p.html =1 %}"),
        ("jekyll-include-literal-as-key", "{% include p.html 'a'=1 %}"),
        ("jekyll-include-number-as-key", "{% include p.html 1=1 %}"),
        ("jekyll-include-colon-instead-of-equals", "{% include p.html a: 1 %}"),
        ("jekyll-include-doubled-equals", "{% include p.html a==1 %}"),
        ("jekyll-include-trailing-comma", "{% include p.html a=1, %}"),
        ("jekyll-include-unterminated-string-value", "{% include p.html a='v %}"),
        ("jekyll-include-unclosed-tag", "{% include p.html a=1"),
    ];
    for (name, fault) in FAULTS {
        for (pre, post) in [("", ""), ("text {{ x }}", "{{ y }}"), ("{% if x %}", "{% endif %}"), ("{% for i in a %}", "{% else %}e{% endfor %}"), ("{% capture c %}", "{% endcapture %}{{ c }}")] {
            let text = format!("{pre}{fault}{post}");
            let o = observe(ctx, ps, Config::Jekyll, &text, "jekyll-include-fault");
            ctx.count(&format!("fault:{name}"));
            if o == Outcome::Ok {
                ctx.violation(
                    &format!("accepted-invalid:{name}"),
                    &format!("text with a definite fault ({name}) was accepted under the jekyll configuration: {text:?}"),
                    || json!({"kind": "parse", "config": "jekyll", "text": text}),
                );
            }
        }
    }
    // the well-formed spellings must be accepted (guards the fault list against a parser that rejects everything)
    for good in ["{% include p.html %}", "{% include 'p' %}", "{% include p.html a=1 %}", "{% include p.html a=1 b='v' c=x.y %}", "{% include p a = 1 %}"] {
        let o = observe(ctx, ps, Config::Jekyll, good, "jekyll-include-wellformed");
        if o == Outcome::Err {
            ctx.violation("jekyll-include:wellformed-rejected", &format!("well-formed jekyll include rejected: {good:?}"), || {
                json!({"kind": "parse", "config": "jekyll", "text": good})
            });
        }
    }
}

/// `Parser::parse_file`: the same verdict as `parse` on the file's text; a missing file and a file
/// that is not UTF-8 are errors, never panics
fn from_files(ctx: &mut Ctx, ps: &Parsers) {
    let dir = match &ctx.out {
        Some(o) => std::path::Path::new(o).parent().map(|p| p.to_path_buf()).unwrap_or_else(std::env::temp_dir),
        None => std::env::temp_dir(),
    };
    let path = dir.join(format!("c01-parse-file-{}-{}.liquid", std::process::id(), ctx.shard));
    let n = ctx.scale(300u64, 3_000u64);
    let rng = ctx.rng("c01-files");
    for i in 0..n {
        if !ctx.mine_idx(i) {
            continue;
        }
        let mut r = rng.fork(i);
        let k = 1 + r.below(8);
        let text: String = (0..k).map(|_| r.choose(ELEMENTS)).collect::<Vec<_>>().join(r.choose(&["", " ", "\n"]));
        // every third case: bytes that are not UTF-8
        let bytes: Vec<u8> = if i % 3 == 2 {
            let mut b = text.clone().into_bytes();
            let pos = r.below(b.len() + 1);
            b.insert(pos, r.choose(&[0xffu8, 0xc3, 0x80, 0xed]));
            if String::from_utf8(b.clone()).is_ok() {
                b.push(0xff);
            }
            b
        } else {
            text.clone().into_bytes()
        };
        if std::fs::write(&path, &bytes).is_err() {
            ctx.inconclusive.push("cannot write scratch file for parse_file".into());
            return;
        }
        let valid = String::from_utf8(bytes.clone()).ok();
        let direct = valid.as_ref().map(|t| guard(|| ps.stdlib.parse(t).map(|_| ()).map_err(|e| e.to_string())));
        let via_file = guard(|| ps.stdlib.parse_file(&path).map(|_| ()).map_err(|e| e.to_string()));
        ctx.record(hash_str(&format!("file:{:?}", bytes)), true);
        ctx.count("family:parse_file");
        let replay = || json!({"kind": "parse", "config": "stdlib", "text": String::from_utf8_lossy(&bytes), "via": "parse_file"});
        match (&via_file, &direct) {
            (Err(p), _) => ctx.violation(&p.key(), &format!("Parser::parse_file panicked at {}: {}", p.site(), p.msg), replay),
            (Ok(Ok(())), None) => ctx.violation("parse_file:accepts-non-utf8", "parse_file accepted a file that is not UTF-8", replay),
            (Ok(Err(_)), None) => ctx.count("parse_file:non-utf8-rejected"),
            (Ok(f), Some(Ok(d))) => {
                if f.is_ok() != d.is_ok() {
                    ctx.violation("parse_file:differs-from-parse", &format!("parse_file says {f:?}, parse of the same text says {d:?}"), replay);
                } else {
                    ctx.count("parse_file:same-verdict-as-parse");
                }
            }
            (Ok(_), Some(Err(_))) => {}
        }
    }
    let _ = std::fs::remove_file(&path);
    let missing = dir.join("c01-no-such-file.liquid");
    match guard(|| ps.stdlib.parse_file(&missing).is_ok()) {
        Ok(false) => ctx.count("parse_file:missing-file-rejected"),
        Ok(true) => ctx.violation("parse_file:accepts-missing-file", "parse_file of a path that does not exist succeeded", || json!({"kind": "parse", "config": "stdlib", "text": ""})),
        Err(p) => ctx.violation(&p.key(), &format!("parse_file of a missing file panicked: {}", p.msg), || json!({"kind": "parse", "config": "stdlib", "text": ""})),
    }
}

fn token_enumeration(ctx: &mut Ctx, ps: &Parsers) {
    let l_std = ctx.scale(3usize, 4usize);
    let n = TOKENS.len();
    for len in 1..=l_std {
        let total = n.pow(len as u32);
        let mut idx = vec![0usize; len];
        for _ in 0..total {
            for sep in ["", " "] {
                let mut text = String::new();
                for (k, &i) in idx.iter().enumerate() {
                    if k > 0 {
                        text.push_str(sep);
                    }
                    text.push_str(TOKENS[i]);
                }
                if ctx.mine(hash_str(&text)) {
                    let o = observe(ctx, ps, Config::Stdlib, &text, "token-enum");
                    sample_case(ctx, Config::Stdlib, &text, o);
                    if len < l_std {
                        observe(ctx, ps, Config::Full, &text, "token-enum-full");
                        observe(ctx, ps, Config::Empty, &text, "token-enum-empty");
                    }
                }
                if len == 1 {
                    break;
                }
            }
            // increment odometer
            for k in (0..len).rev() {
                idx[k] += 1;
                if idx[k] < n {
                    break;
                }
                idx[k] = 0;
            }
        }
    }
    ctx.extra.insert("token_enum_max_len".into(), json!(l_std));
}

fn element_enumeration(ctx: &mut Ctx, ps: &Parsers) {
    let l = ctx.scale(4usize, 5usize);
    let n = ELEMENTS.len();
    for len in 1..=l {
        let total = n.pow(len as u32);
        let mut idx = vec![0usize; len];
        for _ in 0..total {
            let mut text = String::new();
            for &i in &idx {
                text.push_str(ELEMENTS[i]);
            }
            if ctx.mine(hash_str(&text)) {
                let o = observe(ctx, ps, Config::Stdlib, &text, "element-enum");
                sample_case(ctx, Config::Stdlib, &text, o);
                // rejection oracle, definite by construction: the first element opens block X and
                // no element anywhere is X's closing tag, so X is unclosed whatever else follows
                if let Some((_, closers)) = OPENERS.iter().find(|(op, _)| *op == ELEMENTS[idx[0]]) {
                    if !idx.iter().any(|&i| closers.contains(&ELEMENTS[i])) {
                        ctx.count("fault:block-never-closed");
                        if o == Outcome::Ok {
                            ctx.violation(
                                "accepted-invalid:block-never-closed",
                                &format!("a template whose outermost block {:?} is never closed was accepted", ELEMENTS[idx[0]]),
                                || json!({"kind": "parse", "config": "stdlib", "text": text, "fault": "block-never-closed"}),
                            );
                        }
                    }
                }
            }
            for k in (0..len).rev() {
                idx[k] += 1;
                if idx[k] < n {
                    break;
                }
                idx[k] = 0;
            }
        }
    }
    ctx.extra.insert("element_enum_max_len".into(), json!(l));
}

const BLOCKS: &[(&str, &str)] = &[
    ("{% if x %}", "{% endif %}"),
    ("{% unless x %}", "{% endunless %}"),
    ("{% for i in a %}", "{% endfor %}"),
    ("{% tablerow i in a %}", "{% endtablerow %}"),
    ("{% case x %}{% when 1 %}", "{% endcase %}"),
    ("{% capture c %}", "{% endcapture %}"),
    ("{% ifchanged %}", "{% endifchanged %}"),
    ("{% comment %}", "{% endcomment %}"),
    ("{% raw %}", "{% endraw %}"),
];

fn depth_sweep(ctx: &mut Ctx, ps: &Parsers) {
    let depths: Vec<usize> = if ctx.quick() {
        vec![1, 2, 3, 8, 32]
    } else {
        (1..=32).collect()
    };
    for (ia, a) in BLOCKS.iter().enumerate() {
        for (ib, b) in BLOCKS.iter().enumerate() {
            for &d in &depths {
                let kinds: Vec<&(&str, &str)> = (0..d).map(|k| if k % 2 == 0 { a } else { b }).collect();
                let open: String = kinds.iter().map(|k| format!("{}t", k.0)).collect();
                // closed properly
                let close_all: String = kinds.iter().rev().map(|k| k.1).collect();
                let mut variants = vec![format!("{open}{close_all}")];
                // unclosed at each level: drop the last m closers
                for m in 1..=d {
                    let closers: String = kinds.iter().rev().take(d - m).map(|k| k.1).collect();
                    variants.push(format!("{open}{closers}"));
                }
                // mis-nested: closers in opening order
                if d >= 2 && ia != ib {
                    let wrong: String = kinds.iter().map(|k| k.1).collect();
                    variants.push(format!("{open}{wrong}"));
                }
                for v in variants {
                    if ctx.mine(hash_str(&v)) {
                        let o = observe(ctx, ps, Config::Stdlib, &v, "depth-sweep");
                        if d == 32 {
                            sample_case(ctx, Config::Stdlib, &v, o);
                        }
                    }
                }
            }
        }
    }
}

fn random_soups(ctx: &mut Ctx, ps: &Parsers) {
    let n = ctx.scale(60_000u64, 2_000_000u64);
    let mut rng = ctx.rng("c01-soup");
    for i in 0..n {
        let len = 5 + rng.below(36);
        let mut text = String::new();
        for _ in 0..len {
            text.push_str(rng.choose(TOKENS));
            if rng.chance(1, 2) {
                text.push(' ');
            }
        }
        if !ctx.mine_idx(i) {
            continue;
        }
        let cfg = *rng.clone().pick(&[Config::Stdlib, Config::Stdlib, Config::Full, Config::Empty]);
        let o = observe(ctx, ps, cfg, &text, "random-soup");
        sample_case(ctx, cfg, &text, o);
    }
}

fn wellformed(rng: &mut Rng, with_raw_comment: bool) -> Vec<Node> {
    let o = Opts {
        max_depth: 4,
        max_len: 4,
        partials: vec!["p0".into()],
        allow_partials: true,
        ..Opts::default()
    };
    let mut g = Gen::new(rng, o);
    let mut nodes = g.block(0, &[]);
    if !with_raw_comment {
        strip_raw_comment(&mut nodes);
    }
    nodes
}

fn strip_raw_comment(nodes: &mut Vec<Node>) {
    for n in nodes.iter_mut() {
        match n {
            Node::Raw(_) | Node::Comment(_) => *n = Node::Text("rc".into()),
            Node::Capture(_, b) | Node::IfChanged(b) => strip_raw_comment(b),
            Node::For { body, else_, .. } => {
                strip_raw_comment(body);
                if let Some(e) = else_ {
                    strip_raw_comment(e)
                }
            }
            Node::TableRow { body, .. } => strip_raw_comment(body),
            Node::If { arms, else_ } => {
                for (_, b) in arms {
                    strip_raw_comment(b)
                }
                if let Some(e) = else_ {
                    strip_raw_comment(e)
                }
            }
            Node::Unless { body, else_, .. } => {
                strip_raw_comment(body);
                if let Some(e) = else_ {
                    strip_raw_comment(e)
                }
            }
            Node::Case { arms, else_, .. } => {
                for (_, _, b) in arms {
                    strip_raw_comment(b)
                }
                if let Some(e) = else_ {
                    strip_raw_comment(e)
                }
            }
            _ => {}
        }
    }
}

fn mutations(ctx: &mut Ctx, ps: &Parsers) {
    let n = ctx.scale(6_000u64, 150_000u64);
    let mut rng = ctx.rng("c01-mut");
    for i in 0..n {
        let mut r = rng.fork(i);
        rng.next();
        if !ctx.mine_idx(i) {
            continue;
        }
        let nodes = wellformed(&mut r, true);
        let src = to_source(&nodes, &mut Style::random(r.fork(1)));
        let o = observe(ctx, ps, Config::Stdlib, &src, "wellformed-base");
        if o == Outcome::Err {
            ctx.count("wellformed-base-rejected");
        }
        let chars: Vec<char> = src.chars().collect();
        if chars.is_empty() {
            continue;
        }
        for _ in 0..8 {
            let mut c = chars.clone();
            let pos = r.below(c.len());
            match r.below(5) {
                0 => {
                    c.remove(pos);
                }
                1 => {
                    let ch = c[pos];
                    c.insert(pos, ch);
                }
                2 => {
                    if pos + 1 < c.len() {
                        c.swap(pos, pos + 1);
                    }
                }
                3 => {
                    c[pos] = r.choose(&['{', '}', '%', '-', '\'', '"', '|', ':', ' ', 'é', '.', '[', '(']);
                }
                _ => {
                    // token-level: splice a random token in
                    let t: Vec<char> = r.choose(TOKENS).chars().collect();
                    for (k, ch) in t.into_iter().enumerate() {
                        c.insert((pos + k).min(c.len()), ch);
                    }
                }
            }
            let text: String = c.into_iter().collect();
            let o = observe(ctx, ps, Config::Stdlib, &text, "mutation");
            sample_case(ctx, Config::Stdlib, &text, o);
        }
    }
}

/// block bodies in which a body element may stand: (text before, text after); each is accepted with
/// an innocuous body (checked at start-up by `contexts_wellformed`)
const CONTEXTS: &[(&str, &str)] = &[
    ("{% if a %}", "{% endif %}"),
    ("{% if a %}t{% else %}", "{% endif %}"),
    ("{% if a %}t{% elsif b %}", "{% else %}e{% endif %}"),
    ("{% unless a %}", "{% endunless %}"),
    ("{% unless a %}t{% else %}", "{% endunless %}"),
    ("{% for i in a %}", "{% endfor %}"),
    ("{% for i in a %}t{% else %}", "{% endfor %}"),
    ("{% tablerow i in a %}", "{% endtablerow %}"),
    ("{% capture q %}", "{% endcapture %}"),
    ("{% ifchanged %}", "{% endifchanged %}"),
    ("{% case a %}", "{% when 1 %}w{% endcase %}"),
    ("{% case a %}{% when 1 %}", "{% endcase %}"),
    ("{% case a %}{% when 1 %}w{% when 2, 3 %}", "{% else %}e{% endcase %}"),
    ("{% case a %}{% when 1 %}w{% else %}", "{% endcase %}"),
];

/// Faults whose invalidity is known by construction; (name, text, must_be_last)
const FAULTS: &[(&str, &str, bool)] = &[
    ("unknown-tag", "{% nosuchtag %}", false),
    ("unknown-filter", "{{ a | nosuchfilter }}", false),
    ("excess-filter-argument", "{{ a | upcase: 1 }}", false),
    ("missing-filter-argument", "{{ a | append }}", false),
    ("unknown-keyword-argument", "{{ a | append: zz: 1 }}", false),
    // right positional arity plus a named argument the filter does not have
    ("unknown-keyword-argument-after-positionals", "{{ a | append: 'x', zz: 1 }}", false),
    ("unknown-keyword-argument-before-positionals", "{{ 1 | plus: zz: 3, 2 }}", false),
    ("unknown-keyword-argument-two-positionals", "{{ a | replace: 'x', 'y', zz: 1 }}", false),
    // an unknown filter is an unknown filter wherever it is written
    ("unknown-filter-on-assign-target", "{% assign q | nosuchfilter = 1 %}", false),
    ("unknown-filter-on-capture-name", "{% capture q | nosuchfilter %}x{% endcapture %}", false),
    ("unknown-filter-on-counter-name", "{% increment q | nosuchfilter %}", false),
    ("unknown-filter-on-loop-variable", "{% for i | nosuchfilter in (1..2) %}{% endfor %}", false),
    ("unknown-filter-in-assign-value", "{% assign q = a | nosuchfilter %}", false),
    ("unknown-filter-in-condition", "{% if a | nosuchfilter %}{% endif %}", false),
    ("unclosed-if", "{% if a %}x", false),
    ("unclosed-for", "{% for i in a %}x", false),
    ("unclosed-capture", "{% capture q %}x", false),
    ("unclosed-case", "{% case a %}{% when 1 %}x", false),
    ("stray-endif", "{% endif %}", false),
    ("stray-endfor", "{% endfor %}", false),
    ("stray-else", "{% else %}", false),
    ("stray-when", "{% when 1 %}", false),
    ("stray-elsif", "{% elsif a %}", false),
    ("unterminated-string", "{{ 'abc }}", true),
    ("unterminated-dstring", "{{ \"abc }}", true),
    ("unclosed-output", "{{ a", true),
    ("unclosed-tag", "{% assign a = 1", true),
    ("malformed-literal", "{{ 1.2.3.4 | }}", false),
    ("assign-without-value", "{% assign a = %}", false),
    ("for-without-in", "{% for i a %}{% endfor %}", false),
    // missing / doubled / trailing pieces in the argument lists of the library's tags and blocks, and
    // faults behind an `else` (each confirmed rejected by the unchanged parser; the lenient spellings
    // `{% cycle 1, %}`, `{% render 'p', %}` and `{% else x %}` are accepted and are not listed)
    ("cycle-group-without-values", "{% cycle g: %}", false),
    ("cycle-quoted-group-without-values", "{% cycle 'g': %}", false),
    ("cycle-without-values", "{% cycle %}", false),
    ("cycle-leading-comma", "{% cycle , 1 %}", false),
    ("cycle-double-comma", "{% cycle 1,, 2 %}", false),
    ("case-without-target", "{% case %}{% when 1 %}{% endcase %}", false),
    ("when-without-value", "{% case a %}{% when %}{% endcase %}", false),
    ("when-trailing-comma", "{% case a %}{% when 1, %}{% endcase %}", false),
    ("when-trailing-or", "{% case a %}{% when 1 or %}{% endcase %}", false),
    ("if-without-condition", "{% if %}{% endif %}", false),
    ("unless-without-condition", "{% unless %}{% endunless %}", false),
    ("elsif-without-condition", "{% if a %}{% elsif %}{% endif %}", false),
    ("if-dangling-operator", "{% if a == %}{% endif %}", false),
    ("if-dangling-and", "{% if a and %}{% endif %}", false),
    ("if-leading-or", "{% if or a %}{% endif %}", false),
    ("if-two-values", "{% if a b %}{% endif %}", false),
    ("capture-without-name", "{% capture %}{% endcapture %}", false),
    ("capture-two-names", "{% capture a b %}{% endcapture %}", false),
    ("increment-without-name", "{% increment %}", false),
    ("decrement-without-name", "{% decrement %}", false),
    ("increment-two-names", "{% increment a b %}", false),
    ("include-without-name", "{% include %}", false),
    ("render-without-name", "{% render %}", false),
    ("include-dangling-comma", "{% include 'p', %}", false),
    ("render-key-without-value", "{% render 'p', a: %}", false),
    ("include-key-without-value", "{% include 'p' a: %}", false),
    ("render-with-without-value", "{% render 'p' with %}", false),
    ("render-for-without-value", "{% render 'p' for %}", false),
    ("render-as-without-alias", "{% render 'p' with a as %}", false),
    ("for-without-collection", "{% for i in %}{% endfor %}", false),
    ("for-without-variable", "{% for in a %}{% endfor %}", false),
    ("for-limit-without-value", "{% for i in a limit: %}{% endfor %}", false),
    ("for-offset-without-value", "{% for i in a offset: %}{% endfor %}", false),
    ("for-unknown-parameter", "{% for i in a zzz: 1 %}{% endfor %}", false),
    ("for-open-range", "{% for i in (1..) %}{% endfor %}", false),
    ("tablerow-cols-without-value", "{% tablerow i in a cols: %}{% endtablerow %}", false),
    ("tablerow-without-collection", "{% tablerow i in %}{% endtablerow %}", false),
    ("assign-trailing-token", "{% assign a = 1 2 %}", false),
    ("assign-without-name", "{% assign = 1 %}", false),
    ("assign-without-equals", "{% assign a 1 %}", false),
    ("endif-with-argument", "{% if a %}{% endif x %}", false),
    ("endfor-with-argument", "{% for i in a %}{% endfor x %}", false),
    ("double-else", "{% if a %}{% else %}{% else %}{% endif %}", false),
    ("double-else-unless", "{% unless a %}{% else %}{% else %}{% endunless %}", false),
    ("elsif-after-else", "{% if a %}{% else %}{% elsif b %}{% endif %}", false),
    ("unless-else-unknown-tag", "{% unless a %}{% else %}{% nosuchtag %}{% endunless %}", false),
    ("unless-else-unknown-filter", "{% unless a %}{% else %}{{ a | nosuchfilter }}{% endunless %}", false),
    ("case-else-unknown-tag", "{% case a %}{% when 1 %}{% else %}{% nosuchtag %}{% endcase %}", false),
    ("for-else-unknown-tag", "{% for i in a %}{% else %}{% nosuchtag %}{% endfor %}", false),
    ("if-else-unknown-tag", "{% if a %}{% else %}{% nosuchtag %}{% endif %}", false),
    ("when-after-else", "{% case a %}{% else %}{% when 1 %}{% endcase %}", false),
    ("break-with-argument", "{% break x %}", false),
    ("continue-with-argument", "{% continue x %}", false),
    ("ifchanged-with-argument", "{% ifchanged x %}{% endifchanged %}", false),
    ("raw-with-argument", "{% raw x %}{% endraw %}", false),
    ("comment-with-argument", "{% comment x %}{% endcomment %}", false),
    ("filter-dangling-comma", "{{ a | append: 'x', }}", false),
    ("filter-dangling-colon", "{{ a | append: }}", false),
    ("filter-dangling-pipe", "{{ a | }}", false),
    ("empty-output", "{{ }}", false),
    ("empty-tag", "{% %}", false),
    ("index-unclosed", "{{ a[1 }}", false),
    ("index-empty", "{{ a[] }}", false),
    ("trailing-dot", "{{ a. }}", false),
    // a separator missing late in an argument list, stray tokens after complete arguments, and inner
    // keywords / closing tags of one block inside another (each confirmed rejected by the unchanged
    // parser; `{% include 'p' a: 1 2 %}` is accepted by it and is not listed)
    ("cycle-missing-comma-late", "{% cycle 'a', 'b' 'c' %}", false),
    ("cycle-group-missing-comma", "{% cycle g: 'a' x %}", false),
    ("cycle-missing-comma", "{% cycle 'a' 'b' %}", false),
    ("when-missing-separator", "{% case a %}{% when 1, 2 3 %}{% endcase %}", false),
    ("when-missing-separator-early", "{% case a %}{% when 1 2 %}{% endcase %}", false),
    ("render-missing-comma", "{% render 'p', a: 1 b: 2 %}", false),
    ("render-missing-first-comma", "{% render 'p' a: 1 %}", false),
    ("filter-arguments-missing-comma", "{{ a | replace: 'x' 'y' }}", false),
    ("filter-stray-token-after-argument", "{{ a | append: 'x' y }}", false),
    ("for-stray-token-after-limit", "{% for i in a limit: 1 2 %}{% endfor %}", false),
    ("for-stray-token-after-collection", "{% for i in a b %}{% endfor %}", false),
    ("for-stray-token-after-reversed", "{% for i in a reversed x %}{% endfor %}", false),
    ("tablerow-stray-token-after-cols", "{% tablerow i in a cols: 2 3 %}{% endtablerow %}", false),
    ("assign-stray-token-after-filter-argument", "{% assign q = 1 | plus: 1 2 %}", false),
    ("if-stray-token-after-comparison", "{% if a == 1 2 %}{% endif %}", false),
    ("if-missing-operator-between-atoms", "{% if a == 1 b == 2 %}{% endif %}", false),
    ("case-stray-token-after-target", "{% case a b %}{% when 1 %}{% endcase %}", false),
    ("capture-stray-token", "{% capture q 1 %}{% endcapture %}", false),
    ("increment-stray-token", "{% increment q 1 %}", false),
    ("render-with-stray-token", "{% render 'p' with a as b c %}", false),
    ("render-for-stray-token", "{% render 'p' for a as b c %}", false),
    ("elsif-inside-unless", "{% unless a %}x{% elsif b %}y{% endunless %}", false),
    ("elsif-inside-for", "{% for i in a %}{% elsif b %}{% endfor %}", false),
    ("elsif-inside-case", "{% case a %}{% when 1 %}{% elsif b %}{% endcase %}", false),
    ("elsif-inside-capture", "{% capture q %}{% elsif b %}{% endcapture %}", false),
    ("when-inside-if", "{% if a %}{% when 1 %}{% endif %}", false),
    ("else-inside-capture", "{% capture q %}{% else %}{% endcapture %}", false),
    ("else-inside-ifchanged", "{% ifchanged %}{% else %}{% endifchanged %}", false),
    ("endfor-inside-if-in-for", "{% for i in a %}{% if b %}{% endfor %}{% endif %}", false),
    ("endunless-closing-if", "{% if a %}{% endunless %}", false),
    ("endif-closing-unless", "{% unless a %}{% endif %}", false),
    ("endtablerow-closing-for", "{% for i in a %}{% endtablerow %}", false),
];

fn rejection(ctx: &mut Ctx, ps: &Parsers) {
    let n = ctx.scale(2_000u64, 60_000u64);
    let mut rng = ctx.rng("c01-reject");
    for i in 0..n {
        let mut r = rng.fork(i);
        rng.next();
        if !ctx.mine_idx(i) {
            continue;
        }
        let nodes = wellformed(&mut r, false);
        let base = to_source(&nodes, &mut Style::random(r.fork(1)));
        // the base must be accepted, otherwise the generator (not liquid) is at fault
        if observe(ctx, ps, Config::Stdlib, &base, "reject-base") != Outcome::Ok {
            ctx.count("reject-base-not-accepted");
            continue;
        }
        for (name, fault, last) in FAULTS {
            // definite faults are inserted at top level only (between top-level nodes), where
            // `else`/`when`/`end*` cannot be claimed by an enclosing block
            let pos = if *last { nodes.len() } else { r.below(nodes.len() + 1) };
            let mut with: Vec<Node> = nodes.clone();
            with.insert(pos, Node::Text((*fault).to_string()));
            let mut text = to_source(&with, &mut Style::random(r.fork(1)));
            if *last && (text.matches('\'').count() % 2 == 0 && name.contains("string")) {
                // base contains an odd number of that quote: pairing could legitimately differ
                text = format!("{base}{fault}");
            }
            let quote = if *name == "unterminated-dstring" { '"' } else { '\'' };
            if name.contains("string") && base.contains(quote) {
                // a stray earlier quote of the same kind is irrelevant (it is before the fault),
                // but keep the case definite: nothing follows the fault
            }
            let o = observe(ctx, ps, Config::Stdlib, &text, "definite-fault");
            ctx.count(&format!("fault:{name}"));
            if o == Outcome::Ok {
                ctx.violation(
                    &format!("accepted-invalid:{name}"),
                    &format!("text with a definite fault ({name}) was accepted"),
                    || json!({"kind": "parse", "config": "stdlib", "text": text, "fault": name}),
                );
            }
        }
        // faults that are invalid wherever a body element may stand are also placed inside every
        // kind of block body (incl. the slot of a `case` before its first `when`, after `else`,
        // two blocks deep): the enclosing block must not swallow the error
        if i % 4 == 0 {
            for (name, fault, last) in FAULTS {
                if *last || ["unclosed-", "stray-", "unterminated-"].iter().any(|p| name.starts_with(p)) {
                    continue;
                }
                for (ci, (pre, post)) in CONTEXTS.iter().enumerate() {
                    let (pre2, post2) = CONTEXTS[(ci * 7 + i as usize) % CONTEXTS.len()];
                    for text in [format!("{pre}{fault}{post}"), format!("{pre2}x{pre}y{fault}{post}{post2}"), format!("{pre}{pre2}{fault}z{post2}{post}")] {
                        let o = observe(ctx, ps, Config::Stdlib, &text, "definite-fault-in-context");
                        ctx.count(&format!("fault:{name}"));
                        if o == Outcome::Ok {
                            ctx.violation(
                                &format!("accepted-invalid:{name}"),
                                &format!("text with a definite fault ({name}) inside a block body was accepted: {text:?}"),
                                || json!({"kind": "parse", "config": "stdlib", "text": text, "fault": name}),
                            );
                        }
                    }
                }
            }
        }
        // out-of-range integer literal: error, or accepted (then it must denote a float; C07/C12 check the value)
        let big = format!("{base}{{{{ 99999999999999999999 }}}}");
        observe(ctx, ps, Config::Stdlib, &big, "out-of-range-literal");
        // under the empty configuration every tag and every filter is unknown
        for t in ["{% assign a = 1 %}", "{{ a | upcase }}", "{% if a %}{% endif %}", "{% raw %}{% endraw %}"] {
            let o = observe(ctx, ps, Config::Empty, t, "empty-config");
            if o == Outcome::Ok {
                ctx.violation("accepted-invalid:empty-config", "the empty configuration accepted a tag or filter", || {
                    json!({"kind": "parse", "config": "empty", "text": t})
                });
            }
        }
    }
}

pub fn replay(j: &serde_json::Value) -> bool {
    let cfg = Config::from_name(j["config"].as_str().unwrap_or("stdlib"));
    let text = j["text"].as_str().unwrap_or("");
    let p = parser(cfg);
    let r = guard(|| p.parse(text).map(|_| ()).map_err(|e| e.to_string()));
    println!("config={} text={:?}", cfg.name(), text);
    match r {
        Ok(Ok(())) => {
            println!("outcome: accepted");
            j["key"].as_str().map(|k| k.starts_with("accepted-invalid")).unwrap_or(false)
        }
        Ok(Err(e)) => {
            println!("outcome: rejected: {}", e.lines().next().unwrap_or(""));
            false
        }
        Err(p) => {
            println!("outcome: PANIC at {}: {}", p.site(), p.msg);
            true
        }
    }
}
