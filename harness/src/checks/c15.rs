//! C15 — arithmetic filters. This module only RECORDS: every evaluation of a math filter on the real
//! code becomes one event `{op, a, b, prof, res[, res2][, twin]}` in the worker's event log; the
//! judging (Python big integers / IEEE doubles) is in `/verif/checkers/c15_arith.py`.
//!
//! Event schema
//!   op    : abs | at_least | at_most | plus | minus | times | divided_by | modulo | round | ceil | floor
//!   a, b  : {"k":"int","v":"<decimal>"} | {"k":"float","v":"<16 hex digits of the f64 bits>"}
//!           | {"k":"str","v":"<text>","n":<the number operand the text was spelled from, or null>}
//!           b is null for the unary form (for `round`, b is the decimal-places argument)
//!   res   : {"k":"int|float|str|err|panic|other","v":...} parsed from `{{ a | op: b | vdump }}`
//!           (panic: v = p.key(), plus "site" and "msg")
//!   res2  : only for op = divided_by: the result of `modulo` on the same operands (q and r in one
//!           event, so that the checker can test n = q*d + r)
//!   twin  : only when an operand is a string spelled from a number: {a, b, res[, res2]} of the same
//!           filter on the numbers themselves ("numeric strings behave like the numbers they spell")
use crate::cfg::{parser, Config};
use crate::ctx::Ctx;
use crate::exec::{render, Out};
use crate::rng::{hash_str, Rng};
use liquid::model::Value;
use liquid::{Object, Template};
use serde_json::{json, Value as Json};
use std::collections::BTreeMap;

#[derive(Clone, Debug)]
pub enum Opnd {
    Int(i64),
    Float(f64),
    /// text, and the number it was spelled from (None: free text)
    Str(String, Option<Box<Opnd>>),
}

impl Opnd {
    fn to_liquid(&self) -> Value {
        match self {
            Opnd::Int(i) => Value::scalar(*i),
            Opnd::Float(f) => Value::scalar(*f),
            Opnd::Str(s, _) => Value::scalar(s.clone()),
        }
    }
    fn to_json(&self) -> Json {
        match self {
            Opnd::Int(i) => json!({"k":"int","v": i.to_string()}),
            Opnd::Float(f) => json!({"k":"float","v": format!("{:016x}", f.to_bits())}),
            Opnd::Str(s, n) => {
                json!({"k":"str","v": s, "n": n.as_ref().map(|n| n.to_json()).unwrap_or(Json::Null)})
            }
        }
    }
    fn from_json(j: &Json) -> Option<Opnd> {
        let v = j.get("v")?.as_str()?;
        match j.get("k")?.as_str()? {
            "int" => v.parse::<i64>().ok().map(Opnd::Int),
            "float" => u64::from_str_radix(v, 16).ok().map(|b| Opnd::Float(f64::from_bits(b))),
            "str" => Some(Opnd::Str(
                v.to_string(),
                j.get("n").and_then(Opnd::from_json).map(Box::new),
            )),
            _ => None,
        }
    }
    fn kind(&self) -> &'static str {
        match self {
            Opnd::Int(_) => "int",
            Opnd::Float(_) => "float",
            Opnd::Str(..) => "str",
        }
    }
    /// short text used for hashing / sharding
    fn tag(&self) -> String {
        match self {
            Opnd::Int(i) => format!("i{i}"),
            Opnd::Float(f) => format!("f{:x}", f.to_bits()),
            Opnd::Str(s, _) => format!("s{s}"),
        }
    }
    /// the number a spelled string stands for (itself for numbers)
    fn twin(&self) -> Opnd {
        match self {
            Opnd::Str(_, Some(n)) => (**n).clone(),
            o => o.clone(),
        }
    }
    fn has_twin(&self) -> bool {
        matches!(self, Opnd::Str(_, Some(_)))
    }
    /// only for the `nontrivial` flag: does the real coercion see a number here
    fn numeric(&self) -> bool {
        match self {
            Opnd::Str(s, _) => s.parse::<f64>().is_ok(),
            _ => true,
        }
    }
}

fn int_str(i: i64) -> Opnd {
    Opnd::Str(i.to_string(), Some(Box::new(Opnd::Int(i))))
}
/// shortest text that reads back as the same double (Rust's `{:?}` is round-trip exact)
fn float_str(f: f64) -> Opnd {
    Opnd::Str(format!("{f:?}"), Some(Box::new(Opnd::Float(f))))
}
fn free_str(s: &str) -> Opnd {
    Opnd::Str(s.to_string(), None)
}

pub const BINARY: [&str; 7] = ["at_least", "at_most", "plus", "minus", "times", "divided_by", "modulo"];
pub const UNARY: [&str; 4] = ["abs", "ceil", "floor", "round"];

pub struct Tpls {
    unary: BTreeMap<&'static str, Template>,
    binary: BTreeMap<&'static str, Template>,
}

impl Tpls {
    pub fn new() -> Tpls {
        let p = parser(Config::Stdlib);
        let mut unary = BTreeMap::new();
        let mut binary = BTreeMap::new();
        for op in UNARY {
            unary.insert(op, p.parse(&format!("{{{{ a | {op} | vdump }}}}")).expect("c15 template"));
        }
        for op in BINARY.iter().chain(["round"].iter()) {
            binary.insert(*op, p.parse(&format!("{{{{ a | {op}: b | vdump }}}}")).expect("c15 template"));
        }
        Tpls { unary, binary }
    }
    fn get(&self, op: &str, has_b: bool) -> Option<&Template> {
        if has_b {
            self.binary.get(op)
        } else {
            self.unary.get(op)
        }
    }
}

fn res_json(out: &Out) -> Json {
    match out {
        Out::Ok(s) => {
            if let Some(r) = s.strip_prefix("i:") {
                json!({"k":"int","v": r})
            } else if let Some(r) = s.strip_prefix("f:") {
                json!({"k":"float","v": r})
            } else if let Some(r) = s.strip_prefix("s:") {
                match serde_json::from_str::<String>(r) {
                    Ok(t) => json!({"k":"str","v": t}),
                    Err(_) => json!({"k":"other","v": s}),
                }
            } else {
                json!({"k":"other","v": s})
            }
        }
        Out::Err(m) => json!({"k":"err","v": m}),
        Out::Panic(p) => json!({"k":"panic","v": p.key(), "site": p.site(), "msg": p.msg}),
        Out::BadUtf8(b) => json!({"k":"other","v": format!("non-utf8 output of {} bytes", b.len())}),
    }
}

fn eval1(t: &Template, a: &Opnd, b: Option<&Opnd>) -> Json {
    let mut o = Object::new();
    o.insert("a".into(), a.to_liquid());
    if let Some(b) = b {
        o.insert("b".into(), b.to_liquid());
    }
    res_json(&render(t, &o))
}

/// one recorded evaluation (plus the modulo companion and the numeric twin where applicable)
pub fn eval_case(tp: &Tpls, op: &str, a: &Opnd, b: Option<&Opnd>) -> Option<Json> {
    let t = tp.get(op, b.is_some())?;
    let mut ev = json!({
        "op": op,
        "a": a.to_json(),
        "b": b.map(|b| b.to_json()).unwrap_or(Json::Null),
        "prof": crate::profile_name(),
        "res": eval1(t, a, b),
    });
    let tmod = tp.get("modulo", true)?;
    if op == "divided_by" {
        ev["res2"] = eval1(tmod, a, b);
    }
    if a.has_twin() || b.map(|b| b.has_twin()).unwrap_or(false) {
        let ta = a.twin();
        let tb = b.map(|b| b.twin());
        let mut tw = json!({
            "a": ta.to_json(),
            "b": tb.as_ref().map(|b| b.to_json()).unwrap_or(Json::Null),
            "res": eval1(t, &ta, tb.as_ref()),
        });
        if op == "divided_by" {
            tw["res2"] = eval1(tmod, &ta, tb.as_ref());
        }
        ev["twin"] = tw;
    }
    Some(ev)
}

struct Run<'a> {
    ctx: &'a mut Ctx,
    tp: Tpls,
}

impl Run<'_> {
    fn case(&mut self, family: &str, op: &str, a: &Opnd, b: Option<&Opnd>) {
        let key = format!("{op}|{}|{}", a.tag(), b.map(|b| b.tag()).unwrap_or_default());
        let h = hash_str(&key);
        if !self.ctx.mine(h) {
            return;
        }
        if self.ctx.evaluations % 256 == 0 {
            self.ctx.set_progress(&format!("{{\"check\":\"C15\",\"case\":{:?}}}", key));
        }
        let Some(ev) = eval_case(&self.tp, op, a, b) else { return };
        let nontrivial = a.numeric() && b.map(|b| b.numeric()).unwrap_or(true);
        self.ctx.record(h, nontrivial);
        self.ctx.count(&format!("op:{op}"));
        self.ctx.count(&format!("family:{family}"));
        self.ctx.count(&format!("kinds:{}x{}", a.kind(), b.map(|b| b.kind()).unwrap_or("-")));
        self.ctx.count(&format!("result:{}", ev["res"]["k"].as_str().unwrap_or("?")));
        if ev["res"]["k"] == "panic" {
            self.ctx.set_insert("panic_sites", hash_str(ev["res"]["site"].as_str().unwrap_or("")));
        }
        self.ctx.event(&ev);
        self.ctx.sample(|| ev.clone());
    }
    fn all_binary(&mut self, family: &str, a: &Opnd, b: &Opnd) {
        for op in BINARY {
            self.case(family, op, a, Some(b));
        }
    }
    fn all_unary(&mut self, family: &str, a: &Opnd) {
        for op in UNARY {
            self.case(family, op, a, None);
        }
        for d in [-1i64, 0, 1, 2, 3] {
            self.case(family, "round", a, Some(&Opnd::Int(d)));
        }
    }
}

pub fn boundary_ints() -> Vec<i64> {
    vec![
        0,
        1,
        -1,
        2,
        -2,
        3,
        -3,
        7,
        -7,
        10,
        1 << 31,
        -(1 << 31),
        1 << 62,
        -(1 << 62),
        i64::MAX - 1,
        i64::MAX,
        i64::MIN,
        i64::MIN + 1,
    ]
}

fn special_floats() -> Vec<f64> {
    let two63 = 9223372036854775808.0f64;
    vec![
        0.0,
        -0.0,
        f64::NAN,
        f64::INFINITY,
        f64::NEG_INFINITY,
        f64::MIN_POSITIVE,
        f64::from_bits(1),
        f64::MAX,
        f64::MIN,
        two63,
        -two63,
        f64::from_bits(two63.to_bits() - 1),    // largest double below 2^63
        -f64::from_bits(two63.to_bits() + 1),   // first double below -2^63
        9007199254740992.0,                     // 2^53
        -9007199254740992.0,
        9007199254740994.0,
        4503599627370495.5,                     // 2^52 - 0.5: largest tie
        -4503599627370495.5,
        4503599627370496.5f64,                  // not representable: rounds to even
        0.49999999999999994,                    // largest double below 0.5 (floor(x + 0.5) is wrong here)
        -0.49999999999999994,
        0.5,
        -0.5,
        1.5,
        2.5,
        -2.5,
        1e-300,
        1e300,
        0.1,
        0.7,
        2.675,
        1.005,
        -1.005,
        123456789.987654321,
    ]
}

fn free_strings() -> Vec<Opnd> {
    let mut v = vec![
        // spelled numbers in other spellings than the canonical one
        Opnd::Str("1.5".into(), Some(Box::new(Opnd::Float(1.5)))),
        Opnd::Str("-0.5".into(), Some(Box::new(Opnd::Float(-0.5)))),
        Opnd::Str("+3".into(), Some(Box::new(Opnd::Int(3)))),
        Opnd::Str("00012".into(), Some(Box::new(Opnd::Int(12)))),
        Opnd::Str("0.0".into(), Some(Box::new(Opnd::Float(0.0)))),
        Opnd::Str("-0.0".into(), Some(Box::new(Opnd::Float(-0.0)))),
        Opnd::Str("1e3".into(), Some(Box::new(Opnd::Float(1000.0)))),
        Opnd::Str("2.50".into(), Some(Box::new(Opnd::Float(2.5)))),
        Opnd::Str(".5".into(), Some(Box::new(Opnd::Float(0.5)))),
        Opnd::Str("7.".into(), Some(Box::new(Opnd::Float(7.0)))),
        // integers spelled out that do not fit in 64 bits
        free_str("9223372036854775808"),
        free_str("-9223372036854775809"),
        free_str("18446744073709551616"),
        free_str("123456789012345678901234567890"),
    ];
    // not numbers (an error is the expected outcome; only totality is asserted)
    // "-0": the integer 0 or the double -0.0? ambiguous, so no twin and no exact expectation
    for s in ["-0", " 3", "3 ", "", " ", "abc", "0x10", "1_000", "٣", "NaN", "inf", "-inf", "infinity", "1e", "--1", "1,5", "½", "3abc", "true"] {
        v.push(free_str(s));
    }
    v
}

pub fn run(ctx: &mut Ctx) {
    ctx.start_watchdog(120);
    let random_events = ctx.scale(26_000u64, 2_900_000u64);
    let rng = ctx.rng("c15-random");
    let mut r = Run { ctx, tp: Tpls::new() };
    boundary_pairs(&mut r);
    eighths(&mut r);
    specials(&mut r);
    random(&mut r, rng, random_events);
}

/// all pairs of the boundary set, each operand as integer, as numeric string and as the nearest float
fn boundary_pairs(r: &mut Run) {
    let b = boundary_ints();
    let reps = |i: i64| [Opnd::Int(i), int_str(i), Opnd::Float(i as f64)];
    for &x in &b {
        for a in reps(x) {
            r.all_unary("boundary-unary", &a);
            for &y in &b {
                for bb in reps(y) {
                    r.all_binary("boundary-pairs", &a, &bb);
                }
            }
        }
    }
}

/// all pairs of k/8, |k| <= 40 (every .5 tie) as floats; as strings for the unary filters and a sub-square
fn eighths(r: &mut Run) {
    let ks: Vec<i64> = (-40..=40).collect();
    for &k in &ks {
        let a = Opnd::Float(k as f64 / 8.0);
        r.all_unary("eighths-unary", &a);
        r.all_unary("eighths-unary-str", &float_str(k as f64 / 8.0));
        for &l in &ks {
            let b = Opnd::Float(l as f64 / 8.0);
            r.all_binary("eighths-pairs", &a, &b);
            if k.abs() <= 8 && l.abs() <= 8 {
                r.all_binary("eighths-pairs-str", &float_str(k as f64 / 8.0), &b);
                r.all_binary("eighths-pairs-str", &float_str(k as f64 / 8.0), &float_str(l as f64 / 8.0));
                r.all_binary("eighths-pairs-str", &a, &int_str(l));
                r.all_binary("eighths-pairs-int", &a, &Opnd::Int(l));
                r.all_binary("eighths-pairs-int", &Opnd::Int(k), &b);
            }
        }
    }
}

/// special doubles and free-form strings against a small set of partners
fn specials(r: &mut Run) {
    let partners: Vec<Opnd> = vec![
        Opnd::Int(0),
        Opnd::Int(1),
        Opnd::Int(-1),
        Opnd::Int(3),
        Opnd::Int(i64::MAX),
        Opnd::Int(i64::MIN),
        Opnd::Float(0.0),
        Opnd::Float(-0.0),
        Opnd::Float(2.5),
        Opnd::Float(-1.0),
        Opnd::Float(f64::INFINITY),
        Opnd::Float(f64::NAN),
        int_str(2),
        float_str(0.5),
    ];
    let sf = special_floats();
    for &x in &sf {
        let a = Opnd::Float(x);
        r.all_unary("special-floats", &a);
        if x.is_finite() {
            r.all_unary("special-floats-str", &float_str(x));
        }
        for p in &partners {
            r.all_binary("special-floats", &a, p);
            r.all_binary("special-floats", p, &a);
        }
        for &y in &sf {
            r.all_binary("special-floats", &a, &Opnd::Float(y));
        }
    }
    for s in free_strings() {
        r.all_unary("free-strings", &s);
        for p in &partners {
            r.all_binary("free-strings", &s, p);
            r.all_binary("free-strings", p, &s);
        }
    }
    // the decimal-places argument of `round` in other kinds
    for x in [2.5f64, -2.5, 2.675, 1234.5678, 0.125, 1e18, 9.2e18] {
        for d in [Opnd::Int(4), Opnd::Int(15), Opnd::Int(308), Opnd::Int(400), Opnd::Int(i64::MAX), Opnd::Int(i64::MIN), int_str(2), Opnd::Float(2.0), free_str("x")] {
            r.case("round-places", "round", &Opnd::Float(x), Some(&d));
        }
    }
}

fn rand_width_int(r: &mut Rng) -> i64 {
    let bits = r.below(64) as u32 + 1; // 1..=64 significant bits
    let v = r.next() >> (64 - bits);
    let v = v as i64; // for bits = 64 this covers the whole range incl. negative values
    if bits < 64 && r.chance(1, 2) {
        -v
    } else {
        v
    }
}

/// a double inside the i64 range with a random number of fractional bits
fn rand_frac_float(r: &mut Rng) -> f64 {
    let m = (r.next() >> 11) as f64; // 53 random bits, exact
    let e = r.below(64) as i32; // scale 2^-e .. : magnitude from 2^-11 to 2^53
    let x = m * (2.0f64).powi(-e) * if r.chance(1, 4) { 1024.0 } else { 1.0 };
    if r.chance(1, 2) {
        -x
    } else {
        x
    }
}

fn rand_operand_pair(r: &mut Rng) -> (Opnd, Opnd, &'static str) {
    match r.below(12) {
        0 => (Opnd::Int(r.next() as i64), Opnd::Int(r.next() as i64), "random-int-full"),
        1 => (Opnd::Int(rand_width_int(r)), Opnd::Int(rand_width_int(r)), "random-int-widths"),
        2 => {
            // sums / differences next to the 64-bit limits
            let a = rand_width_int(r);
            let lim = if r.chance(1, 2) { i64::MAX } else { i64::MIN };
            let d = r.range(-3, 3);
            let b = lim.wrapping_sub(a).wrapping_add(d);
            let b = if r.chance(1, 2) { b } else { b.wrapping_neg() };
            (Opnd::Int(a), Opnd::Int(b), "random-int-near-sum-limit")
        }
        3 => {
            // products next to the 64-bit limits
            let mut a = rand_width_int(r);
            if a == 0 {
                a = 3;
            }
            let lim = if r.chance(1, 2) { i64::MAX as i128 } else { i64::MIN as i128 };
            let b = (lim / a as i128 + r.range(-2, 2) as i128).clamp(i64::MIN as i128, i64::MAX as i128) as i64;
            (Opnd::Int(a), Opnd::Int(b), "random-int-near-product-limit")
        }
        4 => {
            // division: wide dividend, small or special divisor
            let a = if r.chance(1, 8) { *r.pick(&[i64::MIN, i64::MAX, i64::MIN + 1, 0]) } else { rand_width_int(r) };
            let b = if r.chance(1, 4) { r.range(-3, 3) } else { rand_width_int(r) >> r.below(40) };
            (Opnd::Int(a), Opnd::Int(b), "random-int-division")
        }
        5 => (Opnd::Float(f64::from_bits(r.next())), Opnd::Float(f64::from_bits(r.next())), "random-float-bits"),
        6 => (Opnd::Float(rand_frac_float(r)), Opnd::Float(rand_frac_float(r)), "random-float-fractions"),
        7 => {
            // n + 0.5 ties and their neighbours
            let n = (r.next() >> (12 + r.below(52))) as f64;
            let x = n + 0.5;
            let x = match r.below(4) {
                0 => f64::from_bits(x.to_bits() + 1),
                1 => f64::from_bits(x.to_bits().saturating_sub(1)),
                _ => x,
            };
            let x = if r.chance(1, 2) { -x } else { x };
            (Opnd::Float(x), Opnd::Float(rand_frac_float(r)), "random-float-ties")
        }
        8 => (Opnd::Int(rand_width_int(r)), Opnd::Float(rand_frac_float(r)), "random-int-float"),
        9 => (Opnd::Float(rand_frac_float(r)), Opnd::Int(rand_width_int(r)), "random-float-int"),
        10 => {
            let a = rand_width_int(r);
            let b = rand_width_int(r);
            match r.below(3) {
                0 => (int_str(a), Opnd::Int(b), "random-str-int"),
                1 => (Opnd::Int(a), int_str(b), "random-str-int"),
                _ => (int_str(a), int_str(b), "random-str-int"),
            }
        }
        _ => {
            let a = rand_frac_float(r);
            let b = rand_frac_float(r);
            match r.below(3) {
                0 => (float_str(a), Opnd::Float(b), "random-str-float"),
                1 => (Opnd::Int(rand_width_int(r)), float_str(b), "random-str-float"),
                _ => (float_str(a), int_str(rand_width_int(r)), "random-str-float"),
            }
        }
    }
}

fn random(r: &mut Run, rng: Rng, target_events: u64) {
    // every pair is evaluated by all seven binary filters, its first operand by the four unary ones
    // (+ round with 0..3 decimal places): 16 events per pair
    let pairs = target_events / 16;
    for i in 0..pairs {
        let mut g = rng.fork(i);
        let (a, b, fam) = rand_operand_pair(&mut g);
        r.all_binary(fam, &a, &b);
        for op in UNARY {
            r.case(fam, op, &a, None);
        }
        for d in [0i64, 1, 2, 3] {
            r.case(fam, "round", &a, Some(&Opnd::Int(d)));
        }
        r.case(fam, "round", &b, None);
    }
}

/// re-execute one recorded input (`{op, a, b}`) on the real code and print the fresh event
pub fn replay(j: &Json) -> bool {
    let tp = Tpls::new();
    let op = j["op"].as_str().unwrap_or("");
    let Some(a) = Opnd::from_json(&j["a"]) else {
        eprintln!("c15 replay: operand a missing or malformed");
        return false;
    };
    let b = Opnd::from_json(&j["b"]);
    match eval_case(&tp, op, &a, b.as_ref()) {
        Some(ev) => println!("{}", serde_json::to_string(&ev).unwrap()),
        None => eprintln!("c15 replay: unknown op {op:?}"),
    }
    false
}
