//! C07 — variable paths and literals denote the right value or fail loudly.
//!
//! non-trivial rule: paths — the path has at least one step below the root; literals — always
//! (each literal is a distinct denotation).
use crate::cfg::{parser, Config};
use crate::ctx::Ctx;
use crate::exec::{render, Out};
use crate::gen::ast::lit_src;
use crate::refm::{step, Look};
use crate::rng::{hash_str, Rng};
use crate::val::{arr, obj, s, RVal};
use liquid::Object;
use serde_json::json;

fn is_ident(k: &str) -> bool {
    let mut cs = k.chars();
    matches!(cs.next(), Some(c) if c.is_ascii_alphabetic() || c == '_')
        && cs.all(|c| c.is_ascii_alphanumeric() || c == '_')
        && !["nil", "null", "true", "false", "empty", "blank"].iter().any(|p| k.starts_with(p))
}

/// candidate indices to try below a value
fn candidates(v: &RVal) -> Vec<RVal> {
    match v {
        RVal::Array(xs) => {
            let n = xs.len() as i64;
            let mut c: Vec<RVal> = (-(n + 2)..=(n + 1)).map(RVal::Int).collect();
            c.extend([s("first"), s("last"), s("size"), s("zz")]);
            // fractional positions name no element (never a neighbour); as numbers and as numeric strings
            c.extend([RVal::Float(0.5), RVal::Float(1.5), RVal::Float(-0.5), RVal::Float(n as f64 - 0.1), s("1.5"), s("0.9")]);
            c
        }
        RVal::Object(kv) => {
            let mut c: Vec<RVal> = kv.iter().map(|(k, _)| s(k)).collect();
            c.extend([s("size"), s("zz"), s("7"), s("007"), s("+1"), s("1"), RVal::Int(0)]);
            c
        }
        RVal::Str(_) => vec![s("size"), s("zz"), RVal::Int(0)],
        _ => vec![s("zz"), RVal::Int(0)],
    }
}

fn fixed_roots() -> Vec<RVal> {
    vec![
        obj(vec![
            ("a", arr(vec![RVal::Int(10), s("héllo"), arr(vec![RVal::Int(1), RVal::Int(2), RVal::Int(3)]), obj(vec![("k", s("v")), ("size", s("own-size"))]), RVal::Nil])),
            ("size", RVal::Int(99)),
            ("first", s("own-first")),
            ("o", obj(vec![("7", s("seven")), ("+1", s("plus-one")), ("01", s("zero-one")), ("é", arr(vec![])), ("a b", RVal::Bool(false)), ("last", arr(vec![s("x")]))])),
            ("s", s("日本語")),
            ("e", arr(vec![])),
        ]),
        obj(vec![("a", arr(vec![arr(vec![arr(vec![arr(vec![RVal::Int(4)])])])])), ("n", RVal::Int(5)), ("f", RVal::Float(1.5)), ("t", RVal::Bool(true))]),
    ]
}

fn gen_root(r: &mut Rng) -> RVal {
    fn value(r: &mut Rng, depth: usize) -> RVal {
        match if depth >= 3 { r.below(4) } else { r.below(8) } {
            0 => RVal::Int(r.range(-3, 40)),
            1 => s(r.choose(&["", "a", "héllo", "👍x", "12"])),
            2 => RVal::Nil,
            3 => RVal::Bool(r.chance(1, 2)),
            4 | 5 => arr((0..r.below(6)).map(|_| value(r, depth + 1)).collect()),
            _ => {
                let keys = ["k", "size", "first", "last", "0", "12", "é", "a b", "x_1", "K", "012", "+0", "1"];
                let n = r.below(4);
                let mut kv: Vec<(String, RVal)> = Vec::new();
                for _ in 0..n {
                    let k = r.choose(&keys).to_string();
                    if !kv.iter().any(|(kk, _)| *kk == k) {
                        kv.push((k, value(r, depth + 1)));
                    }
                }
                RVal::Object(kv)
            }
        }
    }
    obj(vec![("a", arr((0..r.below(6)).map(|_| value(r, 1)).collect())), ("o", value(r, 1)), ("size", value(r, 2))])
}

struct Env {
    parser: liquid::Parser,
    /// same language plus the partial `show`, which dumps its argument `v`
    parser_p: liquid::Parser,
}

const SHOW: &str = "{{ v | vdump }}";

/// a value with the same shape as `v` but more members everywhere: arrays get extra elements,
/// objects an extra key, scalars stay
fn decoy_for(v: &RVal) -> RVal {
    match v {
        RVal::Array(xs) => {
            let mut ys: Vec<RVal> = xs.iter().map(decoy_for).collect();
            for k in 0..3 {
                ys.push(RVal::Str(format!("decoy{k}")));
            }
            RVal::Array(ys)
        }
        RVal::Object(kv) => {
            let mut kv2: Vec<(String, RVal)> = kv.iter().map(|(k, v)| (k.clone(), decoy_for(v))).collect();
            for k in ["zz", "7", "0", "k", "é", "x_1", "1", "12"] {
                if !kv2.iter().any(|(kk, _)| kk == k) {
                    kv2.push((k.to_string(), RVal::Str(format!("decoy-{k}"))));
                }
            }
            RVal::Object(kv2)
        }
        RVal::Nil => RVal::Array(vec![RVal::Str("decoy".into())]),
        other => other.clone(),
    }
}

/// render `{{ <path> | vdump }}` and `{{ <path> }}` in one of three index-supply forms and judge
fn check_path(ctx: &mut Ctx, env: &Env, root: &RVal, idxs: &[RVal], expect: &Look, form: usize, dot_bits: u32) {
    // source text of the path
    let mut path = String::from("r");
    let mut data: Vec<(String, RVal)> = vec![("r".into(), root.clone())];
    let mut ix_obj: Vec<(String, RVal)> = Vec::new();
    for (k, idx) in idxs.iter().enumerate() {
        match form {
            0 | 3 => match idx {
                RVal::Str(key) if is_ident(key) && dot_bits >> k & 1 == 1 => path.push_str(&format!(".{key}")),
                other => path.push_str(&format!("[{}]", lit_src(other))),
            },
            1 | 4 => {
                path.push_str(&format!("[i{k}]"));
                data.push((format!("i{k}"), idx.clone()));
            }
            5 => {
                // like 4, but the variable supplying the last index is not defined at all
                path.push_str(&format!("[i{k}]"));
                if k + 1 < idxs.len() {
                    data.push((format!("i{k}"), idx.clone()));
                }
            }
            _ => {
                path.push_str(&format!("[ix.p{k}]"));
                ix_obj.push((format!("p{k}"), idx.clone()));
            }
        }
    }
    if form == 2 {
        data.push(("ix".into(), RVal::Object(ix_obj)));
    }
    let mut prefix = String::new();
    if form == 3 {
        // the root is re-assigned in the template: `r` is first bound (as caller data) to a decoy
        // that has MORE structure than the real root, so a lookup that falls through to the
        // shadowed binding when a step is missing would find something
        data[0].1 = decoy_for(root);
        data.push(("q".into(), root.clone()));
        prefix = "{% assign r = q %}".to_string();
    }
    if form >= 4 {
        // the path handed to a partial as an include / render argument (evaluated through the
        // non-failing lookup): the partial must see the value the path denotes; a path that denotes
        // nothing makes the tag fail or binds nil -- never some other value
        let missing = RVal::Nil.dump();
        let expect5 = Look::Missing;
        let expect = if form == 5 { &expect5 } else { expect };
        if form == 5 && idxs.is_empty() {
            return;
        }
        for tag in ["include 'show' v:", "render 'show', v:"] {
            let src = format!("{{% {tag} {path} %}}");
            let h = hash_str(&format!("{src}|{}", RVal::Object(data.clone()).dump()));
            if !ctx.mine(h) {
                continue;
            }
            let dataobj = RVal::Object(data.clone());
            let replay = || json!({"kind": "render", "config": "stdlib", "template": src, "partials": [["show", SHOW]], "data": dataobj.to_json(), "expected": format!("{expect:?}")});
            let Ok(t) = env.parser_p.parse(&src) else {
                ctx.record(h, true);
                ctx.violation("path:well-formed-path-rejected", &format!("{src:?} rejected"), replay);
                continue;
            };
            let out = render(&t, &dataobj.to_object());
            ctx.record(h, true);
            ctx.count(&format!("path:form{}:len{}", form, idxs.len()));
            match (expect, &out) {
                (Look::Unspec, _) => ctx.count("path:not-specified"),
                (_, Out::Panic(p)) => ctx.violation(&p.key(), &format!("{src:?} panicked: {}", p.msg), replay),
                (Look::Missing, Out::Err(_)) => ctx.count("path:missing-argument-fails"),
                (Look::Missing, Out::Ok(sx)) if *sx == missing => ctx.count("path:missing-argument-bound-to-nil"),
                (Look::Missing, Out::Ok(sx)) => ctx.violation(
                    "path:missing-step-in-argument-yields-a-value",
                    &format!("{src:?} on {}: the argument path denotes nothing, yet the partial saw {sx}", dataobj.dump()),
                    replay,
                ),
                (Look::Found(v), Out::Ok(sx)) => {
                    if *sx != v.dump() {
                        ctx.violation("path:wrong-value", &format!("{src:?} on {}: the argument denotes {}, the partial saw {sx}", dataobj.dump(), v.dump()), replay);
                    } else {
                        ctx.count("path:value-agrees");
                    }
                }
                (Look::Found(v), Out::Err(e)) => ctx.violation("path:existing-path-fails", &format!("{src:?} on {}: denotes {}, but failed: {e}", dataobj.dump(), v.dump()), replay),
                _ => {}
            }
        }
        return;
    }
    let src = format!("{prefix}{{{{ {path} | vdump }}}}|{{{{ {path} }}}}");
    let h = hash_str(&format!("{src}|{}", RVal::Object(data.clone()).dump()));
    if !ctx.mine(h) {
        return;
    }
    let dataobj = RVal::Object(data);
    let replay = || json!({"kind": "render", "config": "stdlib", "template": src, "partials": [], "data": dataobj.to_json(), "expected": format!("{expect:?}")});
    let t = match env.parser.parse(&src) {
        Ok(t) => t,
        Err(e) => {
            ctx.record(h, true);
            ctx.violation("path:well-formed-path-rejected", &format!("{src:?}: {}", e.to_string().lines().next().unwrap_or("")), replay);
            return;
        }
    };
    let o: Object = dataobj.to_object();
    let out = render(&t, &o);
    ctx.record(h, !idxs.is_empty());
    ctx.count(&format!("path:form{}:len{}", form, idxs.len()));
    match (expect, &out) {
        (Look::Unspec, _) => ctx.count("path:not-specified"),
        (_, Out::Panic(p)) => ctx.violation(&p.key(), &format!("{src:?} panicked: {}", p.msg), replay),
        (Look::Missing, Out::Err(_)) => ctx.count("path:missing-step-fails-loudly"),
        (Look::Missing, Out::Ok(sx)) => ctx.violation(
            "path:missing-step-does-not-fail",
            &format!("{src:?} on {}: a step does not exist, yet the output tag rendered {sx:?}", dataobj.dump()),
            replay,
        ),
        (Look::Found(v), Out::Ok(sx)) => {
            let dump = sx.split('|').next().unwrap_or("");
            if dump != v.dump() {
                let key = if matches!(v, RVal::Int(_)) && path.ends_with("size") && dump.starts_with("i:") { "path:size-differs" } else { "path:wrong-value" };
                ctx.violation(key, &format!("{src:?} on {}: denotes {}, rendered {dump}", dataobj.dump(), v.dump()), replay);
            } else {
                ctx.count("path:value-agrees");
            }
        }
        (Look::Found(v), Out::Err(e)) => ctx.violation("path:existing-path-fails", &format!("{src:?} on {}: denotes {}, but failed: {e}", dataobj.dump(), v.dump()), replay),
        _ => {}
    }
    ctx.sample(|| json!({"template": src, "data": dataobj.dump(), "expected": format!("{expect:?}").chars().take(80).collect::<String>()}));
}

fn walk(ctx: &mut Ctx, env: &Env, root: &RVal, cur: &RVal, idxs: &mut Vec<RVal>, rng: &mut Rng, sample_den: u32) {
    if idxs.len() >= 4 {
        return;
    }
    for c in candidates(cur) {
        idxs.push(c.clone());
        let look = step(cur, &c);
        // thin out deep paths in the quick tier
        if idxs.len() <= 2 || rng.chance(1, sample_den) {
            for form in 0..6 {
                let bits = rng.next() as u32;
                check_path(ctx, env, root, idxs, &look, form, bits);
                if form == 0 {
                    check_path(ctx, env, root, idxs, &look, 0, !bits);
                }
            }
        }
        if let Look::Found(v) = &look {
            walk(ctx, env, root, v, idxs, rng, sample_den);
        }
        idxs.pop();
    }
}

fn literals(ctx: &mut Ctx, env: &Env) {
    let mut cases: Vec<(String, RVal)> = Vec::new();
    let ints: Vec<i64> = {
        let mut v = vec![0, 1, -1, 7, 10, 255, i64::MAX, i64::MIN, i64::MAX - 1, i64::MIN + 1, 1 << 31, -(1 << 31), 1 << 53, (1 << 53) + 1, 999_999_999_999];
        let n = ctx.scale(2_000i64, 20_000i64);
        let stride = (i64::MAX / n) * 2;
        let mut x = i64::MIN + 12345;
        for _ in 0..n {
            v.push(x);
            x = x.saturating_add(stride);
        }
        v
    };
    for i in ints {
        cases.push((i.to_string(), RVal::Int(i)));
        if i >= 0 {
            cases.push((format!("+{i}"), RVal::Int(i)));
            cases.push((format!("00{i}"), RVal::Int(i)));
            cases.push((format!("-{i}"), RVal::Int(-i)));
        }
    }
    // decimals with 1..6 fraction digits
    let mut r = ctx.rng("c07-lit");
    for digits in 1..=6usize {
        for _ in 0..ctx.scale(150, 1500) {
            let ip = r.range(0, 100000);
            let fp: String = (0..digits).map(|_| char::from(b'0' + r.below(10) as u8)).collect();
            for sign in ["", "-", "+"] {
                let text = format!("{sign}{ip}.{fp}");
                let val: f64 = text.trim_start_matches('+').parse().unwrap();
                cases.push((text, RVal::Float(val)));
            }
        }
    }
    for (t, v) in [("0.0", 0.0), ("-0.0", -0.0), ("1.50", 1.5), ("007.25", 7.25), ("0.000001", 0.000001), ("123456789.123456", 123456789.123456)] {
        cases.push((t.to_string(), RVal::Float(v)));
    }
    // strings in either quote style over the generator alphabet without the closing quote
    let alphabet = ["a", "B", " ", "é", "👍", "\t", "\n", "{", "}", "%", "{{", "}}", "{%", "%}", "|", ":", ",", ".", "-", "\\", "\\n", "0", "'", "\"", "e\u{301}", "nil", "<", ">"];
    for _ in 0..ctx.scale(3_000, 60_000) {
        let n = r.below(7);
        let text: String = (0..n).map(|_| r.choose(&alphabet)).collect();
        for q in ['\'', '"'] {
            if !text.contains(q) {
                cases.push((format!("{q}{text}{q}"), RVal::Str(text.clone())));
            }
        }
    }
    for (t, v) in [("true", RVal::Bool(true)), ("false", RVal::Bool(false)), ("nil", RVal::Nil), ("null", RVal::Nil), ("''", s("")), ("\"\"", s(""))] {
        cases.push((t.to_string(), v));
    }
    let empty = Object::new();
    for (text, want) in cases {
        let src = format!("{{{{ {text} | vdump }}}}|{{{{ {text} }}}}");
        let h = hash_str(&src);
        if !ctx.mine(h) {
            continue;
        }
        let replay = || json!({"kind": "render", "config": "stdlib", "template": src, "partials": [], "data": {}, "expected": want.dump()});
        ctx.record(h, true);
        ctx.count(&format!("literal:{}", want.kind()));
        let t = match env.parser.parse(&src) {
            Ok(t) => t,
            Err(e) => {
                ctx.violation("literal:rejected", &format!("{src:?}: {}", e.to_string().lines().next().unwrap_or("")), replay);
                continue;
            }
        };
        match render(&t, &empty) {
            Out::Ok(sx) => {
                let (dump, printed) = sx.split_once('|').unwrap_or((&sx, ""));
                // the dump of a string may itself contain '|': compare the whole expected text
                let want_print = crate::refm::print(&want).unwrap_or_default();
                let expect = format!("{}|{}", want.dump(), want_print);
                if sx != expect {
                    ctx.violation(
                        &format!("literal:denotes-wrong-value:{}", want.kind()),
                        &format!("literal {text:?} denotes {} and prints {want_print:?}; got dump {dump:?} and print {printed:?}", want.dump()),
                        replay,
                    );
                }
            }
            Out::Err(e) => ctx.violation("literal:render-fails", &format!("{src:?}: {e}"), replay),
            Out::Panic(p) => ctx.violation(&p.key(), &format!("{src:?} panicked: {}", p.msg), replay),
            Out::BadUtf8(_) => {}
        }
    }
    // out-of-range integer literals: rejected, or the float of the same value
    for (text, val) in [("9223372036854775808", 9223372036854775808.0f64), ("-9223372036854775809", -9223372036854775809.0), ("99999999999999999999", 1e20), ("+18446744073709551616", 18446744073709551616.0)] {
        let src = format!("{{{{ {text} | vdump }}}}");
        let h = hash_str(&src);
        if !ctx.mine(h) {
            continue;
        }
        ctx.record(h, true);
        ctx.count("literal:out-of-range-integer");
        match crate::mon::guard(|| env.parser.parse(&src)) {
            Ok(Ok(t)) => {
                let out = render(&t, &empty);
                if out.ok() != Some(RVal::Float(val).dump().as_str()) {
                    ctx.violation("literal:out-of-range-integer-became-something-else", &format!("{text} rendered {:?}; must be rejected or denote the float {val:e}", out.summary()), || {
                        json!({"kind": "render", "config": "stdlib", "template": src, "partials": [], "data": {}})
                    });
                }
            }
            Ok(Err(_)) => ctx.count("literal:out-of-range-integer:rejected"),
            Err(p) => ctx.violation(&p.key(), &format!("{src:?} panicked at parse: {}", p.msg), || json!({"kind": "parse", "config": "stdlib", "text": src})),
        }
    }
}

pub fn run(ctx: &mut Ctx) {
    ctx.start_watchdog(120);
    let env = Env {
        parser: parser(Config::Stdlib),
        parser_p: crate::cfg::parser_with(Config::Stdlib, crate::cfg::Policy::Eager, &[("show".to_string(), SHOW.to_string())]).expect("c07 parser with partial"),
    };
    let den = ctx.scale(6u32, 1u32);
    let mut rng = ctx.rng("c07-walk");
    for root in fixed_roots() {
        let RVal::Object(kv) = &root else { continue };
        let _ = kv;
        let mut idxs = Vec::new();
        walk(ctx, &env, &root, &root, &mut idxs, &mut rng, den);
    }
    let n = ctx.scale(30u64, 400u64);
    let gr = ctx.rng("c07-roots");
    for i in 0..n {
        let mut r = gr.fork(i);
        let root = gen_root(&mut r);
        let mut idxs = Vec::new();
        walk(ctx, &env, &root, &root, &mut idxs, &mut rng, den * 2);
    }
    literals(ctx, &env);
}

pub fn replay(j: &serde_json::Value) -> bool {
    let v = crate::checks::c02::replay(j);
    if let Some(e) = j["expected"].as_str() {
        println!("expected: {e}");
    }
    // a recorded path/literal violation reproduces when the outcome still mismatches; the generic
    // replay only knows crashes, so re-judge by key
    let key = j["key"].as_str().unwrap_or("");
    if key.starts_with("panic@") {
        return v;
    }
    let p = parser(Config::Stdlib);
    let src = j["template"].as_str().unwrap_or("");
    let data = RVal::from_json(&j["data"]);
    let o = if let RVal::Object(_) = data { data.to_object() } else { Object::new() };
    let out = p.parse(src).ok().map(|t| render(&t, &o));
    match (key, out) {
        ("path:missing-step-does-not-fail", Some(Out::Ok(_))) => true,
        ("path:existing-path-fails", Some(Out::Err(_))) => true,
        (k, Some(Out::Ok(sx))) if k.starts_with("path:") => {
            let want = j["expected"].as_str().unwrap_or("");
            !want.contains(sx.split('|').next().unwrap_or("\u{0}"))
        }
        (k, Some(Out::Ok(sx))) if k.starts_with("literal:") => !sx.starts_with(j["expected"].as_str().unwrap_or("\u{0}")),
        (_, None) => true,
        _ => false,
    }
}
