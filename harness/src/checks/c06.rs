//! C06 — conditionals render exactly one branch, chosen by Liquid truth and comparison.
//!
//! non-trivial rule: operator cells — the two operands differ by strict dump or are not plain
//! scalars; chain/case programs — at least two arms or two atoms.
use super::common::{run_case, Case};
use crate::cfg::{parser, Config};
use crate::ctx::Ctx;
use crate::exec::{render, Out};
use crate::gen::ast::*;
use crate::refm;
use crate::rng::{hash_str, Rng};
use crate::val::{arr, obj, s, RVal};
use liquid::model::ValueViewCmp;
use liquid::Object;
use serde_json::json;

pub fn pool() -> Vec<RVal> {
    vec![
        RVal::Nil,
        RVal::Bool(true),
        RVal::Bool(false),
        RVal::Int(0),
        RVal::Int(1),
        RVal::Int(-1),
        RVal::Int(2),
        RVal::Int(10),
        RVal::Float(0.0),
        RVal::Float(1.0),
        RVal::Float(1.5),
        RVal::Float(-1.0),
        RVal::Float(2.0),
        s(""),
        s(" "),
        s("\n"),
        // whitespace-only strings with non-ASCII / vertical white space are blank too
        s("\u{a0}"),
        s("\u{3000} \u{2003}"),
        s("\u{b}"),
        s("1"),
        s("1.0"),
        s("a"),
        s("ab"),
        s("b"),
        s("A"),
        s("true"),
        s("é"),
        arr(vec![]),
        arr(vec![RVal::Int(1)]),
        arr(vec![RVal::Int(1), s("a")]),
        arr(vec![s("a")]),
        // arrays holding elements that non-scalar needles can equal (contains nil / empty / blank / an array)
        arr(vec![RVal::Int(1), RVal::Nil]),
        arr(vec![s("a"), s("")]),
        arr(vec![arr(vec![RVal::Int(1)]), RVal::Int(2)]),
        obj(vec![]),
        obj(vec![("a", RVal::Int(1))]),
        RVal::Empty,
        RVal::Blank,
    ]
}

fn has_literal(v: &RVal) -> bool {
    match v {
        RVal::Array(_) | RVal::Object(_) => false,
        // the grammar has no escape sequences: a string literal cannot hold its own quote
        RVal::Str(s) => !(s.contains('\'') && s.contains('"')),
        RVal::Float(f) => f.is_finite(),
        _ => true,
    }
}

fn api_result(a: &liquid::model::Value, op: Op, b: &liquid::model::Value) -> Option<bool> {
    let (ca, cb) = (ValueViewCmp::new(a), ValueViewCmp::new(b));
    Some(match op {
        Op::Eq => ca == cb,
        Op::Ne | Op::NeAlt => ca != cb,
        Op::Lt => ca < cb,
        Op::Gt => ca > cb,
        Op::Le => ca <= cb,
        Op::Ge => ca >= cb,
        Op::Contains => return None,
    })
}

fn operator_cells(ctx: &mut Ctx) {
    let pool = pool();
    let p = parser(Config::Stdlib);
    for op in Op::ALL {
        for (i, a) in pool.iter().enumerate() {
            for (j, b) in pool.iter().enumerate() {
                // each side as literal and through a variable
                for (la, lb) in [(false, false), (true, false), (false, true), (true, true)] {
                    if (la && !has_literal(a)) || (lb && !has_literal(b)) {
                        continue;
                    }
                    let sa = if la { lit_src(a) } else { "x".to_string() };
                    let sb = if lb { lit_src(b) } else { "y".to_string() };
                    let src = format!("{{% if {sa} {} {sb} %}}T{{% else %}}F{{% endif %}}", op.src());
                    let h = hash_str(&format!("{src}|{i}|{j}"));
                    if !ctx.mine(h) {
                        continue;
                    }
                    let t = match p.parse(&src) {
                        Ok(t) => t,
                        Err(e) => {
                            ctx.violation("operator:well-formed-condition-rejected", &format!("{src:?}: {}", e.to_string().lines().next().unwrap_or("")), || json!({"kind": "render", "config": "stdlib", "template": src, "partials": [], "data": {}}));
                            continue;
                        }
                    };
                    let (va, vb) = (a.to_liquid(), b.to_liquid());
                    let mut o = Object::new();
                    o.insert("x".into(), va.clone());
                    o.insert("y".into(), vb.clone());
                    let out = render(&t, &o);
                    let nontrivial = a.dump() != b.dump() || !matches!(a, RVal::Int(_) | RVal::Str(_) | RVal::Float(_));
                    ctx.record(h, nontrivial);
                    ctx.count(&format!("operator:{}", op.src()));
                    let replay = || {
                        json!({"kind": "render", "config": "stdlib", "template": src, "partials": [],
                            "data": RVal::Object(vec![("x".into(), a.clone()), ("y".into(), b.clone())]).to_json()})
                    };
                    let got = match &out {
                        Out::Ok(s) if s == "T" => Some(true),
                        Out::Ok(s) if s == "F" => Some(false),
                        Out::Ok(s) => {
                            ctx.violation("not-exactly-one-branch", &format!("{src:?} rendered {s:?}"), replay);
                            continue;
                        }
                        Out::Err(_) => None,
                        Out::Panic(pn) => {
                            ctx.violation(&pn.key(), &format!("{src:?} panicked: {}", pn.msg), replay);
                            continue;
                        }
                        Out::BadUtf8(_) => continue,
                    };
                    // L1 plumbing: the branch equals the value model's answer through the Rust API
                    if let Some(api) = api_result(&va, op, &vb) {
                        ctx.count("L1:compared-with-rust-api");
                        if got != Some(api) {
                            ctx.violation(
                                &format!("L1:template-disagrees-with-value-model:{}", op.src()),
                                &format!("{src:?} with x={} y={}: template chose {got:?}, ValueViewCmp says {api}", a.dump(), b.dump()),
                                replay,
                            );
                        }
                    }
                    // L2 independent table on the cells the statement fixes
                    if let Some(want) = refm::compare(a, op, b) {
                        ctx.count("L2:compared-with-independent-table");
                        if got != Some(want) {
                            ctx.violation(
                                &format!("L2:comparison-differs-from-table:{}", op.src()),
                                &format!("{src:?} with x={} y={}: template chose {got:?}, the statement's table says {want}", a.dump(), b.dump()),
                                replay,
                            );
                        }
                    } else {
                        ctx.count("L2:cell-not-claimed");
                    }
                    ctx.sample(|| json!({"template": src, "x": a.dump(), "y": b.dump(), "chosen": format!("{got:?}")}));
                }
            }
        }
    }
    // bare truthiness of every pool value, literal and variable, plus undefined names
    for (i, a) in pool.iter().enumerate() {
        for lit in [false, true] {
            if lit && !has_literal(a) {
                continue;
            }
            let sa = if lit { lit_src(a) } else { "x".to_string() };
            for (kw, neg) in [("if", false), ("unless", true)] {
                let src = format!("{{% {kw} {sa} %}}T{{% else %}}F{{% end{kw} %}}");
                let h = hash_str(&format!("{src}|{i}"));
                if !ctx.mine(h) {
                    continue;
                }
                let t = p.parse(&src).expect("truthiness template");
                let mut o = Object::new();
                o.insert("x".into(), a.to_liquid());
                let out = render(&t, &o);
                ctx.record(h, true);
                ctx.count("truthiness-cells");
                // empty/blank literals as bare values are markers, not data: not claimed
                if matches!(a, RVal::Empty | RVal::Blank) {
                    continue;
                }
                let want = refm::truthy(a) != neg;
                if out.ok() != Some(if want { "T" } else { "F" }) {
                    ctx.violation("truthiness-differs", &format!("{src:?} with x={}: got {:?}, a bare value is true unless nil or false", a.dump(), out.summary()), || {
                        json!({"kind": "render", "config": "stdlib", "template": src, "partials": [], "data": RVal::Object(vec![("x".into(), a.clone())]).to_json()})
                    });
                }
            }
        }
    }
}

fn marker(i: usize) -> Vec<Node> {
    vec![Node::Text(format!("<{i}>"))]
}

fn chains(ctx: &mut Ctx) {
    // if/elsif chains with all truth assignments over {true, false, undefined}
    let vals = [Some(true), Some(false), None];
    for arms in 1..=4usize {
        let total = 3usize.pow(arms as u32);
        for code in 0..total {
            let mut kv: Vec<(String, RVal)> = Vec::new();
            let mut c = code;
            for k in 0..arms {
                if let Some(b) = vals[c % 3] {
                    kv.push((format!("t{k}"), RVal::Bool(b)));
                }
                c /= 3;
            }
            let data = RVal::Object(kv);
            for with_else in [false, true] {
                let arms_nodes: Vec<(Cond, Vec<Node>)> = (0..arms).map(|k| (Cond::atom(Atom::Truthy(Expr::var(&format!("t{k}")))), marker(k))).collect();
                let main = vec![Node::Text("[".into()), Node::If { arms: arms_nodes.clone(), else_: if with_else { Some(marker(9)) } else { None } }, Node::Text("]".into())];
                run_case(ctx, &Case { main: &main, partials: &[], data: &data, family: "if-elsif-chain", strip_newlines: false, style_seed: code as u64 }, arms >= 2);
                if arms == 1 {
                    let main = vec![Node::Text("[".into()), Node::Unless { cond: arms_nodes[0].0.clone(), body: marker(0), else_: if with_else { Some(marker(9)) } else { None } }, Node::Text("]".into())];
                    run_case(ctx, &Case { main: &main, partials: &[], data: &data, family: "unless", strip_newlines: false, style_seed: code as u64 }, true);
                }
            }
        }
    }
    // and/or chains of the claimed shapes: or* and*  (x1 or x2 or (x3 and x4))
    for len in 1..=4usize {
        for n_or in 0..len {
            // atoms 0..=n_or-1 are or-operands, the rest form one and-group
            for code in 0..(1usize << len) {
                let data = RVal::Object((0..len).map(|k| (format!("t{k}"), RVal::Bool(code >> k & 1 == 1))).collect());
                let mut ors: Vec<Vec<Atom>> = (0..n_or).map(|k| vec![Atom::Truthy(Expr::var(&format!("t{k}")))]).collect();
                ors.push((n_or..len).map(|k| Atom::Truthy(Expr::var(&format!("t{k}")))).collect());
                let main = vec![Node::If { arms: vec![(Cond { ors }, marker(1))], else_: Some(marker(0)) }];
                run_case(ctx, &Case { main: &main, partials: &[], data: &data, family: "and-or-grouping", strip_newlines: false, style_seed: code as u64 }, len >= 2);
            }
        }
    }
    // bare member tests where an inner binding shadows an outer variable that has the member,
    // and bare tests of undefined names that collide with the special names
    {
        let outer = RVal::Object(vec![("flag".into(), RVal::Bool(true)), ("size".into(), RVal::Int(3))]);
        let items = vec![
            RVal::Object(vec![("other".into(), RVal::Int(1))]),
            RVal::Object(vec![("flag".into(), RVal::Bool(false))]),
            RVal::Object(vec![("flag".into(), RVal::Int(0))]),
            RVal::Str("plain".into()),
            RVal::Int(7),
            RVal::Nil,
        ];
        let data = RVal::Object(vec![("x".into(), outer), ("xs".into(), RVal::Array(items))]);
        for member in ["flag", "other", "missing", "size"] {
            let test = |kw_unless: bool| {
                let cond = Cond::atom(Atom::Truthy(Expr::Var(Path::name("x").dot(member))));
                if kw_unless {
                    Node::Unless { cond, body: marker(1), else_: Some(marker(0)) }
                } else {
                    Node::If { arms: vec![(cond, marker(1))], else_: Some(marker(0)) }
                }
            };
            for kw_unless in [false, true] {
                let main = vec![
                    test(kw_unless),
                    Node::For { var: "x".into(), coll: Coll::Expr(Expr::var("xs")), limit: None, offset: None, reversed: false, body: vec![test(kw_unless)], else_: None },
                    test(kw_unless),
                ];
                run_case(ctx, &Case { main: &main, partials: &[], data: &data, family: "shadowed-member-test", strip_newlines: false, style_seed: 3 }, true);
                // the same test after an assign (and after a capture) re-bound x over the caller's x
                for k in 0..6usize {
                    let main = vec![
                        test(kw_unless),
                        Node::Assign("x".into(), Expr::Var(Path { root: "xs".into(), segs: vec![crate::gen::ast::Seg::Lit(RVal::Int(k as i64))] }), vec![]),
                        test(kw_unless),
                        Node::Capture("x".into(), vec![Node::Text("captured".into())]),
                        test(kw_unless),
                    ];
                    run_case(ctx, &Case { main: &main, partials: &[], data: &data, family: "shadowed-member-test", strip_newlines: false, style_seed: 5 + k as u64 }, true);
                }
            }
        }
        for name in ["size", "first", "last", "forloop", "tablerow", "nope"] {
            let main = vec![Node::If { arms: vec![(Cond::atom(Atom::Truthy(Expr::var(name))), marker(1))], else_: Some(marker(0)) }];
            run_case(ctx, &Case { main: &main, partials: &[], data: &RVal::Object(vec![("k".into(), RVal::Int(1))]), family: "undefined-special-name", strip_newlines: false, style_seed: 4 }, true);
        }
    }
    // case/when: 1..4 arms, value lists with duplicates and overlaps, comma and `or`
    let targets = [RVal::Int(1), RVal::Int(2), s("a"), s("1"), RVal::Nil, RVal::Float(1.0), s("")];
    let whens = [RVal::Int(1), RVal::Int(2), s("a"), s("1"), RVal::Float(2.0), RVal::Nil];
    let mut rng = ctx.rng("c06-case");
    let n = ctx.scale(6_000u64, 60_000u64);
    for i in 0..n {
        let mut r = rng.fork(i);
        rng.next();
        let arms = 1 + r.below(4);
        let target = r.pick(&targets).clone();
        let arm_nodes: Vec<(Vec<Expr>, bool, Vec<Node>)> = (0..arms)
            .map(|k| {
                let nv = 1 + r.below(3);
                ((0..nv).map(|_| Expr::Lit(r.pick(&whens).clone())).collect(), r.chance(1, 2), marker(k))
            })
            .collect();
        let through_var = r.chance(1, 2);
        let data = RVal::Object(vec![("x".into(), target.clone())]);
        let main = vec![
            Node::Text("[".into()),
            Node::Case { target: if through_var || !has_literal(&target) { Expr::var("x") } else { Expr::Lit(target.clone()) }, arms: arm_nodes, else_: if r.chance(1, 2) { Some(marker(9)) } else { None } },
            Node::Text("]".into()),
        ];
        run_case(ctx, &Case { main: &main, partials: &[], data: &data, family: "case-when", strip_newlines: false, style_seed: r.next() }, arms >= 2);
        if i % 3 == 0 {
            // the same case node evaluated for several targets in a row (inside a loop): each pass
            // takes the first arm that matches *that* target
            if let Node::Case { arms: arm_nodes, else_, .. } = &main[1] {
                let xs: Vec<RVal> = (0..3 + r.below(3)).map(|_| r.pick(&targets).clone()).collect();
                let data = RVal::Object(vec![("xs".into(), RVal::Array(xs))]);
                let looped = vec![Node::For {
                    var: "x".into(),
                    coll: Coll::Expr(Expr::var("xs")),
                    limit: None,
                    offset: None,
                    reversed: false,
                    body: vec![Node::Text("[".into()), Node::Case { target: Expr::var("x"), arms: arm_nodes.clone(), else_: else_.clone() }, Node::Text("]".into())],
                    else_: None,
                }];
                run_case(ctx, &Case { main: &looped, partials: &[], data: &data, family: "case-when-in-loop", strip_newlines: false, style_seed: r.next() }, true);
            }
        }
    }
}

fn random_nesting(ctx: &mut Ctx) {
    let n = ctx.scale(10_000u64, 200_000u64);
    let rng = ctx.rng("c06-nest");
    for i in 0..n {
        let mut r = rng.fork(i);
        let data = RVal::Object(vec![
            ("a".into(), RVal::Int(r.range(0, 3))),
            ("b".into(), s(r.choose(&["", "a", "ab"]))),
            ("c".into(), if r.chance(1, 2) { RVal::Nil } else { RVal::Bool(r.chance(1, 2)) }),
            ("d".into(), arr((0..r.below(3)).map(|k| RVal::Int(k as i64)).collect())),
        ]);
        let mut counter = 0usize;
        let main = gen_cond_tree(&mut r, 0, &mut counter);
        run_case(ctx, &Case { main: &main, partials: &[], data: &data, family: "random-nesting", strip_newlines: false, style_seed: r.next() }, true);
    }
}

fn gen_atom(r: &mut Rng) -> Atom {
    match r.below(8) {
        0 => Atom::Truthy(Expr::var(r.choose(&["a", "b", "c", "d", "u"]))),
        1 => Atom::Cmp(Expr::var("a"), *r.pick(&[Op::Eq, Op::Ne, Op::Lt, Op::Gt, Op::Le, Op::Ge]), Expr::int(r.range(0, 3))),
        2 => Atom::Cmp(Expr::var("b"), *r.pick(&[Op::Eq, Op::Ne, Op::NeAlt, Op::Lt, Op::Ge]), Expr::str(r.choose(&["", "a", "b"]))),
        3 => Atom::Cmp(Expr::var("b"), Op::Contains, Expr::str(r.choose(&["a", "b", ""]))),
        4 => Atom::Cmp(Expr::var("d"), Op::Contains, Expr::int(r.range(0, 2))),
        5 => Atom::Cmp(Expr::var(r.choose(&["b", "d"])), Op::Eq, Expr::Lit(RVal::Empty)),
        6 => Atom::Cmp(Expr::var("a"), Op::Eq, Expr::var("b")),
        _ => Atom::Cmp(Expr::var("b"), Op::Eq, Expr::Lit(RVal::Blank)),
    }
}

fn gen_cond(r: &mut Rng) -> Cond {
    let n_or = r.below(3);
    let mut ors: Vec<Vec<Atom>> = (0..n_or).map(|_| vec![gen_atom(r)]).collect();
    let n_and = 1 + r.below(2);
    ors.push((0..n_and).map(|_| gen_atom(r)).collect());
    Cond { ors }
}

fn gen_cond_tree(r: &mut Rng, depth: usize, counter: &mut usize) -> Vec<Node> {
    let mut out = Vec::new();
    let n = 1 + r.below(2);
    for _ in 0..n {
        *counter += 1;
        let id = *counter;
        let leaf = |c: &mut usize| {
            *c += 1;
            vec![Node::Text(format!("<{}>", *c))]
        };
        let sub = |r: &mut Rng, c: &mut usize| if depth < 2 && r.chance(1, 2) { gen_cond_tree(r, depth + 1, c) } else { leaf(c) };
        let node = match r.below(3) {
            0 => {
                let arms = 1 + r.below(3);
                Node::If { arms: (0..arms).map(|_| (gen_cond(r), sub(r, counter))).collect(), else_: if r.chance(1, 2) { Some(sub(r, counter)) } else { None } }
            }
            1 => Node::Unless { cond: gen_cond(r), body: sub(r, counter), else_: if r.chance(1, 2) { Some(sub(r, counter)) } else { None } },
            _ => Node::Case {
                target: Expr::var(r.choose(&["a", "b"])),
                arms: (0..1 + r.below(3)).map(|_| (vec![Expr::Lit(r.pick(&[RVal::Int(0), RVal::Int(1), s("a"), s("")]).clone())], false, sub(r, counter))).collect(),
                else_: if r.chance(1, 2) { Some(sub(r, counter)) } else { None },
            },
        };
        out.push(Node::Text(format!("({id}")));
        out.push(node);
        out.push(Node::Text(")".into()));
    }
    out
}

/// A condition is evaluated afresh every time: one compiled template rendered against many
/// data objects, and one condition re-evaluated inside a loop over many values, give each time
/// what a freshly parsed template gives for that value alone.
fn reused_conditions(ctx: &mut Ctx) {
    let pool = pool();
    let p = parser(Config::Stdlib);
    let branch = |o: &Out| match o {
        Out::Ok(s) if s == "T" => Some("T"),
        Out::Ok(s) if s == "F" => Some("F"),
        _ => None,
    };
    for op in Op::ALL {
        for (i, a) in pool.iter().enumerate() {
            if !has_literal(a) {
                continue;
            }
            for lit_left in [true, false] {
                let cond = if lit_left { format!("{} {} y", lit_src(a), op.src()) } else { format!("y {} {}", op.src(), lit_src(a)) };
                let src = format!("{{% if {cond} %}}T{{% else %}}F{{% endif %}}");
                let h = hash_str(&format!("reused|{src}|{i}"));
                if !ctx.mine(h) {
                    continue;
                }
                let Ok(shared) = p.parse(&src) else { continue };
                let mut usable: Vec<(RVal, &'static str)> = Vec::new();
                for b in pool.iter() {
                    let mut o = Object::new();
                    o.insert("y".into(), b.to_liquid());
                    let fresh = match p.parse(&src) {
                        Ok(t) => render(&t, &o),
                        Err(_) => continue,
                    };
                    let again = render(&shared, &o);
                    ctx.count("reused-template:renders");
                    if fresh.summary() != again.summary() {
                        let (src2, b2) = (src.clone(), b.clone());
                        ctx.violation(
                            "condition-result-depends-on-earlier-evaluation",
                            &format!("{src:?} with y={}: a fresh template gives {:?}, the same template after earlier renders gives {:?}", b.dump(), fresh.summary(), again.summary()),
                            || json!({"kind": "render", "config": "stdlib", "template": src2, "partials": [], "data": RVal::Object(vec![("y".into(), b2)]).to_json()}),
                        );
                    }
                    if let Some(br) = branch(&fresh) {
                        usable.push((b.clone(), br));
                    }
                }
                // the same condition inside a loop over every value it can be evaluated for
                let loop_src = format!("{{% for y in ys %}}{{% if {cond} %}}T{{% else %}}F{{% endif %}}{{% endfor %}}");
                if let Ok(t) = p.parse(&loop_src) {
                    let ys = RVal::Array(usable.iter().map(|(b, _)| b.clone()).collect());
                    let mut o = Object::new();
                    o.insert("ys".into(), ys.to_liquid());
                    let want: String = usable.iter().map(|(_, br)| *br).collect();
                    let got = render(&t, &o);
                    ctx.count("reused-in-loop:renders");
                    ctx.add("reused-in-loop:evaluations", usable.len() as u64);
                    if got.ok() != Some(want.as_str()) {
                        let (ls, ys2) = (loop_src.clone(), ys.clone());
                        ctx.violation(
                            "condition-result-depends-on-earlier-evaluation",
                            &format!("{loop_src:?}: per-value answers are {want:?} but the loop rendered {:?}", got.summary()),
                            || json!({"kind": "render", "config": "stdlib", "template": ls, "partials": [], "data": RVal::Object(vec![("ys".into(), ys2)]).to_json()}),
                        );
                    }
                }
                ctx.record(h, true);
            }
        }
    }
}

pub fn run(ctx: &mut Ctx) {
    ctx.start_watchdog(120);
    operator_cells(ctx);
    reused_conditions(ctx);
    chains(ctx);
    random_nesting(ctx);
}

pub fn replay(j: &serde_json::Value) -> bool {
    if j["kind"] == "program" {
        return super::common::replay_program(j);
    }
    // operator cell: re-run and re-judge
    let violated = crate::checks::c02::replay(j);
    let data = RVal::from_json(&j["data"]);
    if let RVal::Object(kv) = &data {
        let get = |n: &str| kv.iter().find(|(k, _)| k == n).map(|(_, v)| v.clone());
        if let (Some(a), Some(b)) = (get("x"), get("y")) {
            for op in Op::ALL {
                if j["template"].as_str().unwrap_or("").contains(&format!(" {} ", op.src())) {
                    println!("value model (Rust API): {:?}; statement's table: {:?}", api_result(&a.to_liquid(), op, &b.to_liquid()), refm::compare(&a, op, &b));
                }
            }
        }
    }
    let _ = violated;
    // reproduces iff the recorded key still applies: re-run the cell through the checker
    let mut ctx = Ctx::new("C06", crate::ctx::Tier::Quick, 1, 0, 1, None);
    operator_cells(&mut ctx);
    reused_conditions(&mut ctx);
    let key = j["key"].as_str().unwrap_or("");
    ctx.violation_counts.contains_key(key)
}
