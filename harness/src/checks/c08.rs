//! C08 — include shares the caller's scope; render isolates the partial.
//!
//! non-trivial rule: the executed or dead paths of the caller contain at least one include or
//! render tag (all generated scenarios do; scenarios whose reference verdict is "unspecified"
//! are not counted).
use super::common::{run_case, Case, PSrc};
use crate::ctx::Ctx;
use crate::gen::ast::*;
use crate::gen::scope::{probe, ScopeGen, ScopeOpts};
use crate::rng::Rng;
use crate::val::{s, RVal};

fn scenario(r: &mut Rng) -> (Vec<Node>, Vec<(String, PSrc)>, RVal) {
    let n_partials = 1 + r.below(3);
    let names: Vec<String> = (1..=n_partials).map(|i| format!("p{i}")).collect();
    let mut parts: Vec<(String, PSrc)> = Vec::new();
    // partial i may invoke partials with a larger index (nesting <= 3, no recursion)
    for i in 0..n_partials {
        let mut callable: Vec<String> = names[i + 1..].to_vec();
        if r.chance(1, 6) {
            callable.push("missing".into());
        }
        let o = ScopeOpts {
            callable,
            allow_render: true,
            allow_cycle_ifchanged: true,
            // a break/continue at the top level of a partial: include propagates it to the caller's loop
            allow_interrupts_at_top: r.chance(1, 3),
            max_depth: 2,
            dynamic_names: false,
        };
        let mut g = ScopeGen { rng: r, o };
        let len = 1 + g.rng.below(4);
        parts.push((names[i].clone(), PSrc::Ast(g.body(0, false, len))));
    }
    let with_broken = r.chance(1, 3);
    if with_broken {
        parts.push(("broken".into(), PSrc::Broken(r.choose(&["{% if %}", "{{ a | nofilter }}", "{% endfor %}", "{% for %}x"]).to_string())));
    }
    let mut callable = names.clone();
    if r.chance(1, 6) {
        callable.push("missing".into());
    }
    if with_broken {
        callable.push("broken".into());
    }
    let o = ScopeOpts { callable, allow_render: true, allow_cycle_ifchanged: true, allow_interrupts_at_top: false, max_depth: 3, dynamic_names: true };
    let main = {
        let mut g = ScopeGen { rng: r, o };
        let len = 1 + g.rng.below(6);
        let mut m = g.body(0, false, len);
        // dead path naming a missing / broken partial: must not affect anything
        if g.rng.chance(1, 2) {
            let dead = if with_broken && g.rng.chance(1, 2) { "broken" } else { "missing" };
            let tag = if g.rng.chance(1, 2) {
                Node::Include { name: Expr::str(dead), args: vec![] }
            } else {
                Node::Render { name: Expr::str(dead), mode: RenderMode::Plain, args: vec![] }
            };
            let pos = g.rng.below(m.len() + 1);
            m.insert(pos, Node::If { arms: vec![(Cond::atom(Atom::Truthy(Expr::Lit(RVal::Bool(false)))), vec![tag])], else_: None });
        }
        m
    };
    let mut kv: Vec<(String, RVal)> = match r.below(3) {
        0 => vec![("a".into(), s("da")), ("b".into(), RVal::Int(5))],
        1 => vec![("c".into(), s("dc"))],
        _ => vec![("a".into(), RVal::Int(1)), ("b".into(), s("db")), ("c".into(), RVal::Bool(true))],
    };
    for n in &names {
        kv.push((format!("pn_{n}"), s(n)));
    }
    (main, parts, RVal::Object(kv))
}

/// fixed, hand-written scenarios for each clause of the statement (the generator covers the
/// combinations; these make sure every clause is exercised on every run)
fn fixed() -> Vec<(Vec<Node>, Vec<(String, PSrc)>, RVal)> {
    let v = Expr::var;
    let txt = |t: &str| Node::Text(t.to_string());
    let data = RVal::Object(vec![("a".into(), s("da")), ("b".into(), RVal::Int(5))]);
    let mut out = Vec::new();
    // include: sees and rebinds caller variables, arguments visible only inside, break ends caller loop
    let p = vec![Node::Out(v("a"), vec![]), Node::Out(v("x"), vec![]), Node::Assign("a".into(), Expr::str("from-p"), vec![]), Node::If { arms: vec![(Cond::atom(Atom::Cmp(v("i"), Op::Eq, Expr::int(2))), vec![Node::Break])], else_: None }, txt("|")];
    let main = {
        let mut m = vec![Node::For { var: "i".into(), coll: Coll::Range(Expr::int(1), Expr::int(4)), limit: None, offset: None, reversed: false, body: vec![Node::Include { name: Expr::str("p"), args: vec![("x".into(), Expr::str("arg"))] }, txt("after")], else_: None }];
        m.extend(probe());
        m.push(Node::If { arms: vec![(Cond::atom(Atom::Truthy(v("x"))), vec![txt("x-leaked")])], else_: Some(vec![txt("x-gone")]) });
        m
    };
    out.push((main, vec![("p".to_string(), PSrc::Ast(p))], data.clone()));
    // render: starts from its arguments only; assignments / break never reach the caller; forloop truthful
    let q = vec![
        Node::If { arms: vec![(Cond::atom(Atom::Truthy(v("a"))), vec![txt("sees-a")])], else_: Some(vec![txt("no-a")]) },
        Node::Out(v("k"), vec![]),
        Node::Assign("a".into(), Expr::str("q-a"), vec![]),
        Node::Assign("k".into(), Expr::str("rebound"), vec![]),
        Node::Out(v("k"), vec![]),
        Node::Cycle { group: Some(Expr::str("g")), values: vec![Expr::int(1), Expr::int(2)] },
        Node::Break,
        txt("unreached"),
    ];
    let main = {
        let mut m = vec![Node::Cycle { group: Some(Expr::str("g")), values: vec![Expr::int(1), Expr::int(2)] }];
        m.push(Node::For { var: "i".into(), coll: Coll::Range(Expr::int(1), Expr::int(2)), limit: None, offset: None, reversed: false, body: vec![Node::Render { name: Expr::str("q"), mode: RenderMode::Plain, args: vec![("k".into(), v("b"))] }, txt(";")], else_: None });
        m.push(Node::Render { name: Expr::str("q"), mode: RenderMode::With(Expr::str("w"), "k".into()), args: vec![] });
        m.push(Node::Cycle { group: Some(Expr::str("g")), values: vec![Expr::int(1), Expr::int(2)] });
        m.extend(probe());
        m
    };
    out.push((main, vec![("q".to_string(), PSrc::Ast(q))], data.clone()));
    let f = vec![txt("["), Node::Out(v("it"), vec![]), txt(":"), Node::Out(Expr::Var(Path::name("forloop").dot("index")), vec![]), txt("/"), Node::Out(Expr::Var(Path::name("forloop").dot("length")), vec![]), Node::Out(Expr::Var(Path::name("forloop").dot("last")), vec![]), txt("]")];
    let main = vec![Node::Render { name: Expr::str("f"), mode: RenderMode::For(Coll::Expr(v("xs")), "it".into()), args: vec![] }, Node::Render { name: Expr::str("f"), mode: RenderMode::For(Coll::Range(Expr::int(3), Expr::int(2)), "it".into()), args: vec![] }, txt(".")];
    out.push((main, vec![("f".to_string(), PSrc::Ast(f))], RVal::Object(vec![("xs".into(), RVal::Array(vec![s("u"), s("v"), s("w")]))])));
    // render-for is the partial's loop: a top-level break in the partial ends the remaining elements
    // (a continue only the current one), never the caller's enclosing loop; an argument named
    // `forloop` does not displace the truthful forloop
    let g = vec![
        txt("<"),
        Node::Out(v("it"), vec![]),
        Node::Out(Expr::Var(Path::name("forloop").dot("index")), vec![]),
        // the caller's loop is not this partial's parent loop
        Node::If { arms: vec![(Cond::atom(Atom::Truthy(Expr::Var(Path::name("forloop").dot("parentloop")))), vec![txt("PARENT-LEAK")])], else_: None },
        Node::If { arms: vec![(Cond::atom(Atom::Cmp(v("it"), Op::Eq, v("stop"))), vec![Node::Break])], else_: None },
        Node::If { arms: vec![(Cond::atom(Atom::Cmp(v("it"), Op::Eq, v("skip"))), vec![Node::Continue])], else_: None },
        txt(">"),
    ];
    let main = {
        let mut m = vec![Node::For {
            var: "o".into(),
            coll: Coll::Range(Expr::int(1), Expr::int(3)),
            limit: None,
            offset: None,
            reversed: false,
            body: vec![
                txt("("),
                Node::Render { name: Expr::str("g"), mode: RenderMode::For(Coll::Range(Expr::int(1), Expr::int(4)), "it".into()), args: vec![("stop".into(), v("o")), ("skip".into(), Expr::int(1)), ("forloop".into(), Expr::str("fake"))] },
                txt(")"),
            ],
            else_: None,
        }];
        m.extend(probe());
        m
    };
    out.push((main, vec![("g".to_string(), PSrc::Ast(g))], data.clone()));
    // one include/render tag whose name changes from pass to pass (and finally names nothing)
    for (names, tag_is_include) in [(vec!["p", "q2", "p"], true), (vec!["q2", "p"], false), (vec!["p", "missing"], true), (vec!["p", "q2", "missing"], false)] {
        let tag = if tag_is_include {
            Node::Include { name: v("n"), args: vec![] }
        } else {
            Node::Render { name: v("n"), mode: RenderMode::Plain, args: vec![("a".into(), v("n"))] }
        };
        let main = vec![Node::For { var: "n".into(), coll: Coll::Expr(v("names")), limit: None, offset: None, reversed: false, body: vec![txt("("), tag, txt(")")], else_: None }];
        let pp = vec![txt("P:"), Node::Out(v("a"), vec![])];
        let qq = vec![txt("Q:"), Node::Out(v("a"), vec![]), Node::Assign("a".into(), Expr::str("set-by-q2"), vec![])];
        let d = RVal::Object(vec![("a".into(), s("da")), ("names".into(), RVal::Array(names.iter().map(|n| s(n)).collect()))]);
        out.push((main, vec![("p".to_string(), PSrc::Ast(pp)), ("q2".to_string(), PSrc::Ast(qq))], d));
    }
    // missing / broken on executed paths
    for (tag_is_include, name) in [(true, "missing"), (false, "missing"), (true, "broken"), (false, "broken")] {
        let tag = if tag_is_include { Node::Include { name: Expr::str(name), args: vec![] } } else { Node::Render { name: Expr::str(name), mode: RenderMode::Plain, args: vec![] } };
        out.push((vec![txt("before"), tag, txt("after")], vec![("broken".to_string(), PSrc::Broken("{% if %}".into()))], data.clone()));
    }
    out
}

pub fn run(ctx: &mut Ctx) {
    ctx.start_watchdog(180);
    for (k, (main, parts, data)) in fixed().into_iter().enumerate() {
        let c = Case { main: &main, partials: &parts, data: &data, family: "fixed-clauses", strip_newlines: false, style_seed: k as u64 };
        run_case(ctx, &c, true);
    }
    let n = ctx.scale(50_000u64, 1_000_000u64);
    let rng = ctx.rng("c08");
    for i in 0..n {
        let mut r = rng.fork(i);
        let (main, parts, data) = scenario(&mut r);
        let c = Case { main: &main, partials: &parts, data: &data, family: "generated-scenarios", strip_newlines: false, style_seed: r.next() };
        run_case(ctx, &c, true);
    }
}

pub fn replay(j: &serde_json::Value) -> bool {
    super::common::replay_program(j)
}
