pub mod c01;
pub mod common;
pub mod c02;
pub mod c03;
pub mod c04;
pub mod c05;
pub mod c06;
pub mod c07;
pub mod c08;
pub mod c09;
pub mod c10;
pub mod c11;
pub mod c12;
pub mod c13;
pub mod c14;
pub mod c15;
pub mod c16;
pub mod c17;
pub mod c18;
pub mod c19;
pub mod c20;

use crate::ctx::Ctx;

pub fn run(check: &str, ctx: &mut Ctx, args: &[String]) -> bool {
    match check {
        "c01" => c01::run(ctx),
        "c02" => c02::run(ctx),
        "c03" => c03::run(ctx),
        "c04" => c04::run(ctx),
        "c05" => c05::run(ctx),
        "c06" => c06::run(ctx),
        "c07" => c07::run(ctx),
        "c08" => c08::run(ctx),
        "c09" => c09::run(ctx),
        "c10" => c10::run(ctx),
        "c11" => c11::run(ctx, args),
        "c12" => c12::run(ctx, args),
        "c13" => c13::run(ctx),
        "c14" => c14::run(ctx),
        "c15" => c15::run(ctx),
        "c16" => c16::run(ctx),
        "c17" => c17::run(ctx),
        "c18" => c18::run(ctx),
        "c19" => c19::run(ctx),
        "c20" => c20::run(ctx, args),
        _ => return false,
    }
    true
}

/// re-execute one recorded case; returns true iff the violation reproduces
pub fn replay(check: &str, j: &serde_json::Value) -> bool {
    match check {
        "c01" => c01::replay(j),
        "c02" => c02::replay(j),
        "c03" => c03::replay(j),
        "c04" => c04::replay(j),
        "c05" => c05::replay(j),
        "c06" => c06::replay(j),
        "c07" => c07::replay(j),
        "c08" => c08::replay(j),
        "c09" => c09::replay(j),
        "c10" => c10::replay(j),
        "c11" => c11::replay(j),
        "c12" => c12::replay(j),
        "c13" => c13::replay(j),
        "c14" => c14::replay(j),
        "c15" => c15::replay(j),
        "c16" => c16::replay(j),
        "c17" => c17::replay(j),
        "c18" => c18::replay(j),
        "c19" => c19::replay(j),
        "c20" => c20::replay(j),
        _ => {
            eprintln!("no replay for {check}");
            false
        }
    }
}
