pub mod c01;
pub mod c02;

use crate::ctx::Ctx;

pub fn run(check: &str, ctx: &mut Ctx, _args: &[String]) -> bool {
    match check {
        "c01" => c01::run(ctx),
        "c02" => c02::run(ctx),
        _ => return false,
    }
    true
}

/// re-execute one recorded case; returns true iff the violation reproduces
pub fn replay(check: &str, j: &serde_json::Value) -> bool {
    match check {
        "c01" => c01::replay(j),
        "c02" => c02::replay(j),
        _ => {
            eprintln!("no replay for {check}");
            false
        }
    }
}
