pub mod c01;
pub mod c02;
pub mod c09;
pub mod c10;
pub mod c19;
pub mod c20;

use crate::ctx::Ctx;

pub fn run(check: &str, ctx: &mut Ctx, _args: &[String]) -> bool {
    match check {
        "c01" => c01::run(ctx),
        "c02" => c02::run(ctx),
        "c09" => c09::run(ctx),
        "c10" => c10::run(ctx),
        "c19" => c19::run(ctx),
        "c20" => c20::run(ctx, _args),
        _ => return false,
    }
    true
}

/// re-execute one recorded case; returns true iff the violation reproduces
pub fn replay(check: &str, j: &serde_json::Value) -> bool {
    match check {
        "c01" => c01::replay(j),
        "c02" => c02::replay(j),
        "c09" => c09::replay(j),
        "c10" => c10::replay(j),
        "c19" => c19::replay(j),
        "c20" => c20::replay(j),
        _ => {
            eprintln!("no replay for {check}");
            false
        }
    }
}
