//! C04 — scoping: innermost binding wins, assignments persist, caller data untouched.
//!
//! non-trivial rule: the program contains at least one binding statement (assign, capture,
//! increment, decrement, for, include) — every generated program does except the empty one.
use super::common::{run_case, Case, PSrc};
use crate::ctx::Ctx;
use crate::gen::ast::Node;
use crate::gen::scope::{c04_data, c04_partials, expand, forests, probe, random_forest, ScopeGen, ScopeOpts};
use crate::val::{s, RVal};

pub fn run(ctx: &mut Ctx) {
    ctx.start_watchdog(180);
    let partials: Vec<(String, PSrc)> = c04_partials().into_iter().map(|(n, b)| (n, PSrc::Ast(b))).collect();
    let data = c04_data();
    let max_exhaustive = ctx.scale(3usize, 4usize);
    let mut memo = Vec::new();
    for n in 0..=max_exhaustive {
        let fs = forests(n, &mut memo);
        ctx.extra.insert(format!("programs_with_{n}_binding_statements"), serde_json::json!(fs.len()));
        for f in fs {
            let mut main = probe();
            main.extend(expand(&f));
            let c = Case { main: &main, partials: &partials, data: &data, family: "exhaustive-binding-programs", strip_newlines: false, style_seed: n as u64 };
            run_case(ctx, &c, n > 0);
        }
    }
    // a seeded sample of the next sizes
    let take = ctx.scale(20_000usize, 200_000usize);
    let mut rng = ctx.rng("c04-sample");
    for i in 0..take {
        let f = random_forest(&mut rng, max_exhaustive + 1 + i % 2);
        let mut main = probe();
        main.extend(expand(&f));
        let c = Case { main: &main, partials: &partials, data: &data, family: "sampled-larger-sizes", strip_newlines: false, style_seed: 7 };
        run_case(ctx, &c, true);
    }
    // random programs up to 14 statements, nesting to depth 4, richer partials
    let n = ctx.scale(20_000u64, 400_000u64);
    let rng = ctx.rng("c04-random");
    for i in 0..n {
        let mut r = rng.fork(i);
        let o = ScopeOpts { callable: vec![], allow_render: false, allow_cycle_ifchanged: false, allow_interrupts_at_top: false, max_depth: 1, dynamic_names: false };
        // partial bodies first (they may not call anything)
        let p1 = {
            let mut g = ScopeGen { rng: &mut r, o: o.clone() };
            let len = 1 + g.rng.below(3);
            g.body(0, false, len)
        };
        let p2 = {
            let mut g = ScopeGen { rng: &mut r, o: o.clone() };
            let len = 1 + g.rng.below(3);
            g.body(0, false, len)
        };
        let parts = vec![("p1".to_string(), PSrc::Ast(p1)), ("p2".to_string(), PSrc::Ast(p2))];
        let main = {
            let mut g = ScopeGen { rng: &mut r, o: ScopeOpts { callable: vec!["p1".into(), "p2".into()], max_depth: 4, ..o.clone() } };
            let len = 1 + g.rng.below(14);
            g.body(0, false, len)
        };
        let data = match r.below(3) {
            0 => c04_data(),
            1 => RVal::Object(vec![("c".into(), s("dc")), ("a".into(), RVal::Int(1))]),
            _ => RVal::Object(vec![]),
        };
        let c = Case { main: &main, partials: &parts, data: &data, family: "random-programs", strip_newlines: false, style_seed: r.next() };
        run_case(ctx, &c, true);
    }
    let _: Option<Node> = None;
}

pub fn replay(j: &serde_json::Value) -> bool {
    super::common::replay_program(j)
}
