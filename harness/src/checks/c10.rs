//! C10 — a failing sink produces an error and a clean prefix.
use crate::cfg::{parser_with, Config, Policy};
use crate::ctx::Ctx;
use crate::exec::first_line;
use crate::gen::prog::{scenario, Opts, Scenario};
use crate::mon::guard;
use crate::rng::{hash_combine, hash_str};
use liquid::Template;
use serde_json::json;
use std::io::{self, Write};

#[derive(Clone, Copy, PartialEq, Debug)]
pub enum Mode {
    /// never fail
    None,
    /// k-th write call returns Err
    Fail,
    /// k-th write call accepts one byte fewer than offered; the following call fails
    Short,
    /// k-th write call accepts only the first byte (a legal short write); the sink never fails,
    /// so the bytes it ends up with must be exactly the fault-free output
    ShortOk,
}

/// M6: recording / failing sink
pub struct Sink {
    pub mode: Mode,
    pub k: usize,
    pub calls: usize,
    pub accepted: Vec<u8>,
    pub failed_at: Option<usize>,
    pub calls_after_failure: usize,
    short_done: bool,
}

impl Sink {
    pub fn new(mode: Mode, k: usize) -> Sink {
        Sink {
            mode,
            k,
            calls: 0,
            accepted: Vec::new(),
            failed_at: None,
            calls_after_failure: 0,
            short_done: false,
        }
    }
}

impl Write for Sink {
    fn write(&mut self, buf: &[u8]) -> io::Result<usize> {
        self.calls += 1;
        if self.failed_at.is_some() {
            self.calls_after_failure += 1;
            return Err(io::Error::new(io::ErrorKind::Other, "sink already failed"));
        }
        match self.mode {
            Mode::None => {
                self.accepted.extend_from_slice(buf);
                Ok(buf.len())
            }
            Mode::Fail => {
                if self.calls == self.k {
                    self.failed_at = Some(self.calls);
                    Err(io::Error::new(io::ErrorKind::Other, "injected sink failure"))
                } else {
                    self.accepted.extend_from_slice(buf);
                    Ok(buf.len())
                }
            }
            Mode::ShortOk => {
                if self.calls == self.k && buf.len() > 1 {
                    self.accepted.push(buf[0]);
                    Ok(1)
                } else {
                    self.accepted.extend_from_slice(buf);
                    Ok(buf.len())
                }
            }
            Mode::Short => {
                if self.short_done {
                    self.failed_at = Some(self.calls);
                    Err(io::Error::new(io::ErrorKind::Other, "injected sink failure after short write"))
                } else if self.calls == self.k {
                    self.short_done = true;
                    let n = buf.len().saturating_sub(1);
                    self.accepted.extend_from_slice(&buf[..n]);
                    if n == 0 {
                        // Ok(0) is itself the failure event (write_all reports WriteZero)
                        self.failed_at = Some(self.calls);
                    }
                    Ok(n)
                } else {
                    self.accepted.extend_from_slice(buf);
                    Ok(buf.len())
                }
            }
        }
    }
    fn flush(&mut self) -> io::Result<()> {
        Ok(())
    }
}

fn replay_json(sc: &Scenario, mode: Mode, k: usize) -> serde_json::Value {
    let mut j = sc.to_json();
    j["kind"] = json!("sink");
    j["config"] = json!("stdlib");
    j["mode"] = json!(format!("{mode:?}"));
    j["k"] = json!(k);
    j
}

/// run one faulted render and apply the oracle; returns a violation description
fn faulted(t: &Template, data: &liquid::Object, mode: Mode, k: usize, clean: &[u8], clean_ok: bool) -> Result<(), (String, String)> {
    let mut sink = Sink::new(mode, k);
    let r = guard(|| t.render_to(&mut sink, data));
    if mode == Mode::ShortOk {
        // a sink that never fails: same result and same bytes as the fault-free run
        return match r {
            Err(p) => Err((p.key(), format!("render_to panicked at {} with a short-writing sink: {}", p.site(), p.msg))),
            Ok(res) => {
                if res.is_ok() != clean_ok {
                    Err(("short-write-changes-result".into(), format!("a short (1 byte) write at call {k} changed the result of render_to")))
                } else if sink.accepted != clean {
                    Err(("short-write-loses-bytes".into(), format!("after a legal short write at call {k} the sink holds {:?}, the fault-free output is {:?}", String::from_utf8_lossy(&sink.accepted), String::from_utf8_lossy(clean))))
                } else {
                    Ok(())
                }
            }
        };
    }
    match r {
        Err(p) => return Err((p.key(), format!("render_to panicked at {} with a failing sink: {}", p.site(), p.msg))),
        Ok(Ok(())) => {
            if sink.failed_at.is_some() || sink.short_done {
                return Err(("sink-failure-swallowed".into(), format!("sink failed at write {k} ({mode:?}) but render_to returned Ok")));
            }
            // the fault point was never reached (k beyond the writes of this run): nothing to check
            return Ok(());
        }
        Ok(Err(e)) => {
            if first_line(&e).trim().is_empty() {
                return Err(("empty-error-message".into(), "error without message".into()));
            }
        }
    }
    if sink.calls_after_failure > 0 {
        return Err((
            "write-after-failure".into(),
            format!("{} write call(s) after the sink failed at write {k} ({mode:?})", sink.calls_after_failure),
        ));
    }
    if !clean.starts_with(&sink.accepted) {
        return Err((
            "accepted-not-a-prefix".into(),
            format!("bytes accepted before the failure at write {k} ({mode:?}) are not a prefix of the fault-free output"),
        ));
    }
    Ok(())
}

pub fn run(ctx: &mut Ctx) {
    ctx.start_watchdog(120);
    let n = ctx.scale(3_000u64, 60_000u64);
    let rng = ctx.rng("c10");
    let mut constructs_seen = std::collections::BTreeSet::new();
    for i in 0..n {
        if !ctx.mine_idx(i) {
            continue;
        }
        let mut r = rng.fork(i);
        let opts = Opts {
            max_depth: 3,
            max_len: 6,
            allow_partials: true,
            undefined_pct: 1,
            ..Opts::default()
        };
        let sc = scenario(&mut r, 2, i % 5 == 0, &opts);
        let p = match parser_with(Config::Stdlib, Policy::Eager, &sc.partials) {
            Ok(p) => p,
            Err(_) => continue,
        };
        let t = match p.parse(&sc.main) {
            Ok(t) => t,
            Err(_) => {
                ctx.count("rejected-at-parse");
                continue;
            }
        };
        for kw in ["cycle", "increment", "decrement", "tablerow", "ifchanged", "include", "render", "raw", "for ", "if ", "capture", "case"] {
            if sc.main.contains(kw) {
                constructs_seen.insert(kw);
            }
        }
        let data = sc.data.to_object();
        ctx.set_progress(&replay_json(&sc, Mode::None, 0).to_string());
        // fault-free run
        let mut clean = Sink::new(Mode::None, 0);
        let r0 = guard(|| t.render_to(&mut clean, &data));
        let clean_ok = match r0 {
            Err(p) => {
                ctx.violation(&p.key(), &format!("render_to panicked at {}: {}", p.site(), p.msg), || replay_json(&sc, Mode::None, 0));
                continue;
            }
            Ok(r) => r.is_ok(),
        };
        let w = clean.calls;
        let h0 = hash_str(&sc.to_json().to_string());
        ctx.record(h0, w > 0);
        ctx.count("templates");
        ctx.add("write_calls_fault_free", w as u64);
        if clean_ok {
            // streamed bytes == buffering render
            match guard(|| t.render(&data)) {
                Ok(Ok(s)) => {
                    ctx.count("stream-vs-buffer-compared");
                    if s.as_bytes() != clean.accepted.as_slice() {
                        ctx.violation("stream-differs-from-buffer", "bytes streamed into an infallible sink differ from render()'s string", || replay_json(&sc, Mode::None, 0));
                    }
                }
                Ok(Err(_)) => {
                    ctx.violation("stream-differs-from-buffer", "render_to succeeded but render() failed on the same input", || replay_json(&sc, Mode::None, 0));
                }
                Err(p) => {
                    ctx.violation(&p.key(), &format!("render panicked at {}: {}", p.site(), p.msg), || replay_json(&sc, Mode::None, 0));
                }
            }
        } else {
            ctx.count("fault-free-run-itself-errors");
        }
        // every fault point (all k when W <= 400, else a stride sample; the evidence says which)
        let ks: Vec<usize> = if w <= 400 {
            (1..=w).collect()
        } else {
            ctx.count("templates-with-sampled-fault-points");
            (1..=w).step_by(w / 400 + 1).collect()
        };
        for &k in &ks {
            for mode in [Mode::Fail, Mode::Short, Mode::ShortOk] {
                let res = faulted(&t, &data, mode, k, &clean.accepted, clean_ok);
                ctx.record(hash_combine(h0, (k * 4 + mode as usize) as u64), true);
                ctx.count("fault-points-injected");
                if let Err((key, what)) = res {
                    ctx.violation(&key, &what, || replay_json(&sc, mode, k));
                }
            }
        }
        ctx.sample(|| json!({"template": sc.main, "write_calls": w, "fault_points": ks.len() * 3, "fault_free_ok": clean_ok}));
    }
    for c in constructs_seen {
        ctx.count(&format!("construct:{}", c.trim()));
    }
}

pub fn replay(j: &serde_json::Value) -> bool {
    let partials: Vec<(String, String)> = j["partials"]
        .as_array()
        .map(|a| a.iter().map(|p| (p[0].as_str().unwrap_or("").to_string(), p[1].as_str().unwrap_or("").to_string())).collect())
        .unwrap_or_default();
    let p = parser_with(Config::Stdlib, Policy::Eager, &partials).expect("parser");
    let t = match p.parse(j["template"].as_str().unwrap_or("")) {
        Ok(t) => t,
        Err(e) => {
            println!("parse error {e}");
            return false;
        }
    };
    let data = crate::val::RVal::from_json(&j["data"]).to_object();
    let mut clean = Sink::new(Mode::None, 0);
    let _ = guard(|| t.render_to(&mut clean, &data));
    println!("fault-free: {} write calls, {:?}", clean.calls, String::from_utf8_lossy(&clean.accepted));
    let mode = match j["mode"].as_str() {
        Some("Fail") => Mode::Fail,
        Some("Short") => Mode::Short,
        Some("ShortOk") => Mode::ShortOk,
        _ => Mode::None,
    };
    let k = j["k"].as_u64().unwrap_or(0) as usize;
    if mode == Mode::None {
        return false;
    }
    let clean_ok = guard(|| t.render_to(&mut Sink::new(Mode::None, 0), &data)).map(|r| r.is_ok()).unwrap_or(false);
    match faulted(&t, &data, mode, k, &clean.accepted, clean_ok) {
        Ok(()) => {
            println!("oracle satisfied");
            false
        }
        Err((key, what)) => {
            println!("VIOLATED {key}: {what}");
            true
        }
    }
}
