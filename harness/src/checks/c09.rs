//! C09 — rendering is repeatable: no state survives from one render into another.
use crate::cfg::{parser_with, Config, Policy};
use crate::ctx::Ctx;
use crate::gen::prog::{pool, Opts, Pool};
use crate::rng::{hash_combine, hash_str};
use crate::val::dump_view;
use liquid::ObjectView;
use serde_json::json;

fn pool_json(p: &Pool) -> serde_json::Value {
    json!({
        "partials": p.partials.iter().map(|(n, t)| json!([n, t])).collect::<Vec<_>>(),
        "mains": p.mains,
        "datas": p.datas.iter().map(|d| d.to_json()).collect::<Vec<_>>(),
    })
}

/// stand-alone result of (template i, data j): fresh parser, fresh parse
fn standalone(p: &Pool, policy: Policy, ti: usize, di: usize) -> String {
    let parser = match parser_with(Config::Stdlib, policy, &p.partials) {
        Ok(x) => x,
        Err(_) => return "parser-build-error".into(),
    };
    match parser.parse(&p.mains[ti]) {
        Ok(t) => crate::exec::render_full(&t, &p.datas[di].to_object()),
        Err(_) => "parse-error".into(),
    }
}

/// run one history on one shared parser; returns first discrepancy
fn run_history(p: &Pool, policy: Policy, hist: &[(usize, usize)], expected: &[Vec<String>]) -> Result<(u64, u64), (String, String)> {
    let parser = parser_with(Config::Stdlib, policy, &p.partials).map_err(|e| ("parser-build-error".to_string(), e.to_string()))?;
    let templates: Vec<Option<liquid::Template>> = p.mains.iter().map(|m| parser.parse(m).ok()).collect();
    let datas: Vec<liquid::Object> = p.datas.iter().map(|d| d.to_object()).collect();
    let dumps: Vec<String> = datas.iter().map(|d| dump_view(d.as_value())).collect();
    let mut failed = 0;
    let mut calls = 0;
    for (step, &(ti, di)) in hist.iter().enumerate() {
        let got = match &templates[ti] {
            Some(t) => crate::exec::render_full(t, &datas[di]),
            None => "parse-error".into(),
        };
        calls += 1;
        if !got.starts_with("ok:") {
            failed += 1;
        }
        if got.starts_with("panic:") {
            return Err((got.trim_start_matches("panic:").to_string(), format!("render panicked at step {step} of history {hist:?}")));
        }
        if got != expected[ti][di] {
            return Err((
                "history-dependent-result".into(),
                format!(
                    "step {step} of history {hist:?} ({}): render(template {ti}, data {di}) = {:?} but stand-alone on a fresh parser = {:?}",
                    policy.name(),
                    got.chars().take(200).collect::<String>(),
                    expected[ti][di].chars().take(200).collect::<String>()
                ),
            ));
        }
        // M5: caller data untouched
        let after = dump_view(datas[di].as_value());
        if after != dumps[di] {
            return Err(("caller-data-modified".into(), format!("data object {di} changed during step {step} of {hist:?}")));
        }
    }
    Ok((calls, failed))
}

/// A designed template whose render fails midway at a point chosen by the data (`fail`): inside
/// a capture after its body already wrote text, inside a loop after stateful tags ran, inside a
/// tablerow while a break is pending, inside an included partial; `fail = none` succeeds. The
/// generated templates ignore `fail`; the generated data objects get one each.
fn add_failure_injection(p: &mut Pool, r: &mut crate::rng::Rng) {
    let designed = concat!(
        "{% capture cap %}head-{{ tagv }}{% if fail == 'capture' %}{{ nope }}{% endif %}-tail{% endcapture %}[{{ cap }}]",
        "{% for i in (1..3) %}{% cycle 'z': 1, 2, 3 %}{% increment cnt %}{% ifchanged %}ic{{ i }}{% if i == 2 and fail == 'ifchanged' %}{{ nope }}{% endif %}{% endifchanged %}",
        "{% if i == 2 and fail == 'loop' %}{{ nope }}{% endif %}{% if i == 3 %}{% break %}{% endif %}{% endfor %}",
        "{% for i in (1..2) %}{% tablerow j in (1..2) %}{% if j == 2 and fail == 'after-break' %}{{ nope }}{% endif %}",
        "{% if j == 1 and fail == 'after-break' %}{% break %}{% endif %}c{% endtablerow %}{% endfor %}",
        "{% assign keep = tagv %}{% include pname %}{% render pname, tagv: tagv %}{% include 'pf' %}{% render 'pf', fail: fail, tagv: tagv %}|{{ keep }}|{% cycle 'z': 1, 2, 3 %}{% increment cnt %}"
    );
    p.partials.push(("pf".into(), "<{{ tagv }}{% capture pc %}in{% if fail == 'partial' %}{{ nope }}{% endif %}{% endcapture %}{{ pc }}{% increment cnt %}>".into()));
    p.partials.push(("pg0".into(), "(g0:{{ tagv }})".into()));
    p.partials.push(("pg1".into(), "(g1:{% increment cnt %})".into()));
    // a different partial whose name only differs by the `.liquid` suffix: which of the two a
    // parser saw first must not matter
    p.partials.push(("pg0.liquid".into(), "(g0L:{{ tagv }})".into()));
    p.mains.push(designed.to_string());
    // more than 10 000 bytes of output before a data-chosen failure (buffers sized by a first guess
    // are outgrown), and a case whose arms overlap (which arm a value takes must not depend on
    // what earlier renders took)
    p.mains.push(
        concat!(
            "{% for i in (1..260) %}0123456789abcdefghijklmnopqrstuvwxyz-{{ tagv }}{% endfor %}",
            "{% case pname %}{% when 'pg0' %}A{% when 'pg0', 'pg1' %}B{% when 'pg1', 'pg0.liquid' %}C{% else %}E{% endcase %}",
            "{% for q in (1..3) %}{% case q %}{% when 2, 3 %}x{% when 1, 2 %}y{% when 3 %}z{% endcase %}{% endfor %}",
            "{% if fail != 'none' %}{{ nope }}{% endif %}|tail"
        )
        .to_string(),
    );
    let modes = ["none", "capture", "loop", "after-break", "partial", "ifchanged"];
    for (k, d) in p.datas.iter_mut().enumerate() {
        if let crate::val::RVal::Object(kv) = d {
            let mode = if k == 1 { "none" } else { r.choose(&modes) };
            kv.push(("fail".into(), crate::val::RVal::Str(mode.into())));
            kv.push(("tagv".into(), crate::val::RVal::Str(format!("T{k}"))));
            // the same tag names a different partial for different data objects
            kv.push(("pname".into(), crate::val::RVal::Str(["pg0", "pg0.liquid", "pg1"][k % 3].into())));
        }
    }
}

pub fn run(ctx: &mut Ctx) {
    ctx.start_watchdog(120);
    let n_pools = ctx.scale(48u64, 2000u64);
    let rng = ctx.rng("c09");
    for i in 0..n_pools {
        if !ctx.mine_idx(i) {
            continue;
        }
        let mut r = rng.fork(i);
        let opts = Opts {
            max_depth: 3,
            max_len: 4,
            allow_partials: true,
            undefined_pct: 5,
            allow_toplevel_interrupt: true,
            ..Opts::default()
        };
        let n_main = 2 + r.below(2);
        let n_data = 2 + r.below(2);
        let mut p = pool(&mut r, n_main, n_data, 2, i % 3 == 0, &opts);
        add_failure_injection(&mut p, &mut r);
        let ph = hash_str(&pool_json(&p).to_string());
        ctx.set_progress(&pool_json(&p).to_string());
        for policy in [Policy::Eager, Policy::Lazy] {
            let expected: Vec<Vec<String>> = (0..p.mains.len())
                .map(|ti| (0..p.datas.len()).map(|di| standalone(&p, policy, ti, di)).collect())
                .collect();
            // stand-alone results must themselves be repeatable (first occurrence == second)
            for ti in 0..p.mains.len() {
                for di in 0..p.datas.len() {
                    let again = standalone(&p, policy, ti, di);
                    if again != expected[ti][di] {
                        ctx.violation("history-dependent-result", "two stand-alone renders on fresh parsers differ", || {
                            let mut j = pool_json(&p);
                            j["kind"] = json!("history");
                            j["policy"] = json!(policy.name());
                            j["history"] = json!([[ti, di]]);
                            j
                        });
                    }
                }
            }
            let pairs: Vec<(usize, usize)> = (0..p.mains.len()).flat_map(|t| (0..p.datas.len()).map(move |d| (t, d))).collect();
            let mut histories: Vec<Vec<(usize, usize)>> = Vec::new();
            // exhaustive for k <= 3
            for &a in &pairs {
                histories.push(vec![a]);
                for &b in &pairs {
                    histories.push(vec![a, b]);
                    for &c in &pairs {
                        histories.push(vec![a, b, c]);
                    }
                }
            }
            // random for 4 <= k <= 6
            for _ in 0..ctx.scale(60, 300) {
                let k = 4 + r.below(3);
                histories.push((0..k).map(|_| *r.pick(&pairs)).collect());
            }
            // soak histories: state that creeps by one per failing render (a counter never
            // decremented on the error path, a slot never returned) only shows after many of
            // them -- every failing (template, data) pair 130 times in a row on one parser, then
            // every pair once
            let failing: Vec<(usize, usize)> = pairs.iter().copied().filter(|&(t, d)| !expected[t][d].starts_with("ok:")).collect();
            let n_soak = ctx.scale(3usize, 12usize);
            for k in 0..n_soak.min(failing.len()) {
                // the designed templates are the last two: prefer their failing pairs
                let f = failing[failing.len() - 1 - k];
                let mut h: Vec<(usize, usize)> = vec![f; 130];
                h.extend(pairs.iter().copied());
                histories.push(h);
            }
            for hist in &histories {
                let hh = hash_combine(ph, hash_str(&format!("{}{:?}", policy.name(), hist)));
                let nontrivial = hist.len() >= 2;
                match run_history(&p, policy, hist, &expected) {
                    Ok((calls, failed)) => {
                        ctx.add("render_calls", calls);
                        ctx.add("render_calls_failing", failed);
                    }
                    Err((key, what)) => {
                        ctx.violation(&key, &what, || {
                            let mut j = pool_json(&p);
                            j["kind"] = json!("history");
                            j["policy"] = json!(policy.name());
                            j["history"] = json!(hist);
                            j
                        });
                    }
                }
                ctx.record(hh, nontrivial);
                ctx.count(&format!("histories:len{}", if hist.len() > 100 { "-soak".to_string() } else { hist.len().to_string() }));
            }
        }
        ctx.sample(|| json!({"mains": p.mains, "partials": p.partials, "n_data": p.datas.len()}));
    }
}

pub fn replay(j: &serde_json::Value) -> bool {
    let p = Pool {
        partials: j["partials"].as_array().map(|a| a.iter().map(|p| (p[0].as_str().unwrap_or("").to_string(), p[1].as_str().unwrap_or("").to_string())).collect()).unwrap_or_default(),
        mains: j["mains"].as_array().map(|a| a.iter().map(|s| s.as_str().unwrap_or("").to_string()).collect()).unwrap_or_default(),
        datas: j["datas"].as_array().map(|a| a.iter().map(crate::val::RVal::from_json).collect()).unwrap_or_default(),
    };
    let policy = Policy::from_name(j["policy"].as_str().unwrap_or("eager"));
    let hist: Vec<(usize, usize)> = j["history"].as_array().map(|a| a.iter().map(|p| (p[0].as_u64().unwrap_or(0) as usize, p[1].as_u64().unwrap_or(0) as usize)).collect()).unwrap_or_default();
    let expected: Vec<Vec<String>> = (0..p.mains.len()).map(|ti| (0..p.datas.len()).map(|di| standalone(&p, policy, ti, di)).collect()).collect();
    match run_history(&p, policy, &hist, &expected) {
        Ok(_) => {
            println!("history {hist:?}: every call equals its stand-alone result");
            false
        }
        Err((k, w)) => {
            println!("VIOLATED {k}: {w}");
            true
        }
    }
}
