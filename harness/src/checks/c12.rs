//! C12 — all views and conversions of a datum agree (owned, borrowed, serde, derive).
//!
//! non-trivial rule: the datum is not nil (a conversion of nil has nothing to lose).
use crate::cfg::{parser, Config};
use crate::ctx::Ctx;
use crate::exec::{render, Out};
use crate::mon::guard;
use crate::rng::{hash_str, Rng};
use crate::val::{arr, dump_view, s, RVal};
use liquid::model::{from_value, to_value, State, Value, ValueCow, ValueViewCmp};
use liquid::{Object, ObjectView, ValueView};
use serde::{Deserialize, Serialize};
use serde_json::json;
use std::collections::{BTreeMap, HashMap};

fn has_multikey_object(v: &RVal) -> bool {
    match v {
        RVal::Object(kv) => kv.len() > 1 || kv.iter().any(|(_, v)| has_multikey_object(v)),
        RVal::Array(xs) => xs.iter().any(has_multikey_object),
        _ => false,
    }
}

/// everything observable about a view; `ordered` = include the text forms that depend on the
/// iteration order of objects
fn observe(v: &dyn ValueView, ordered: bool) -> String {
    let states = [State::Truthy, State::DefaultValue, State::Empty, State::Blank]
        .iter()
        .map(|s| if v.query_state(*s) { '1' } else { '0' })
        .collect::<String>();
    let preds = format!(
        "{}{}{}{}{}",
        v.is_scalar() as u8,
        v.is_array() as u8,
        v.is_object() as u8,
        v.is_state() as u8,
        v.is_nil() as u8
    );
    let mut out = format!("type={} states={states} preds={preds} dump={}", v.type_name(), dump_view(&v.to_value()));
    if ordered {
        out.push_str(&format!(" render={:?} source={:?} kstr={:?}", v.render().to_string(), v.source().to_string(), v.to_kstr().as_str()));
    }
    out
}

/// everything the ArrayView interface says about a sequence
fn observe_array(a: &dyn liquid::model::ArrayView) -> String {
    let n = a.size();
    let vals: Vec<String> = a.values().map(|v| dump_view(v)).collect();
    let mut out = format!("size={n} values=[{}] first={:?} last={:?} asvalue={}", vals.join(","), a.first().map(|v| dump_view(v)), a.last().map(|v| dump_view(v)), dump_view(a.as_value()));
    for i in -(n + 2)..=(n + 1) {
        out.push_str(&format!(" {i}:{}{:?}", a.contains_key(i) as u8, a.get(i).map(|v| dump_view(v))));
    }
    out
}

/// everything the ObjectView interface says about a map (order-free)
fn observe_object(o: &dyn ObjectView) -> String {
    let mut keys: Vec<String> = o.keys().map(|k| k.to_string()).collect();
    keys.sort();
    let mut vals: Vec<String> = o.values().map(|v| dump_view(v)).collect();
    vals.sort();
    let mut pairs: Vec<String> = o.iter().map(|(k, v)| format!("{k}={}", dump_view(v))).collect();
    pairs.sort();
    let mut out = format!("size={} keys={keys:?} values={vals:?} iter={pairs:?} asvalue={}", o.size(), dump_view(o.as_value()));
    for k in keys.iter().map(|k| k.as_str()).chain(["size", "first", "no such key", ""]) {
        out.push_str(&format!(" {k:?}:{}{:?}", o.contains_key(k) as u8, o.get(k).map(|v| dump_view(v))));
    }
    out
}

fn gen_value(r: &mut Rng, depth: usize) -> RVal {
    let k = if depth >= 4 { r.below(9) } else { r.below(13) };
    match k {
        0 => RVal::Nil,
        1 => RVal::Bool(r.chance(1, 2)),
        2 => RVal::Int(r.choose(&[0, 1, -1, 42, i64::MAX, i64::MIN, 1 << 53])),
        3 => RVal::Float(r.choose(&[0.0, -0.0, 0.5, 1.0, -2.25, 1e300, 123456789.125])),
        4 => s(r.choose(&["", " ", "a", "é", "42", "-7", "1.5", "true", "nil", "hello world", "[1]", "{}", "01 March 2022", "1 Mar 2022", "today", "now", "March 1, 2022", "2022-03-01 10:00", "12:30"])),
        5 => RVal::Date(r.choose(&["2020-02-29", "1999-12-31"]).to_string()),
        6 => RVal::DateTime(r.choose(&["2020-02-29 10:00:00 +0100", "1970-01-01 00:00:00 +0000", "2001-09-09 01:46:40.5 -0330"]).to_string()),
        7 => s(r.choose(&["x", "Yy", "\n", "\"q\"", "a,b"])),
        8 => RVal::Int(r.range(-5, 5)),
        9 | 10 => {
            let n = r.below(4);
            arr((0..n).map(|_| gen_value(r, depth + 1)).collect())
        }
        _ => {
            let n = r.below(4);
            let keys = ["k", "size", "first", "a b", "é", "0"];
            let mut kv: Vec<(String, RVal)> = Vec::new();
            for _ in 0..n {
                let k = r.choose(&keys).to_string();
                if !kv.iter().any(|(kk, _)| kk == &k) {
                    kv.push((k, gen_value(r, depth + 1)));
                }
            }
            RVal::Object(kv)
        }
    }
}

fn json_representable(v: &RVal) -> bool {
    match v {
        RVal::Float(f) => f.is_finite(),
        // dates are encoded as strings by design: excluded from the kind clause
        RVal::Date(_) | RVal::DateTime(_) | RVal::Empty | RVal::Blank => false,
        // a date-shaped string is indistinguishable from a date after the round trip
        RVal::Str(s) => !canonical_date_text(s),
        RVal::Array(xs) => xs.iter().all(json_representable),
        RVal::Object(kv) => kv.iter().all(|(_, v)| json_representable(v)),
        _ => true,
    }
}

/// Is `s` written in one of the two shapes in which dates travel through serde
/// (`YYYY-MM-DD`, `YYYY-MM-DD HH:MM:SS[.f] +HHMM`)? Decided on the characters alone -- not with the
/// library's own (user-facing, more lenient) date parser.
fn canonical_date_text(s: &str) -> bool {
    let b = s.as_bytes();
    let digits = |r: std::ops::Range<usize>| r.end <= b.len() && b[r].iter().all(|c| c.is_ascii_digit());
    let date = b.len() >= 10 && digits(0..4) && b[4] == b'-' && digits(5..7) && b[7] == b'-' && digits(8..10);
    if !date {
        return false;
    }
    if b.len() == 10 {
        return true;
    }
    // time part: " HH:MM:SS" + optional ".f+" + " +HHMM"
    if b.len() < 25 || b[10] != b' ' || !digits(11..13) || b[13] != b':' || !digits(14..16) || b[16] != b':' || !digits(17..19) {
        return false;
    }
    let mut i = 19;
    if b[i] == b'.' {
        i += 1;
        let start = i;
        while i < b.len() && b[i].is_ascii_digit() {
            i += 1;
        }
        if i == start {
            return false;
        }
    }
    b.len() == i + 6 && b[i] == b' ' && (b[i + 1] == b'+' || b[i + 1] == b'-') && digits(i + 2..i + 6)
}

fn has_numeric_string(v: &RVal) -> bool {
    match v {
        RVal::Str(s) => s.parse::<i64>().is_ok() || s.parse::<f64>().is_ok(),
        RVal::Array(xs) => xs.iter().any(has_numeric_string),
        RVal::Object(kv) => kv.iter().any(|(_, v)| has_numeric_string(v)),
        _ => false,
    }
}

fn has_state(v: &RVal) -> bool {
    match v {
        RVal::Empty | RVal::Blank => true,
        RVal::Array(xs) => xs.iter().any(has_state),
        RVal::Object(kv) => kv.iter().any(|(_, v)| has_state(v)),
        _ => false,
    }
}

fn has_date(v: &RVal) -> bool {
    match v {
        RVal::Date(_) | RVal::DateTime(_) => true,
        RVal::Str(s) => canonical_date_text(s),
        RVal::Array(xs) => xs.iter().any(has_date),
        RVal::Object(kv) => kv.iter().any(|(_, v)| has_date(v)),
        _ => false,
    }
}

fn check_datum(ctx: &mut Ctx, rv: &RVal) {
    let v = rv.to_liquid();
    let ordered = !has_multikey_object(rv);
    let base = observe(&v, ordered);
    let want_dump = rv.dump();
    let replay = || json!({"kind": "datum", "value": rv.to_json()});
    // the harness's own dump must agree with the library's view of the value it built
    if dump_view(&v) != want_dump {
        ctx.violation("value-kind-or-content-changed:construction", &format!("built {want_dump}, the view reads {}", dump_view(&v)), replay);
        return;
    }
    let r = guard(|| {
        let mut views: Vec<(&'static str, String)> = Vec::new();
        views.push(("&Value", observe(&&v, ordered)));
        views.push(("as_view", observe(v.as_view(), ordered)));
        views.push(("to_value", observe(&v.to_value(), ordered)));
        views.push(("ValueCow::Owned", observe(&ValueCow::Owned(v.clone()), ordered)));
        views.push(("ValueCow::Borrowed", observe(&ValueCow::Borrowed(&v), ordered)));
        views.push(("ValueCow::as_view", observe(ValueCow::Borrowed(&v).as_view(), ordered)));
        views.push(("Cow::into_owned", observe(&ValueCow::Borrowed(&v).into_owned(), ordered)));
        // `Some(v)` is a view of v for every v, nil included; `None` is a view of nil
        views.push(("Some(v)", observe(&Some(v.clone()), ordered)));
        views.push(("Some(Some(v))", observe(&Some(Some(v.clone())), ordered)));
        views.push(("&Some(v)", observe(&&Some(v.clone()), ordered)));
        if rv.is_nil() {
            views.push(("None", observe(&None::<Value>, ordered)));
            views.push(("Some(None)", observe(&Some(None::<Value>), ordered)));
        }
        // bare Rust scalars, and the scalar types of the model, are views of the scalar they denote
        if let Some(sc) = v.as_scalar() {
            views.push(("ScalarCow", observe(&sc, ordered)));
            views.push(("Scalar(owned)", observe(&sc.clone().into_owned(), ordered)));
            match rv {
                RVal::Int(n) => {
                    views.push(("i64", observe(n, ordered)));
                    if let Ok(x) = i32::try_from(*n) {
                        views.push(("i32", observe(&x, ordered)));
                    }
                    if let Ok(x) = u32::try_from(*n) {
                        views.push(("u32", observe(&x, ordered)));
                    }
                    if let Ok(x) = i16::try_from(*n) {
                        views.push(("i16", observe(&x, ordered)));
                    }
                    if let Ok(x) = u16::try_from(*n) {
                        views.push(("u16", observe(&x, ordered)));
                    }
                    if let Ok(x) = i8::try_from(*n) {
                        views.push(("i8", observe(&x, ordered)));
                    }
                    if let Ok(x) = u8::try_from(*n) {
                        views.push(("u8", observe(&x, ordered)));
                    }
                }
                RVal::Float(f) => {
                    views.push(("f64", observe(f, ordered)));
                    if (*f as f32) as f64 == *f {
                        views.push(("f32", observe(&(*f as f32), ordered)));
                    }
                }
                RVal::Bool(b) => views.push(("bool", observe(b, ordered))),
                RVal::Str(text) => {
                    views.push(("&str", observe(&text.as_str(), ordered)));
                    views.push(("String", observe(&text.clone(), ordered)));
                    views.push(("KString", observe(&liquid::model::KString::from_ref(text), ordered)));
                    views.push(("KStringCow", observe(&liquid::model::KStringCow::from_ref(text), ordered)));
                    views.push(("Vec<&str>[0]", observe(liquid::model::ArrayView::get(&vec![text.as_str()], 0).unwrap(), ordered)));
                }
                _ => {}
            }
        }
        if let Value::Array(a) = &v {
            let vec: Vec<Value> = a.clone();
            views.push(("Vec<Value>", observe(&vec, ordered)));
        }
        if let Value::Object(o) = &v {
            let hm: HashMap<String, Value> = o.iter().map(|(k, v)| (k.to_string(), v.clone())).collect();
            let bm: BTreeMap<String, Value> = o.iter().map(|(k, v)| (k.to_string(), v.clone())).collect();
            // text forms of maps depend on their own iteration order
            views.push(("HashMap", observe(&hm, ordered && o.len() <= 1)));
            views.push(("BTreeMap", observe(&bm, ordered && o.len() <= 1)));
        }
        // the container interfaces of every container view of the datum agree as well
        if let Value::Array(a) = &v {
            let base_a = observe_array(v.as_array().expect("array view of an array"));
            let vec: Vec<Value> = a.clone();
            let others = [
                ("ArrayView of Vec<Value>", observe_array(&vec)),
                ("ArrayView of ValueCow", observe_array(ValueCow::Borrowed(&v).as_array().expect("array"))),
                ("ArrayView of &Value", observe_array((&&v).as_array().expect("array"))),
                ("ArrayView of Some(v)", observe_array(Some(v.clone()).as_array().expect("array"))),
            ];
            for (name, o) in others {
                if o != base_a {
                    views.push((name, format!("CONTAINER-INTERFACE-DIFFERS {o} vs {base_a}")));
                }
            }
        }
        if let Value::Object(o) = &v {
            let base_o = observe_object(v.as_object().expect("object view of an object"));
            let hm: HashMap<String, Value> = o.iter().map(|(k, v)| (k.to_string(), v.clone())).collect();
            let bm: BTreeMap<String, Value> = o.iter().map(|(k, v)| (k.to_string(), v.clone())).collect();
            let hk: HashMap<liquid::model::KString, Value> = o.iter().map(|(k, v)| (k.clone(), v.clone())).collect();
            let others = [
                ("ObjectView of Object", observe_object(o)),
                ("ObjectView of HashMap<String,_>", observe_object(&hm)),
                ("ObjectView of BTreeMap<String,_>", observe_object(&bm)),
                ("ObjectView of HashMap<KString,_>", observe_object(&hk)),
                ("ObjectView of ValueCow", observe_object(ValueCow::Borrowed(&v).as_object().expect("object"))),
                ("ObjectView of Some(v)", observe_object(Some(v.clone()).as_object().expect("object"))),
            ];
            for (name, ob) in others {
                if ob != base_o {
                    views.push((name, format!("CONTAINER-INTERFACE-DIFFERS {ob} vs {base_o}")));
                }
            }
        }
        // pairwise equality of the views through the value model
        let eqs = [
            ValueViewCmp::new(&v) == ValueViewCmp::new(&v.to_value()),
            ValueCow::Borrowed(&v) == ValueCow::Owned(v.clone()),
            ValueCow::Borrowed(&v) == v,
            ValueViewCmp::new(&Some(v.clone())) == ValueViewCmp::new(&v),
            ValueCow::Borrowed(&Some(v.clone())) == v,
        ];
        (views, eqs)
    });
    let (views, eqs) = match r {
        Ok(x) => x,
        Err(p) => {
            ctx.violation(&p.key(), &format!("view access panicked at {}: {}", p.site(), p.msg), replay);
            return;
        }
    };
    let no_nan = !want_dump.contains("f:7ff8");
    for (name, obs) in &views {
        ctx.count(&format!("view:{name}"));
        let mut expect = base.clone();
        // `None`/Some wrappers and maps may only be compared on the order-free part when their
        // own `ordered` flag differs; normalise by comparing the common prefix
        if !obs.contains(" render=") {
            expect = expect.split(" render=").next().unwrap_or("").to_string();
        }
        let obs_cmp = if !expect.contains(" render=") { obs.split(" render=").next().unwrap_or("").to_string() } else { obs.clone() };
        if obs_cmp != expect {
            ctx.violation(&format!("views-disagree:{name}"), &format!("datum {want_dump}: Value observes [{expect}] but {name} observes [{obs_cmp}]"), replay);
        }
    }
    if no_nan && eqs.iter().any(|e| !e) {
        ctx.violation("views-not-equal", &format!("datum {want_dump}: views of the same datum compare unequal {eqs:?}"), replay);
    }
    // ---- conversions ----
    // (1) to_value(&Value) through the serde Serializer
    match guard(|| to_value(&v)) {
        Ok(Ok(v2)) => {
            ctx.count("conversion:to_value");
            // dates serialise as strings by design (kind clause excludes them)
            if !has_date(rv) && !has_state(rv) && dump_view(&v2) != want_dump {
                ctx.violation("serde:to_value-changes-value", &format!("to_value({want_dump}) = {}", dump_view(&v2)), replay);
            }
        }
        Ok(Err(_)) => ctx.count("conversion:to_value:error"),
        Err(p) => ctx.violation(&p.key(), &format!("to_value panicked: {}", p.msg), replay),
    }
    // (2) from_value::<Value>(&Value) through the serde Deserializer
    match guard(|| from_value::<Value>(&v)) {
        Ok(Ok(v2)) => {
            ctx.count("conversion:from_value");
            if !has_date(rv) && !has_state(rv) && dump_view(&v2) != want_dump {
                let key = if has_numeric_string(rv) {
                    "serde:from_value-turns-numeric-string-into-number"
                } else {
                    "serde:from_value-changes-value"
                };
                ctx.violation(key, &format!("from_value::<Value>({want_dump}) = {}", dump_view(&v2)), replay);
            }
        }
        Ok(Err(_)) => ctx.count("conversion:from_value:error"),
        Err(p) => ctx.violation(&p.key(), &format!("from_value panicked: {}", p.msg), replay),
    }
    // (3) JSON text round trip
    if json_representable(rv) {
        match guard(|| serde_json::to_string(&v).ok().and_then(|t| serde_json::from_str::<Value>(&t).ok().map(|v2| (t, v2)))) {
            Ok(Some((text, v2))) => {
                ctx.count("conversion:json-roundtrip");
                if dump_view(&v2) != want_dump {
                    ctx.violation("serde:json-roundtrip-changes-value", &format!("{want_dump} -> {text} -> {}", dump_view(&v2)), replay);
                }
                // and into an Object when it is one
                if matches!(rv, RVal::Object(_)) {
                    if let Ok(o) = serde_json::from_str::<Object>(&text) {
                        if dump_view(o.as_value()) != want_dump {
                            ctx.violation("serde:json-roundtrip-changes-value", &format!("{want_dump} -> {text} -> Object {}", dump_view(o.as_value())), replay);
                        }
                    }
                }
            }
            Ok(None) => ctx.count("conversion:json-roundtrip:error"),
            Err(p) => ctx.violation(&p.key(), &format!("JSON round trip panicked: {}", p.msg), replay),
        }
    }
    ctx.record(hash_str(&want_dump), !rv.is_nil());
    ctx.sample(|| json!({"datum": want_dump, "views": views.len(), "observed": base}));
}

// ---- derive vs serde ----

#[derive(Clone, Debug, Serialize, Deserialize, liquid::ObjectView, liquid::ValueView)]
struct Inner {
    n: i64,
    t: String,
}

#[derive(Clone, Debug, Serialize, Deserialize, liquid::ObjectView, liquid::ValueView)]
struct Rich {
    i: i64,
    f: f64,
    b: bool,
    s: String,
    o: Option<i64>,
    v: Vec<i64>,
    m: BTreeMap<String, i64>,
    inner: Inner,
    oi: Option<Inner>,
    oo: Option<Option<i64>>,
}

#[derive(Clone, Debug, Serialize, Deserialize, liquid::ObjectView, liquid::ValueView)]
struct Single {
    only: Vec<String>,
}

#[derive(Clone, Debug, Serialize, Deserialize, liquid::ObjectView, liquid::ValueView)]
struct Empty {}

#[derive(Clone, Debug, Serialize, Deserialize, PartialEq)]
enum Choice {
    Unit,
    New(i64),
    Pair(i64, String),
    Rec { a: i64 },
}

const BATTERY: &[&str] = &[
    "{{ x.i }}|{{ x.f }}|{{ x.b }}|{{ x.s }}|{{ x.o }}|{{ x.oo }}{% if x.oo == nil %}N{% endif %}|{{ x.v | join: ',' }}|{{ x.inner.n }}|{{ x.inner.t }}|{{ x.oi.n }}",
    "{{ x | size }}|{{ x.v | size }}|{{ x.s | size }}|{{ x.m | size }}",
    "{% if x contains 'i' %}1{% else %}0{% endif %}{% if x contains 'zz' %}1{% else %}0{% endif %}{% if x.v contains 2 %}1{% else %}0{% endif %}",
    "{% if x == empty %}E{% endif %}{% if x.s == empty %}e{% endif %}{% if x.v == empty %}v{% endif %}{% if x.s == blank %}b{% endif %}{% if x.o == nil %}n{% endif %}",
    "{{ x.o | default: 'd' }}|{{ x.s | default: 'd' }}|{{ x.b | default: 'd' }}|{{ x.v | default: 'd' | join: '-' }}",
    "{% if x.o %}T{% else %}F{% endif %}{% if x.b %}T{% else %}F{% endif %}{% if x.oi %}T{% else %}F{% endif %}{% if x.zz %}T{% else %}F{% endif %}",
    "{% for p in x.inner %}{{ p[0] }}={{ p[1] }};{% endfor %}",
    "{{ x.m.k }}|{{ x.m['k'] }}|{{ x.v[0] }}|{{ x.v[-1] }}|{{ x.v.first }}|{{ x.v.last }}",
    "{% for p in y %}{{ p[0] }}={{ p[1] | join: ',' }};{% endfor %}{{ y.only | size }}{{ y | size }}",
    "{{ z | size }}{% if z == empty %}E{% endif %}{% if z %}T{% endif %}{% for p in z %}x{% endfor %}",
    "{{ x.zz }}",
    "{{ x.v[5] }}",
];

fn object_api(o: &dyn ObjectView) -> String {
    let mut keys: Vec<String> = o.keys().map(|k| k.to_string()).collect();
    keys.sort();
    let mut out = format!("size={} keys={keys:?}", o.size());
    for k in keys.iter().map(|s| s.as_str()).chain(["zz", ""]) {
        out.push_str(&format!(
            " {k}:contains={} get={}",
            o.contains_key(k),
            o.get(k).map(|v| dump_view(v)).unwrap_or("~".into())
        ));
    }
    let mut items: Vec<String> = o.iter().map(|(k, v)| format!("{k}={}", dump_view(v))).collect();
    items.sort();
    let mut vals: Vec<String> = o.values().map(|v| dump_view(v)).collect();
    vals.sort();
    out.push_str(&format!(" iter={items:?} values={vals:?}"));
    out
}

fn check_struct(ctx: &mut Ctx, rich: &Rich, single: &Single, ts: &[liquid::Template]) {
    let replay = || json!({"kind": "struct", "rich": serde_json::to_value(rich).unwrap_or_default(), "single": serde_json::to_value(single).unwrap_or_default()});
    let conv = match guard(|| (liquid::to_object(rich), liquid::to_object(single), liquid::to_object(&Empty {}))) {
        Ok((Ok(a), Ok(b), Ok(c))) => (a, b, c),
        Ok(_) => {
            ctx.violation("serde:to_object-fails-on-struct", "to_object failed on a plain struct", replay);
            return;
        }
        Err(p) => {
            ctx.violation(&p.key(), &format!("to_object panicked: {}", p.msg), replay);
            return;
        }
    };
    let empty = Empty {};
    for (name, derived, serde_o) in [
        ("Rich", rich as &dyn ObjectView, &conv.0),
        ("Single", single as &dyn ObjectView, &conv.1),
        ("Empty", &empty as &dyn ObjectView, &conv.2),
    ] {
        let d_obs = observe(derived.as_value(), false);
        let s_obs = observe(serde_o.as_value(), false);
        if d_obs != s_obs {
            ctx.violation("derive-vs-serde:value-view-differs", &format!("{name}: derived [{d_obs}] vs serde-converted [{s_obs}]"), replay);
        }
        let (da, sa) = (object_api(derived), object_api(serde_o));
        if da != sa {
            ctx.violation("derive-vs-serde:object-api-differs", &format!("{name}: derived [{da}] vs serde-converted [{sa}]"), replay);
        }
        ctx.count(&format!("struct:{name}"));
    }
    // templates: derived globals vs serde-converted globals
    #[derive(liquid::ObjectView, liquid::ValueView, Debug)]
    struct Globals<'a> {
        x: &'a Rich,
        y: &'a Single,
        z: Empty,
    }
    let g_derived = Globals { x: rich, y: single, z: Empty {} };
    let mut g_serde = Object::new();
    g_serde.insert("x".into(), Value::Object(conv.0.clone()));
    g_serde.insert("y".into(), Value::Object(conv.1.clone()));
    g_serde.insert("z".into(), Value::Object(conv.2.clone()));
    for (k, t) in ts.iter().enumerate() {
        let a = guard(|| t.render(&g_derived).map_err(|_| ()));
        let b = render(t, &g_serde);
        ctx.count("template-battery-renders");
        let a_s = match a {
            Ok(Ok(s)) => format!("ok:{s}"),
            Ok(Err(())) => "err".to_string(),
            Err(p) => {
                ctx.violation(&p.key(), &format!("render with derived globals panicked: {}", p.msg), replay);
                continue;
            }
        };
        let b_s = match &b {
            Out::Panic(p) => {
                ctx.violation(&p.key(), &format!("render with serde globals panicked: {}", p.msg), replay);
                continue;
            }
            other => other.summary(),
        };
        // iteration order of the multi-field struct is never printed; `for p in x.inner` has 2
        // entries in unspecified order: compare as a multiset of ';'-separated items
        let norm = |s: &str| {
            let (head, body) = match s.strip_prefix("ok:") {
                Some(b) => ("ok:", b),
                None => ("", s),
            };
            let mut parts: Vec<&str> = body.split(';').collect();
            parts.sort();
            format!("{head}{}", parts.join(";"))
        };
        if norm(&a_s) != norm(&b_s) {
            ctx.violation(
                "derive-vs-serde:template-output-differs",
                &format!("template {:?}: derived globals give {a_s:?}, serde-converted give {b_s:?}", BATTERY[k]),
                replay,
            );
        }
    }
    // enums, tuples, options and maps on the serde side: round trip through to_value/from_value
    for c in [Choice::Unit, Choice::New(rich.i), Choice::Pair(rich.i, rich.s.clone()), Choice::Rec { a: rich.i }] {
        match guard(|| to_value(&c).ok().and_then(|v| from_value::<Choice>(&v).ok())) {
            Ok(Some(back)) => {
                ctx.count("serde:enum-roundtrip");
                if back != c {
                    ctx.violation("serde:enum-roundtrip-changes-value", &format!("{c:?} came back as {back:?}"), replay);
                }
            }
            Ok(None) => ctx.count("serde:enum-roundtrip:unsupported"),
            Err(p) => ctx.violation(&p.key(), &format!("enum conversion panicked: {}", p.msg), replay),
        }
    }
    let tup = (rich.i, rich.s.clone(), rich.o, rich.v.clone(), rich.m.clone());
    match guard(|| to_value(&tup).ok().and_then(|v| from_value::<(i64, String, Option<i64>, Vec<i64>, BTreeMap<String, i64>)>(&v).ok())) {
        Ok(Some(back)) => {
            ctx.count("serde:tuple-roundtrip");
            if back != tup {
                ctx.violation("serde:tuple-roundtrip-changes-value", &format!("{tup:?} came back as {back:?}"), replay);
            }
        }
        Ok(None) => ctx.count("serde:tuple-roundtrip:unsupported"),
        Err(p) => ctx.violation(&p.key(), &format!("tuple conversion panicked: {}", p.msg), replay),
    }
    // the struct itself: Rust -> liquid -> Rust
    match guard(|| to_value(rich).ok().and_then(|v| from_value::<Rich>(&v).ok())) {
        Ok(Some(back)) => {
            ctx.count("serde:struct-roundtrip");
            let same = serde_json::to_string(&back).ok() == serde_json::to_string(rich).ok();
            if !same {
                ctx.violation("serde:struct-roundtrip-changes-value", &format!("{rich:?} came back as {back:?}"), replay);
            }
        }
        Ok(None) => {
            // the numeric-string defect makes `s: "42"` come back as a number, which then fails
            // to deserialise as String: report under the same defect class
            ctx.violation("serde:from_value-turns-numeric-string-into-number", &format!("to_value/from_value round trip of {rich:?} failed"), replay);
        }
        Err(p) => ctx.violation(&p.key(), &format!("struct conversion panicked: {}", p.msg), replay),
    }
    ctx.record(hash_str(&format!("{rich:?}{single:?}")), true);
}

/// Dates travel through serde as their default text (by design); what must hold is that the text is
/// the printed form and that reading it back gives the same instant, offset and fraction.
fn check_dates_through_serde(ctx: &mut Ctx) {
    use liquid::model::{Date, DateTime};
    let replay = || json!({"kind": "dates-through-serde"});
    let texts = [
        "2020-01-02 03:04:05 +0000",
        "2020-01-02 03:04:05.5 +0100",
        "2020-01-02 03:04:05.005 -0330",
        "2020-01-02 03:04:05.000123 +0000",
        "2020-01-02 03:04:05.000000001 +1400",
        "2020-01-02 03:04:05.999999999 -1200",
        "1969-12-31 23:59:59.000001 +0000",
        "0001-01-01 00:00:00 +0000",
        "9999-12-31 23:59:59 +0000",
    ];
    #[derive(Serialize, Deserialize, Debug, PartialEq)]
    struct Stamped {
        at: DateTime,
        on: Date,
    }
    for t in texts {
        ctx.count("dates-through-serde:date-times");
        let Some(d) = DateTime::from_str(t) else {
            ctx.violation("serde:date-text-not-parsed", &format!("DateTime::from_str({t:?}) is None"), replay);
            continue;
        };
        let printed = d.to_string();
        let r = guard(|| {
            let v = to_value(&d).ok()?;
            let shown = v.render().to_string();
            let back = from_value::<DateTime>(&v).ok();
            let on = d.date();
            let obj = liquid::to_object(&Stamped { at: d, on }).ok()?;
            let back2 = from_value::<Stamped>(obj.as_value()).ok();
            Some((shown, back, back2.map(|s| (s.at, s.on)), on))
        });
        match r {
            Err(p) => ctx.violation(&p.key(), &format!("date-time {t} through serde panicked: {}", p.msg), replay),
            Ok(None) => ctx.violation("serde:date-rejected", &format!("to_value / to_object of the date-time {t} failed"), replay),
            Ok(Some((shown, back, back2, on))) => {
                if shown != printed {
                    ctx.violation("serde:date-printed-form-changes", &format!("date-time {printed} serialises as {shown:?}"), replay);
                }
                if back != Some(d) {
                    ctx.violation("serde:date-roundtrip-changes-value", &format!("date-time {printed} came back as {:?}", back.map(|b| b.to_string())), replay);
                }
                if back2 != Some((d, on)) {
                    ctx.violation("serde:date-roundtrip-changes-value", &format!("struct {{at: {printed}, on: {on}}} came back as {:?}", back2.map(|(a, o)| (a.to_string(), o.to_string()))), replay);
                }
            }
        }
    }
    ctx.record(hash_str("dates-through-serde"), true);
}

fn check_out_of_range(ctx: &mut Ctx) {
    let replay = || json!({"kind": "out-of-range"});
    // through Rust integer types
    let cases: Vec<(String, Result<Value, ()>, f64)> = vec![
        ("u64::MAX".into(), to_value(&u64::MAX).map_err(|_| ()), u64::MAX as f64),
        ("i64::MAX+1 as u64".into(), to_value(&(i64::MAX as u64 + 1)).map_err(|_| ()), 9223372036854775808.0),
        ("u128".into(), to_value(&(u64::MAX as u128 + 5)).map_err(|_| ()), (u64::MAX as u128 + 5) as f64),
        ("i128 min".into(), to_value(&(i64::MIN as i128 - 1)).map_err(|_| ()), (i64::MIN as i128 - 1) as f64),
        ("Some(u64::MAX)".into(), to_value(&Some(u64::MAX)).map_err(|_| ()), u64::MAX as f64),
        ("vec![u64::MAX]".into(), to_value(&vec![u64::MAX]).map_err(|_| ()).map(|v| v.into_array().and_then(|a| a.into_iter().next()).unwrap_or(Value::Nil)), u64::MAX as f64),
    ];
    for (name, r, want) in cases {
        ctx.count("out-of-range:rust-integer");
        judge_out_of_range(ctx, &name, r, want, &replay);
    }
    // Rust -> liquid -> Rust: whatever representation is chosen, the integer that comes back must
    // be the one that went in ("never turned into a different integer")
    for x in [1u64 << 63, (1u64 << 63) + 1, (1u64 << 63) + 1025, u64::MAX, u64::MAX - 1, u64::MAX - 2047, i64::MAX as u64, 12345] {
        ctx.count("out-of-range:u64-roundtrip");
        match guard(|| to_value(&x).ok().map(|v| (dump_view(&v), from_value::<u64>(&v).ok()))) {
            Ok(None) => ctx.count("out-of-range:rejected"),
            Ok(Some((_, None))) => ctx.count("out-of-range:roundtrip-rejected"),
            Ok(Some((d, Some(y)))) => {
                if y != x {
                    ctx.violation("serde:integer-roundtrip-changes-value", &format!("u64 {x} -> {d} -> u64 {y}"), replay);
                }
            }
            Err(p) => ctx.violation(&p.key(), &format!("u64 round trip panicked: {}", p.msg), replay),
        }
        #[derive(Serialize, Deserialize)]
        struct W {
            n: u64,
        }
        match guard(|| liquid::to_object(&W { n: x }).ok().map(|o| from_value::<W>(o.as_value()).ok().map(|w| w.n))) {
            Ok(Some(Some(y))) if y != x => ctx.violation("serde:integer-roundtrip-changes-value", &format!("struct field u64 {x} came back as {y}"), replay),
            Err(p) => ctx.violation(&p.key(), &format!("struct u64 round trip panicked: {}", p.msg), replay),
            _ => {}
        }
    }
    // in range boundaries must stay integers
    for (name, v, want) in [
        ("i64::MAX", to_value(&i64::MAX), i64::MAX),
        ("i64::MIN", to_value(&i64::MIN), i64::MIN),
        ("i64::MAX as u64", to_value(&(i64::MAX as u64)), i64::MAX),
        ("-1", to_value(&-1i8), -1),
        ("0", to_value(&0u8), 0),
    ] {
        ctx.count("in-range:rust-integer");
        match v {
            Ok(v) if dump_view(&v) == format!("i:{want}") => {}
            other => ctx.violation("serde:in-range-integer-changed", &format!("{name} converted to {:?}", other.map(|v| dump_view(&v))), replay),
        }
    }
    // through JSON text
    for (text, want) in [
        ("18446744073709551615", 18446744073709551615.0),
        ("9223372036854775808", 9223372036854775808.0),
        ("-9223372036854775809", -9223372036854775809.0),
        ("99999999999999999999", 99999999999999999999.0),
    ] {
        ctx.count("out-of-range:json");
        let r = guard(|| serde_json::from_str::<Value>(text).map_err(|_| ()));
        match r {
            Ok(r) => judge_out_of_range(ctx, &format!("JSON {text}"), r, want, &replay),
            Err(p) => ctx.violation(&p.key(), &format!("JSON {text} panicked: {}", p.msg), replay),
        }
        let r = guard(|| serde_json::from_str::<Object>(&format!("{{\"a\": {text}}}")).map_err(|_| ()).map(|o| o.get("a").cloned().unwrap_or(Value::Nil)));
        match r {
            Ok(r) => judge_out_of_range(ctx, &format!("JSON object {text}"), r, want, &replay),
            Err(p) => ctx.violation(&p.key(), &format!("JSON object {text} panicked: {}", p.msg), replay),
        }
    }
    // text -> liquid value -> Rust integer type: the second hop must give back the integer that was
    // written, or fail -- a big integer that is carried as a float must not come back rounded
    for text in [
        "9223372036854775808", "9223372036854775809", "9223372036854776833", "18446744073709551615", "18446744073709551614",
        "18446744073709549568", "18446744073709551616", "10000000000000000001", "-9223372036854775809", "-9223372036854777857",
        "9223372036854775807", "9007199254740993", "-9007199254740993",
    ] {
        let exact: i128 = text.parse().unwrap();
        for (src, parsed) in [
            ("JSON", guard(|| serde_json::from_str::<Value>(text).ok())),
            ("JSON object member", guard(|| serde_json::from_str::<Object>(&format!("{{\"a\": {text}}}")).ok().and_then(|o| o.get("a").cloned()))),
        ] {
            ctx.count("integer-text:read-back");
            let v = match parsed {
                Ok(Some(v)) => v,
                Ok(None) => {
                    ctx.count("integer-text:rejected-at-parse");
                    continue;
                }
                Err(p) => {
                    ctx.violation(&p.key(), &format!("{src} {text} panicked: {}", p.msg), replay);
                    continue;
                }
            };
            let back: Vec<(&str, Result<Option<i128>, crate::mon::Panic>)> = vec![
                ("u64", guard(|| from_value::<u64>(&v).ok().map(|x| x as i128))),
                ("usize", guard(|| from_value::<usize>(&v).ok().map(|x| x as i128))),
                ("i64", guard(|| from_value::<i64>(&v).ok().map(|x| x as i128))),
                ("u32", guard(|| from_value::<u32>(&v).ok().map(|x| x as i128))),
                ("Option<u64>", guard(|| from_value::<Option<u64>>(&v).ok().flatten().map(|x| x as i128))),
                ("Vec<u64>[0]", guard(|| from_value::<Vec<u64>>(&Value::Array(vec![v.clone()])).ok().and_then(|a| a.first().copied()).map(|x| x as i128))),
            ];
            for (ty, r) in back {
                match r {
                    Ok(None) => ctx.count("integer-text:read-back-rejected"),
                    Ok(Some(y)) if y == exact => ctx.count("integer-text:read-back-exact"),
                    Ok(Some(y)) => ctx.violation(
                        "serde:integer-roundtrip-changes-value",
                        &format!("{src} {text} -> {} -> {ty} {y}: a different integer", dump_view(&v)),
                        replay,
                    ),
                    Err(p) => ctx.violation(&p.key(), &format!("{src} {text} -> {ty} panicked: {}", p.msg), replay),
                }
            }
        }
    }
    for (text, want) in [("9223372036854775807", i64::MAX), ("-9223372036854775808", i64::MIN), ("0", 0), ("-1", -1)] {
        ctx.count("in-range:json");
        match serde_json::from_str::<Value>(text) {
            Ok(v) if dump_view(&v) == format!("i:{want}") => {}
            other => ctx.violation("serde:in-range-integer-changed", &format!("JSON {text} converted to {:?}", other.map(|v| dump_view(&v))), replay),
        }
    }
    ctx.record(hash_str("out-of-range"), true);
}

fn judge_out_of_range(ctx: &mut Ctx, name: &str, r: Result<Value, ()>, want: f64, replay: &dyn Fn() -> serde_json::Value) {
    match r {
        Err(()) => ctx.count("out-of-range:rejected"),
        Ok(v) => {
            let d = dump_view(&v);
            if d == format!("f:{:016x}", want.to_bits()) {
                ctx.count("out-of-range:carried-as-float");
            } else {
                let rj = replay();
                ctx.violation("serde:out-of-range-integer-became-something-else", &format!("{name} was converted to {d}; must be rejected or carried as the float {want:e}"), move || rj);
            }
        }
    }
}

pub fn run(ctx: &mut Ctx, args: &[String]) {
    if !args.iter().any(|a| a == "--miri-sample") && ctx.shard == 0 {
        check_serializers_agree(ctx);
    }
    ctx.start_watchdog(120);
    // `--miri-sample`: 60 generated data through all views and conversions, nothing else
    let miri_sample = args.iter().any(|a| a == "--miri-sample");
    // (A)+(B): data
    let n = if miri_sample { 60 } else { ctx.scale(100_000u64, 2_000_000u64) };
    let rng = ctx.rng("c12-data");
    // fixed edge data first
    let fixed = vec![
        RVal::Nil, RVal::Empty, RVal::Blank, s("42"), s("-0"), s("1e3"), s("0x10"), s(" 42"), s("9223372036854775808"),
        RVal::Float(f64::NAN), RVal::Float(f64::INFINITY), arr(vec![]), RVal::Object(vec![]),
    ];
    for v in &fixed {
        if ctx.mine(hash_str(&v.dump())) {
            check_datum(ctx, v);
        }
    }
    for i in 0..n {
        let mut r = rng.fork(i);
        let v = gen_value(&mut r, 0);
        if !ctx.mine(hash_str(&v.dump())) {
            continue;
        }
        ctx.set_progress(&v.dump());
        check_datum(ctx, &v);
    }
    if miri_sample {
        return;
    }
    // (C): derive vs serde, every instance from small field pools
    let p = parser(Config::Stdlib);
    let ts: Vec<liquid::Template> = BATTERY.iter().map(|t| p.parse(t).expect("c12 battery template")).collect();
    let ints = [0i64, 1, -7, i64::MAX];
    let floats = [0.0f64, 1.5, -0.0];
    let strs = ["", " ", "abc", "42", "é"];
    let opts = [None, Some(0i64), Some(5)];
    let vecs: [Vec<i64>; 3] = [vec![], vec![2], vec![3, 2, 1]];
    let mut count = 0u64;
    for &i in &ints {
        for &f in &floats {
            for b in [false, true] {
                for st in strs {
                    for o in opts {
                        for v in &vecs {
                            for with_map in [false, true] {
                                count += 1;
                                let mut m = BTreeMap::new();
                                if with_map {
                                    m.insert("k".to_string(), i);
                                }
                                let rich = Rich {
                                    i,
                                    f,
                                    b,
                                    s: st.to_string(),
                                    o,
                                    v: v.clone(),
                                    m,
                                    inner: Inner { n: i, t: st.to_string() },
                                    oi: if b { Some(Inner { n: 1, t: "t".into() }) } else { None },
                                    oo: match o {
                                        None => None,
                                        Some(0) => Some(None),
                                        Some(x) => Some(Some(x)),
                                    },
                                };
                                let single = Single { only: v.iter().map(|x| x.to_string()).collect() };
                                if ctx.mine_idx(count) {
                                    check_struct(ctx, &rich, &single, &ts);
                                }
                            }
                        }
                    }
                }
            }
        }
    }
    ctx.extra.insert("struct_instances_enumerated".into(), json!(count));
    // (D)
    if ctx.shard == 0 {
        check_out_of_range(ctx);
        check_dates_through_serde(ctx);
    }
    // (E) Rust shapes other than the plain struct: narrow integers, f32, char, newtype / tuple /
    // unit structs, tuples, unit enum variants, maps with integer keys
    let n = ctx.scale(4_000u64, 60_000u64);
    let rng = ctx.rng("c12-shapes");
    for i in 0..n {
        if !ctx.mine_idx(i) {
            continue;
        }
        let mut r = rng.fork(i);
        check_shapes(ctx, &mut r);
    }
}

#[derive(Serialize, Deserialize, Debug, PartialEq, Clone)]
struct Meters(i32);
#[derive(Serialize, Deserialize, Debug, PartialEq, Clone)]
struct Pair(i16, String);
#[derive(Serialize, Deserialize, Debug, PartialEq, Clone)]
struct Marker;
#[derive(Serialize, Deserialize, Debug, PartialEq, Clone, Copy)]
enum Colour {
    Red,
    DarkGreen,
}
/// an enum whose variants carry data (serde writes them as one-entry maps)
#[derive(Serialize, Debug, Clone)]
enum Carrier {
    N(i32),
    T(i8, String),
    S { a: u8, b: String },
}
#[derive(Serialize, Debug, Clone)]
struct OneField {
    v: i64,
}

/// the three serde entry points -- `to_value`, `to_object`, `to_scalar` -- are three separate
/// serializers; whatever two of them accept they must convert alike, and none may panic
fn check_serializers_agree(ctx: &mut Ctx) {
    use liquid::model::{to_object, to_scalar};
    fn one<T: Serialize + std::fmt::Debug>(ctx: &mut Ctx, x: &T, direct_scalar: bool) {
        let shown = format!("{x:?}");
        let replay = || json!({"kind": "serializers", "value": shown});
        ctx.record(hash_str(&format!("ser3:{}:{shown}", std::any::type_name::<T>())), true);
        ctx.count("serializers:shapes");
        let r = guard(|| {
            (
                to_value(x).ok().map(|v| dump_view(&v)),
                to_object(x).ok().map(|o| dump_view(&Value::Object(o))),
                to_scalar(x).ok().map(|sc| dump_view(&Value::Scalar(sc))),
                to_value(x).ok().map(|v| (v.as_object().is_some(), v.as_scalar().is_some())),
            )
        });
        let (v, o, sc, kind) = match r {
            Ok(t) => t,
            Err(p) => {
                ctx.violation(&p.key(), &format!("a serde conversion of {shown} panicked: {}", p.msg), replay);
                return;
            }
        };
        if let Some(o) = &o {
            ctx.count("serializers:to_object-accepts");
            if v.as_ref() != Some(o) {
                ctx.violation("serde:to_object-differs-from-to_value", &format!("to_object({shown}) = {o}, to_value gives {v:?}"), replay);
            }
        }
        if let Some(sc) = &sc {
            ctx.count("serializers:to_scalar-accepts");
            if v.as_ref() != Some(sc) {
                ctx.violation("serde:to_scalar-differs-from-to_value", &format!("to_scalar({shown}) = {sc}, to_value gives {v:?}"), replay);
            }
        }
        if let Some((is_obj, is_scalar)) = kind {
            if is_obj && o.is_none() {
                ctx.violation("serde:to_object-rejects-an-object", &format!("to_value({shown}) is an object ({v:?}) but to_object refuses it"), replay);
            }
            if is_scalar && direct_scalar && sc.is_none() {
                ctx.violation("serde:to_scalar-rejects-a-scalar", &format!("to_value({shown}) is a scalar ({v:?}) but to_scalar refuses it"), replay);
            }
            if !is_obj && o.is_some() || !is_scalar && sc.is_some() {
                ctx.violation("serde:kind-differs-between-serializers", &format!("{shown}: to_value says {v:?}, to_object {o:?}, to_scalar {sc:?}"), replay);
            }
        }
    }
    one(ctx, &true, true);
    one(ctx, &false, true);
    for n in [i8::MIN, -1, 0, i8::MAX] {
        one(ctx, &n, true);
    }
    for n in [i16::MIN, 300] {
        one(ctx, &n, true);
    }
    for n in [i32::MIN, 70000] {
        one(ctx, &n, true);
    }
    for n in [i64::MIN, -1, 0, i64::MAX] {
        one(ctx, &n, true);
    }
    one(ctx, &200u8, true);
    one(ctx, &60000u16, true);
    one(ctx, &4_000_000_000u32, true);
    for n in [0u64, i64::MAX as u64, i64::MAX as u64 + 1, u64::MAX] {
        one(ctx, &n, false);
    }
    for f in [0.0f32, -1.5, 3.0e10] {
        one(ctx, &f, true);
    }
    for f in [0.0f64, -0.0, 2.5, 1e300, f64::NAN, f64::INFINITY] {
        one(ctx, &f, true);
    }
    for c in ['a', 'é', '👍', '\n'] {
        one(ctx, &c, true);
    }
    for t in ["", "text", "42", "2020-01-02", "é 👍"] {
        one(ctx, &t, true);
        one(ctx, &t.to_string(), true);
    }
    one(ctx, &(), false);
    one(ctx, &Marker, false);
    one(ctx, &Colour::Red, false);
    one(ctx, &Meters(3), false);
    one(ctx, &Carrier::N(5), false);
    one(ctx, &Carrier::T(-1, "t".into()), false);
    one(ctx, &Carrier::S { a: 7, b: "é".into() }, false);
    one(ctx, &None::<i32>, false);
    one(ctx, &Some(5i32), false);
    one(ctx, &Some("x"), false);
    one(ctx, &Some(OneField { v: 1 }), false);
    one(ctx, &Some(Some(OneField { v: 2 })), false);
    one(ctx, &OneField { v: -3 }, false);
    one(ctx, &vec![1, 2, 3], false);
    one(ctx, &Vec::<i32>::new(), false);
    one(ctx, &(1u8, "a", true), false);
    one(ctx, &Pair(4, "p".into()), false);
    one(ctx, &[1u8, 2, 3], false);
    one(ctx, &BTreeMap::<String, i32>::new(), false);
    one(ctx, &BTreeMap::from([("k".to_string(), 1i32), ("size".to_string(), 2)]), false);
    one(ctx, &BTreeMap::from([("outer".to_string(), BTreeMap::from([("inner".to_string(), vec![Some(1u8), None])]))]), false);
    one(ctx, &HashMap::from([("only", OneField { v: 9 })]), false);
    // maps keyed by every scalar kind: keys become their text, or the map is refused -- alike in both
    one(ctx, &BTreeMap::from([(true, 1)]), false);
    one(ctx, &BTreeMap::from([(-5i8, 1), (7, 2)]), false);
    one(ctx, &BTreeMap::from([(-300i16, 1)]), false);
    one(ctx, &BTreeMap::from([(70000i32, 1)]), false);
    one(ctx, &BTreeMap::from([(i64::MIN, 1), (i64::MAX, 2)]), false);
    one(ctx, &BTreeMap::from([(200u8, 1)]), false);
    one(ctx, &BTreeMap::from([(60000u16, 1)]), false);
    one(ctx, &BTreeMap::from([(4_000_000_000u32, 1)]), false);
    one(ctx, &BTreeMap::from([(u64::MAX, 1), (0, 2)]), false);
    one(ctx, &BTreeMap::from([('é', 1), ('a', 2)]), false);
    one(ctx, &BTreeMap::from([(Colour::Red as u8, 1)]), false);
    one(ctx, &BTreeMap::from([((1u8, 2u8), 1)]), false);
    one(ctx, &BTreeMap::from([(Some(1u8), 1)]), false);
    one(ctx, &BTreeMap::from([(Meters(2).0, "newtype-inner")]), false);
    // the keys of an integer-keyed map are the decimal texts (both serializers)
    for (m, want) in [
        (to_value(&BTreeMap::from([(-5i8, 1), (7, 2)])).ok(), vec!["-5", "7"]),
        (to_object(&BTreeMap::from([(-5i8, 1), (7, 2)])).ok().map(Value::Object), vec!["-5", "7"]),
        (to_value(&BTreeMap::from([(u64::MAX, 1)])).ok(), vec!["18446744073709551615"]),
        (to_object(&BTreeMap::from([(u64::MAX, 1)])).ok().map(Value::Object), vec!["18446744073709551615"]),
        (to_value(&BTreeMap::from([('é', 1)])).ok(), vec!["é"]),
        (to_object(&BTreeMap::from([('é', 1)])).ok().map(Value::Object), vec!["é"]),
    ] {
        if let Some(v) = m {
            let mut keys: Vec<String> = v.as_object().map(|o| o.keys().map(|k| k.to_string()).collect()).unwrap_or_default();
            keys.sort();
            if keys != want {
                ctx.violation("serde:map-keys-converted-wrongly", &format!("map keys {want:?} arrived as {keys:?}"), || json!({"kind": "serializers", "value": format!("{want:?}")}));
            } else {
                ctx.count("serializers:map-keys-exact");
            }
        } else {
            ctx.count("serializers:map-refused");
        }
    }
}

#[derive(Serialize, Deserialize, Debug, PartialEq, Clone)]
struct Shapes {
    a: i8,
    b: i16,
    c: i32,
    d: u8,
    e: u16,
    f: u32,
    g: f32,
    h: char,
    i: Meters,
    j: Pair,
    k: Marker,
    l: (u8, String, bool),
    o: Option<u16>,
    p: Vec<(i8, char)>,
    q: [u8; 3],
}

fn check_shapes(ctx: &mut Ctx, r: &mut Rng) {
    let chars = ['a', 'Z', '0', ' ', 'é', '👍', '\n', '"'];
    let x = Shapes {
        a: r.choose(&[i8::MIN, -1, 0, 1, i8::MAX]),
        b: r.choose(&[i16::MIN, -300, 0, 300, i16::MAX]),
        c: r.choose(&[i32::MIN, -70000, 0, 70000, i32::MAX]),
        d: r.choose(&[0, 1, 200, u8::MAX]),
        e: r.choose(&[0, 1, 40000, u16::MAX]),
        f: r.choose(&[0, 1, 3_000_000_000, u32::MAX]),
        g: r.choose(&[0.0f32, -0.5, 1.25, 1024.0, -3.0e10]),
        h: r.choose(&chars),
        i: Meters(r.range(-5, 5) as i32),
        j: Pair(r.range(-9, 9) as i16, r.choose(&["", "x", "é y"]).to_string()),
        k: Marker,
        l: (r.below(256) as u8, r.choose(&["t", ""]).to_string(), r.chance(1, 2)),
        o: if r.chance(1, 3) { None } else { Some(r.below(65536) as u16) },
        p: (0..r.below(3)).map(|_| (r.range(-128, 127) as i8, r.choose(&chars))).collect(),
        q: [r.below(256) as u8, 0, 255],
    };
    let shown = format!("{x:?}");
    let replay = || json!({"kind": "shapes", "value": shown});
    ctx.record(hash_str(&shown), true);
    ctx.count("shapes:instances");
    let v = match guard(|| to_value(&x)) {
        Ok(Ok(v)) => v,
        Ok(Err(e)) => {
            ctx.violation("serde:shapes-rejected", &format!("to_value({shown}) failed: {e}"), replay);
            return;
        }
        Err(p) => {
            ctx.violation(&p.key(), &format!("to_value({shown}) panicked: {}", p.msg), replay);
            return;
        }
    };
    // what the liquid value must look like
    let int = |n: i64| RVal::Int(n);
    let st = |t: &str| RVal::Str(t.to_string());
    let want = RVal::Object(vec![
        ("a".into(), int(x.a as i64)),
        ("b".into(), int(x.b as i64)),
        ("c".into(), int(x.c as i64)),
        ("d".into(), int(x.d as i64)),
        ("e".into(), int(x.e as i64)),
        ("f".into(), int(x.f as i64)),
        ("g".into(), RVal::Float(x.g as f64)),
        ("h".into(), st(&x.h.to_string())),
        ("i".into(), int(x.i.0 as i64)),
        ("j".into(), RVal::Array(vec![int(x.j.0 as i64), st(&x.j.1)])),
        ("k".into(), RVal::Nil),
        ("l".into(), RVal::Array(vec![int(x.l.0 as i64), st(&x.l.1), RVal::Bool(x.l.2)])),
        ("o".into(), x.o.map_or(RVal::Nil, |n| int(n as i64))),
        ("p".into(), RVal::Array(x.p.iter().map(|(n, c)| RVal::Array(vec![int(*n as i64), st(&c.to_string())])).collect())),
        ("q".into(), RVal::Array(x.q.iter().map(|b| int(*b as i64)).collect())),
    ]);
    let got = dump_view(&v);
    if got != want.dump() {
        ctx.violation("serde:shapes-converted-wrongly", &format!("to_value({shown}) = {got}, expected {}", want.dump()), replay);
        return;
    }
    // and back
    match guard(|| from_value::<Shapes>(&v)) {
        Ok(Ok(y)) => {
            if y != x {
                ctx.violation("serde:shapes-roundtrip-changes-value", &format!("{shown} came back as {y:?}"), replay);
            } else {
                ctx.count("shapes:roundtrip-exact");
            }
        }
        Ok(Err(e)) => ctx.violation("serde:shapes-roundtrip-rejected", &format!("from_value(to_value({shown})) failed: {e}"), replay),
        Err(p) => ctx.violation(&p.key(), &format!("from_value of {shown} panicked: {}", p.msg), replay),
    }
    // a unit enum variant becomes its name; reading enums back is not supported by the bridge (it
    // says so with an error) -- if it ever answers, it must answer with the same variant
    for c in [Colour::Red, Colour::DarkGreen] {
        match guard(|| to_value(&c).ok().map(|v| (dump_view(&v), from_value::<Colour>(&v).ok()))) {
            Ok(Some((d, back))) => {
                let want = RVal::Str(format!("{c:?}")).dump();
                if d != want {
                    ctx.violation("serde:shapes-converted-wrongly", &format!("to_value({c:?}) = {d}, expected {want}"), replay);
                }
                match back {
                    None => ctx.count("shapes:enum-read-back-rejected"),
                    Some(y) if y == c => ctx.count("shapes:enum-read-back-exact"),
                    Some(y) => ctx.violation("serde:shapes-roundtrip-changes-value", &format!("{c:?} came back as {y:?}"), replay),
                }
            }
            Ok(None) => ctx.count("shapes:enum-rejected"),
            Err(p) => ctx.violation(&p.key(), &format!("enum conversion panicked: {}", p.msg), replay),
        }
    }
    // a map with integer keys becomes an object keyed by their decimal text; reading it back into
    // integer keys is not supported (an error) -- if it answers, it answers with the same map
    {
        let m: BTreeMap<i32, String> = (0..r.below(3)).map(|k| (r.range(-3, 3) as i32 * 7 + k as i32, format!("v{k}"))).collect();
        match guard(|| to_value(&m).ok().map(|v| (dump_view(&v), from_value::<BTreeMap<i32, String>>(&v).ok()))) {
            Ok(Some((d, back))) => {
                let want = RVal::Object(m.iter().map(|(k, v)| (k.to_string(), RVal::Str(v.clone()))).collect()).dump();
                if d != want {
                    ctx.violation("serde:shapes-converted-wrongly", &format!("to_value({m:?}) = {d}, expected {want}"), replay);
                }
                match back {
                    None => ctx.count("shapes:integer-keyed-map-read-back-rejected"),
                    Some(y) if y == m => ctx.count("shapes:integer-keyed-map-read-back-exact"),
                    Some(y) => ctx.violation("serde:shapes-roundtrip-changes-value", &format!("{m:?} came back as {y:?}"), replay),
                }
            }
            Ok(None) => ctx.count("shapes:integer-keyed-map-rejected"),
            Err(p) => ctx.violation(&p.key(), &format!("map conversion panicked: {}", p.msg), replay),
        }
    }
    // narrowing must reject, not wrap: a value out of the target's range
    for (name, r) in [
        ("i8 <- 200", guard(|| from_value::<i8>(&Value::scalar(200i64)).ok().map(|n| n as i64))),
        ("u8 <- -1", guard(|| from_value::<u8>(&Value::scalar(-1i64)).ok().map(|n| n as i64))),
        ("u16 <- 70000", guard(|| from_value::<u16>(&Value::scalar(70000i64)).ok().map(|n| n as i64))),
        ("i32 <- 2^40", guard(|| from_value::<i32>(&Value::scalar(1i64 << 40)).ok().map(|n| n as i64))),
        ("u32 <- -5", guard(|| from_value::<u32>(&Value::scalar(-5i64)).ok().map(|n| n as i64))),
    ] {
        match r {
            Ok(None) => ctx.count("shapes:narrowing-rejected"),
            Ok(Some(n)) => ctx.violation("serde:integer-roundtrip-changes-value", &format!("{name} gave {n}: a different integer"), replay),
            Err(p) => ctx.violation(&p.key(), &format!("{name} panicked: {}", p.msg), replay),
        }
    }
}

pub fn replay(j: &serde_json::Value) -> bool {
    let mut ctx = Ctx::new("C12", crate::ctx::Tier::Quick, 1, 0, 1, None);
    match j["kind"].as_str().unwrap_or("") {
        "datum" => check_datum(&mut ctx, &RVal::from_json(&j["value"])),
        "struct" => {
            let p = parser(Config::Stdlib);
            let ts: Vec<liquid::Template> = BATTERY.iter().map(|t| p.parse(t).expect("battery")).collect();
            if let (Ok(rich), Ok(single)) = (serde_json::from_value::<Rich>(j["rich"].clone()), serde_json::from_value::<Single>(j["single"].clone())) {
                check_struct(&mut ctx, &rich, &single, &ts);
            }
        }
        "shapes" => {
            // the instance is identified by its seed stream: re-run the family of the recorded seed
            let seed = j["seed"].as_u64().unwrap_or(1);
            let mut c2 = Ctx::new("C12", crate::ctx::Tier::Quick, seed, 0, 1, None);
            let rng = c2.rng("c12-shapes");
            for i in 0..4_000u64 {
                let mut r = rng.fork(i);
                check_shapes(&mut c2, &mut r);
            }
            ctx.violations = std::mem::take(&mut c2.violations);
        }
        "dates-through-serde" => check_dates_through_serde(&mut ctx),
        _ => check_out_of_range(&mut ctx),
    }
    for v in &ctx.violations {
        println!("VIOLATED {}: {}", v.key, v.what);
    }
    if ctx.violations.is_empty() {
        println!("all views and conversions agree");
    }
    !ctx.violations.is_empty()
}
