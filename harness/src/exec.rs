//! Monitored execution of the real crates: M1 (panic), M3 (UTF-8), M4 (result shape).
use crate::mon::{guard, Panic};
use liquid::{Object, Template};

#[derive(Debug, Clone)]
pub enum Out {
    Ok(String),
    /// first line of the error message (possibly empty -> M4 violation)
    Err(String),
    Panic(Panic),
    /// the sink received bytes that are not UTF-8
    BadUtf8(Vec<u8>),
}

impl Out {
    pub fn tag(&self) -> &'static str {
        match self {
            Out::Ok(_) => "ok",
            Out::Err(_) => "err",
            Out::Panic(_) => "panic",
            Out::BadUtf8(_) => "bad-utf8",
        }
    }
    /// comparable summary: output, or just "error"
    pub fn summary(&self) -> String {
        match self {
            Out::Ok(s) => format!("ok:{s}"),
            Out::Err(_) => "err".into(),
            Out::Panic(p) => format!("panic:{}", p.key()),
            Out::BadUtf8(_) => "bad-utf8".into(),
        }
    }
    /// like `summary`, but failures carry the first line of their message (deterministic text)
    pub fn summary_with_error(&self) -> String {
        match self {
            Out::Err(m) => format!("err:{m}"),
            other => other.summary(),
        }
    }
    pub fn ok(&self) -> Option<&str> {
        match self {
            Out::Ok(s) => Some(s),
            _ => None,
        }
    }
}

thread_local! {
    /// full text of the error of the last `render` on this thread that failed
    static LAST_ERROR: std::cell::RefCell<Option<String>> = const { std::cell::RefCell::new(None) };
}

/// full message of the last failed `render` on this thread
pub fn last_error_text() -> Option<String> {
    LAST_ERROR.with(|l| l.borrow().clone())
}

/// An order-insensitive fingerprint of a whole error message: first line verbatim, number of
/// lines, and the sorted characters of everything after the first line (hashed). Messages may
/// print objects (hash-map order, the one aspect the statements leave open), so any permutation
/// of the same text must compare equal; a missing or extra context line must not.
pub fn error_fingerprint(full: &str) -> String {
    let mut lines = full.lines();
    let first = lines.next().unwrap_or("");
    let rest: Vec<&str> = lines.collect();
    let mut chars: Vec<char> = rest.iter().flat_map(|l| l.chars()).collect();
    chars.sort_unstable();
    let sorted: String = chars.into_iter().collect();
    format!("{first} [+{} context lines, fingerprint {:016x}]", rest.len(), crate::rng::hash_str(&sorted))
}

/// like `render(..).summary_with_error()`, but a failure is identified by its whole message
/// (through `error_fingerprint`), not just the first line
pub fn render_full(t: &Template, data: &Object) -> String {
    let streamed = match render(t, data) {
        Out::Err(_) => format!("err:{}", error_fingerprint(&last_error_text().unwrap_or_default())),
        other => other.summary(),
    };
    // the String-returning entry point as well (both profiles): it must tell the same story
    let buffered = match guard(|| t.render(data)) {
        Ok(Ok(s)) => format!("ok:{s}"),
        Ok(Err(e)) => format!("err:{}", error_fingerprint(&e.to_string())),
        Err(p) => format!("panic:{}", p.key()),
    };
    if buffered != streamed {
        return format!("render()-and-render_to()-disagree: render() = {} / render_to = {}", buffered.chars().take(300).collect::<String>(), streamed.chars().take(300).collect::<String>());
    }
    streamed
}

pub fn first_line(e: &liquid::Error) -> String {
    e.to_string().lines().next().unwrap_or("").to_string()
}

/// render through `render_to` into a byte sink and validate the bytes; in the release profile
/// the `String` returned by `render()` (from_utf8_unchecked path) is validated as well
pub fn render(t: &Template, data: &Object) -> Out {
    let r = guard(|| {
        let mut buf: Vec<u8> = Vec::new();
        let r = t.render_to(&mut buf, data);
        (r, buf)
    });
    match r {
        Err(p) => Out::Panic(p),
        Ok((Err(e), _)) => {
            LAST_ERROR.with(|l| *l.borrow_mut() = Some(e.to_string()));
            Out::Err(first_line(&e))
        }
        Ok((Ok(()), buf)) => match String::from_utf8(buf) {
            Ok(s) => {
                if !cfg!(debug_assertions) {
                    // release: exercise the unchecked conversion too
                    match guard(|| t.render(data)) {
                        Ok(Ok(s2)) => {
                            if std::str::from_utf8(s2.as_bytes()).is_err() {
                                return Out::BadUtf8(s2.into_bytes());
                            }
                        }
                        Ok(Err(_)) => {}
                        Err(p) => return Out::Panic(p),
                    }
                }
                Out::Ok(s)
            }
            Err(e) => Out::BadUtf8(e.into_bytes()),
        },
    }
}

/// limit the address space so that a runaway allocation becomes an observable abort
pub fn limit_memory(gib: u64) {
    unsafe {
        let lim = libc::rlimit {
            rlim_cur: gib << 30,
            rlim_max: gib << 30,
        };
        libc::setrlimit(libc::RLIMIT_AS, &lim);
    }
}
