//! Per-worker run context: sharding, distinct counting, counters, samples, violations,
//! crash-surviving progress record and a no-progress watchdog.
use crate::rng::{hash_str, Rng};
use serde_json::{json, Value as Json};
use std::collections::{BTreeMap, HashSet};
use std::sync::atomic::{AtomicU64, Ordering};
use std::sync::Arc;

#[derive(Clone, Copy, PartialEq, Eq, Debug)]
pub enum Tier {
    Quick,
    Thorough,
}

pub struct Progress {
    ptr: *mut u8,
    len: usize,
}
unsafe impl Send for Progress {}

impl Progress {
    pub fn open(path: &str, len: usize) -> Option<Progress> {
        use std::os::unix::io::AsRawFd;
        let f = std::fs::OpenOptions::new()
            .read(true)
            .write(true)
            .create(true)
            .truncate(true)
            .open(path)
            .ok()?;
        f.set_len(len as u64).ok()?;
        let p = unsafe {
            libc::mmap(
                std::ptr::null_mut(),
                len,
                libc::PROT_READ | libc::PROT_WRITE,
                libc::MAP_SHARED,
                f.as_raw_fd(),
                0,
            )
        };
        if p == libc::MAP_FAILED {
            return None;
        }
        Some(Progress {
            ptr: p as *mut u8,
            len,
        })
    }
    /// record the case about to be executed (NUL-terminated, truncated)
    pub fn set(&self, s: &str) {
        let b = s.as_bytes();
        let n = b.len().min(self.len - 1);
        unsafe {
            std::ptr::copy_nonoverlapping(b.as_ptr(), self.ptr, n);
            *self.ptr.add(n) = 0;
        }
    }
}

pub struct Violation {
    pub key: String,
    pub what: String,
    pub replay: Json,
}

pub struct Ctx {
    pub prop: String,
    pub tier: Tier,
    pub seed: u64,
    pub shard: u64,
    pub nshards: u64,
    pub out: Option<String>,
    pub evaluations: u64,
    pub distinct_nontrivial: u64,
    distinct: HashSet<u64>,
    pub counters: BTreeMap<String, u64>,
    pub sets: BTreeMap<String, HashSet<u64>>,
    pub samples: Vec<Json>,
    sample_rng: Rng,
    samples_seen: u64,
    pub violations: Vec<Violation>,
    pub violation_counts: BTreeMap<String, u64>,
    pub inconclusive: Vec<String>,
    pub progress: Option<Progress>,
    pub beat: Arc<AtomicU64>,
    pub extra: BTreeMap<String, Json>,
    events: Option<std::io::BufWriter<std::fs::File>>,
    pub events_written: u64,
}

pub const MAX_REPLAYS_PER_KEY: u64 = 3;
pub const SET_EXPORT_CAP: usize = 100_000;

impl Ctx {
    pub fn new(prop: &str, tier: Tier, seed: u64, shard: u64, nshards: u64, out: Option<String>) -> Ctx {
        // (no mmap under Miri)
        let progress = if cfg!(miri) {
            None
        } else {
            out.as_ref()
                .and_then(|o| Progress::open(&format!("{o}.progress"), 1 << 16))
        };
        let beat = Arc::new(AtomicU64::new(0));
        Ctx {
            prop: prop.to_string(),
            tier,
            seed,
            shard,
            nshards,
            out,
            evaluations: 0,
            distinct_nontrivial: 0,
            distinct: HashSet::new(),
            counters: BTreeMap::new(),
            sets: BTreeMap::new(),
            samples: Vec::new(),
            sample_rng: Rng::new(seed ^ 0x5a5a ^ shard),
            samples_seen: 0,
            violations: Vec::new(),
            violation_counts: BTreeMap::new(),
            inconclusive: Vec::new(),
            progress,
            beat,
            extra: BTreeMap::new(),
            events: None,
            events_written: 0,
        }
    }
    /// M10: append one event (a JSON object) to this worker's event log `<out>.events.jsonl`,
    /// read afterwards by the offline checker; without --out events go to stdout (replay mode)
    pub fn event(&mut self, ev: &Json) {
        use std::io::Write;
        self.events_written += 1;
        match &self.out {
            Some(o) => {
                if self.events.is_none() {
                    let f = std::fs::File::create(format!("{o}.events.jsonl")).expect("create event log");
                    self.events = Some(std::io::BufWriter::new(f));
                }
                let w = self.events.as_mut().unwrap();
                serde_json::to_writer(&mut *w, ev).expect("write event");
                w.write_all(b"\n").expect("write event");
            }
            None => println!("{}", serde_json::to_string(ev).unwrap()),
        }
    }
    pub fn quick(&self) -> bool {
        self.tier == Tier::Quick
    }
    /// choose by tier
    pub fn scale<T>(&self, quick: T, thorough: T) -> T {
        if self.quick() {
            quick
        } else {
            thorough
        }
    }
    /// independent PRNG stream for a named part of a workload (same for all shards)
    pub fn rng(&self, tag: &str) -> Rng {
        Rng::new(self.seed).fork(hash_str(tag))
    }
    /// hash-based sharding: a case belongs to exactly one shard, so distinct counts add up
    pub fn mine(&self, h: u64) -> bool {
        h % self.nshards == self.shard
    }
    /// index-based sharding for expensive-to-generate cases
    pub fn mine_idx(&self, i: u64) -> bool {
        i % self.nshards == self.shard
    }
    pub fn set_progress(&self, s: &str) {
        if let Some(p) = &self.progress {
            p.set(s);
        }
    }
    /// one execution observed; `nontrivial` by the check's rule; `h` = content hash of the case
    pub fn record(&mut self, h: u64, nontrivial: bool) {
        self.evaluations += 1;
        self.beat.fetch_add(1, Ordering::Relaxed);
        if nontrivial && self.distinct.insert(h) {
            self.distinct_nontrivial += 1;
        }
    }
    pub fn count(&mut self, name: &str) {
        self.add(name, 1);
    }
    pub fn add(&mut self, name: &str, n: u64) {
        if let Some(c) = self.counters.get_mut(name) {
            *c += n;
        } else {
            self.counters.insert(name.to_string(), n);
        }
    }
    /// count distinct members of a named set (e.g. distinct panic sites, abstract states)
    pub fn set_insert(&mut self, name: &str, h: u64) -> bool {
        self.sets.entry(name.to_string()).or_default().insert(h)
    }
    /// keep the first two cases and a small reservoir of later ones
    pub fn sample(&mut self, f: impl FnOnce() -> Json) {
        self.samples_seen += 1;
        if self.samples.len() < 2 {
            self.samples.push(f());
            return;
        }
        if self.samples.len() < 6 {
            if self.sample_rng.chance(1, 50) {
                self.samples.push(f());
            }
            return;
        }
        if self.sample_rng.below(self.samples_seen as usize) < 4 && self.sample_rng.chance(1, 8) {
            let i = 2 + self.sample_rng.below(4);
            self.samples[i] = f();
        }
    }
    pub fn violation(&mut self, key: &str, what: &str, replay: impl FnOnce() -> Json) {
        let c = self.violation_counts.entry(key.to_string()).or_insert(0);
        *c += 1;
        if *c <= MAX_REPLAYS_PER_KEY {
            let mut r = replay();
            if let Some(o) = r.as_object_mut() {
                o.insert("check".into(), json!(self.prop));
                o.insert("key".into(), json!(key));
                o.insert("what".into(), json!(what));
                o.insert("seed".into(), json!(self.seed));
                o.insert("profile".into(), json!(crate::profile_name()));
            }
            self.violations.push(Violation {
                key: key.to_string(),
                what: what.to_string(),
                replay: r,
            });
        }
    }
    pub fn start_watchdog(&self, secs: u64) {
        if cfg!(miri) {
            // interpretation is ~10^4 times slower; the orchestrator's own timeout applies
            return;
        }
        let beat = self.beat.clone();
        let out = self.out.clone();
        std::thread::spawn(move || {
            let mut last = beat.load(Ordering::Relaxed);
            let mut idle = 0u64;
            loop {
                std::thread::sleep(std::time::Duration::from_secs(1));
                let now = beat.load(Ordering::Relaxed);
                if now == last {
                    idle += 1;
                } else {
                    idle = 0;
                    last = now;
                }
                if idle >= secs {
                    if let Some(o) = &out {
                        let _ = std::fs::write(format!("{o}.hang"), format!("no progress for {secs}s"));
                    }
                    eprintln!("WATCHDOG: no progress for {secs}s");
                    std::process::exit(17);
                }
            }
        });
    }
    pub fn to_json(&self) -> Json {
        let sets: BTreeMap<String, Vec<u64>> = self
            .sets
            .iter()
            .map(|(k, v)| {
                let mut v: Vec<u64> = v.iter().cloned().collect();
                v.sort();
                // keep worker results small: beyond the cap only the smallest hashes are
                // exported, so the merged count is a lower bound (flagged in `set_sizes`)
                v.truncate(SET_EXPORT_CAP);
                (k.clone(), v)
            })
            .collect();
        json!({
            "prop": self.prop,
            "shard": self.shard,
            "nshards": self.nshards,
            "seed": self.seed,
            "tier": if self.quick() {"quick"} else {"thorough"},
            "profile": crate::profile_name(),
            "evaluations": self.evaluations,
            "distinct_nontrivial": self.distinct_nontrivial,
            "counters": self.counters,
            "sets": sets,
            "set_sizes": self.sets.iter().map(|(k, v)| (k.clone(), v.len() as u64)).collect::<BTreeMap<String, u64>>(),
            "samples": self.samples,
            "violation_counts": self.violation_counts,
            "violations": self.violations.iter().map(|v| json!({"key": v.key, "what": v.what, "replay": v.replay})).collect::<Vec<_>>(),
            "inconclusive": self.inconclusive,
            "extra": self.extra,
        })
    }
    pub fn finish(&mut self) {
        use std::io::Write;
        if let Some(w) = self.events.as_mut() {
            w.flush().expect("flush event log");
        }
        let j = self.to_json();
        match &self.out {
            Some(o) => {
                std::fs::write(o, serde_json::to_string(&j).unwrap()).expect("write worker result");
            }
            None => println!("{}", serde_json::to_string_pretty(&j).unwrap()),
        }
    }
}
