//! Hostile value pools (C02 and friends).
use crate::val::{arr, obj, s, RVal};

pub fn mixed_array(n: usize) -> RVal {
    let cyc = [
        RVal::Int(3),
        s("b"),
        RVal::Nil,
        RVal::Float(1.5),
        RVal::Bool(true),
        s("10"),
        RVal::Int(-1),
        arr(vec![RVal::Int(1)]),
        obj(vec![("k", RVal::Int(2))]),
        s("A"),
        RVal::Float(f64::NAN),
    ];
    arr((0..n).map(|i| cyc[(i * 7 + i / 3) % cyc.len()].clone()).collect())
}

/// small pool (quick tier): one or two representatives of every kind and every known edge
pub fn small() -> Vec<RVal> {
    vec![
        RVal::Nil,
        RVal::Bool(true),
        RVal::Int(0),
        RVal::Int(-1),
        RVal::Int(3),
        RVal::Int(i64::MAX),
        RVal::Int(i64::MIN),
        RVal::Int(10_000),
        RVal::Float(2.5),
        RVal::Float(f64::NAN),
        RVal::Float(1e300),
        s(""),
        s("é👍 a"),
        s("-3"),
        s("%é %10N"),
        s("2020-02-29 10:00:00 +0100"),
        // property paths (jekyll sort / where / map arguments): bracket index through a variable
        s("k[zz]"),
        RVal::DateTime("9999-12-31 23:00:00 +0000".into()),
        // long non-ASCII texts: byte offsets such as 80 fall inside a character
        RVal::Str("aé".repeat(45)),
        arr(vec![]),
        mixed_array(25),
        obj(vec![("k", RVal::Int(1)), ("size", s("own"))]),
        // at least two objects: property comparators actually run
        arr(vec![obj(vec![("k", RVal::Int(2))]), obj(vec![("k", RVal::Int(1))]), obj(vec![("j", RVal::Int(1))])]),
        RVal::Empty,
    ]
}

pub fn large() -> Vec<RVal> {
    let mut v = small();
    v.extend(vec![
        RVal::Bool(false),
        RVal::Int(1),
        RVal::Int(2),
        RVal::Int(7),
        RVal::Int(1 << 31),
        RVal::Int(-(1 << 31)),
        RVal::Int((1 << 31) - 1),
        RVal::Int(1 << 62),
        RVal::Int(-(1 << 62)),
        RVal::Int(i64::MAX - 1),
        RVal::Int(i64::MIN + 1),
        RVal::Int((1 << 31) / 3600),
        RVal::Int((1 << 31) / 3600 + 1),
        RVal::Int(-((1 << 31) / 3600) - 1),
        RVal::Int(1_000_000),
        RVal::Int(14),
        RVal::Int(-12),
        RVal::Float(0.0),
        RVal::Float(-0.0),
        RVal::Float(0.5),
        RVal::Float(1.5),
        RVal::Float(-2.5),
        RVal::Float(f64::INFINITY),
        RVal::Float(f64::NEG_INFINITY),
        RVal::Float(9.3e18),
        s(" "),
        s("\n"),
        s("a"),
        s("é"),
        s("e\u{301}"),
        s("👍"),
        s("12"),
        s("1.5"),
        s("%"),
        s("%10"),
        s("<a>&"),
        s("a,b c"),
        s("k[x]"),
        s("k.first[0]"),
        RVal::Str("👍é".repeat(25)),
        arr((0..30).map(|_| s("ü")).collect()),
        s("2020-02-29"),
        s("now"),
        s("%Y-%m-%d %H:%M:%S.%L %z %s %U %V %G %j %e %^a %-d %_m %010Y %:z %::z %+ %c %D %é"),
        RVal::Date("2020-02-29".into()),
        RVal::DateTime("2020-02-29 10:00:00 +0100".into()),
        RVal::DateTime("1970-01-01 00:00:00.005 +0000".into()),
        arr(vec![RVal::Nil]),
        arr(vec![RVal::Int(3), RVal::Int(1), RVal::Int(2)]),
        arr(vec![s("b"), s("a"), s("C")]),
        mixed_array(40),
        mixed_array(21),
        arr(vec![obj(vec![("k", RVal::Int(2))]), obj(vec![("k", RVal::Int(1))]), obj(vec![("j", RVal::Int(1))])]),
        obj(vec![]),
        obj(vec![("a", RVal::Int(1))]),
        obj(vec![("k", arr(vec![RVal::Int(1), RVal::Int(2)])), ("first", RVal::Int(9))]),
        RVal::Blank,
    ]);
    v
}
