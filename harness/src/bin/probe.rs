use lqverif::cfg::*;
use lqverif::gen::prog::*;
use lqverif::rng::Rng;
use std::collections::BTreeMap;
fn main() {
    lqverif::mon::install();
    let rng = Rng::new(5);
    let mut m: BTreeMap<String, u32> = BTreeMap::new();
    for i in 0..3000 {
        let mut r = rng.fork(i);
        let opts = Opts { max_depth: 3, max_len: 4, allow_partials: true, undefined_pct: 2, ..Opts::default() };
        let sc = scenario(&mut r, 2, false, &opts);
        let p = parser_with(Config::Stdlib, Policy::Eager, &sc.partials).unwrap();
        match p.parse(&sc.main) {
            Err(e) => { *m.entry(format!("PARSE {}", e.to_string().lines().next().unwrap_or(""))).or_default() += 1; }
            Ok(t) => match t.render(&sc.data.to_object()) {
                Ok(_) => { *m.entry("ok".into()).or_default() += 1; }
                Err(e) => { *m.entry(e.to_string().lines().next().unwrap_or("").to_string()).or_default() += 1; }
            },
        }
    }
    let mut v: Vec<_> = m.into_iter().collect();
    v.sort_by_key(|x| std::cmp::Reverse(x.1));
    for (k, c) in v.iter().take(25) { println!("{c:5} {k}"); }
}
