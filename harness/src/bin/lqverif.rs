use lqverif::checks;
use lqverif::ctx::{Ctx, Tier};

fn arg(args: &[String], name: &str) -> Option<String> {
    args.iter().position(|a| a == name).and_then(|i| args.get(i + 1).cloned())
}

fn main() {
    let args: Vec<String> = std::env::args().collect();
    if args.len() < 2 {
        eprintln!("usage: lqverif <cNN> [--tier quick|thorough] [--seed N] [--shard i/n] [--out file] | --replay file");
        std::process::exit(2);
    }
    lqverif::mon::install();
    if std::env::var_os("LQVERIF_NO_RLIMIT").is_none() && !cfg!(miri) {
        // (sanitizer runtimes and Miri need an unrestricted address space)
        lqverif::exec::limit_memory(8);
    }
    if let Some(path) = arg(&args, "--replay") {
        let text = std::fs::read_to_string(&path).expect("read replay file");
        let j: serde_json::Value = serde_json::from_str(&text).expect("replay json");
        let check = j["check"].as_str().unwrap_or("").to_lowercase();
        let violated = checks::replay(&check, &j);
        std::process::exit(if violated { 1 } else { 0 });
    }
    let check = args[1].to_lowercase();
    let tier = match arg(&args, "--tier").as_deref() {
        Some("thorough") => Tier::Thorough,
        _ => Tier::Quick,
    };
    let seed: u64 = arg(&args, "--seed").and_then(|s| s.parse().ok()).unwrap_or(1);
    let (shard, nshards) = arg(&args, "--shard")
        .and_then(|s| {
            let mut it = s.split('/');
            Some((it.next()?.parse().ok()?, it.next()?.parse().ok()?))
        })
        .unwrap_or((0u64, 1u64));
    let out = arg(&args, "--out");
    let mut ctx = Ctx::new(&check.to_uppercase(), tier, seed, shard, nshards, out);
    if !checks::run(&check, &mut ctx, &args) {
        eprintln!("unknown check {check}");
        std::process::exit(2);
    }
    ctx.finish();
}
