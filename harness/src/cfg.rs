//! Parser configurations named in the properties.
use crate::plug;
use liquid::partials::{EagerCompiler, InMemorySource, LazyCompiler, OnDemandCompiler};
use liquid::{Parser, ParserBuilder};

#[derive(Clone, Copy, PartialEq, Eq, Debug)]
pub enum Config {
    /// no tags, blocks or filters at all
    Empty,
    /// the stdlib
    Stdlib,
    /// stdlib + jekyll + shopify + extra filters (jekyll `sort` replaces the stdlib one)
    Full,
    /// `Full` with the jekyll-style `{% include name k=v %}` tag in place of the stdlib `include`
    Jekyll,
}

impl Config {
    pub fn name(self) -> &'static str {
        match self {
            Config::Empty => "empty",
            Config::Stdlib => "stdlib",
            Config::Full => "full",
            Config::Jekyll => "jekyll",
        }
    }
    pub fn from_name(s: &str) -> Config {
        match s {
            "empty" => Config::Empty,
            "full" => Config::Full,
            "jekyll" => Config::Jekyll,
            _ => Config::Stdlib,
        }
    }
}

#[derive(Clone, Copy, PartialEq, Eq, Debug)]
pub enum Policy {
    Eager,
    Lazy,
    OnDemand,
}
impl Policy {
    pub fn name(self) -> &'static str {
        match self {
            Policy::Eager => "eager",
            Policy::Lazy => "lazy",
            Policy::OnDemand => "ondemand",
        }
    }
    pub fn from_name(s: &str) -> Policy {
        match s {
            "lazy" => Policy::Lazy,
            "ondemand" => Policy::OnDemand,
            _ => Policy::Eager,
        }
    }
    pub const ALL: [Policy; 3] = [Policy::Eager, Policy::Lazy, Policy::OnDemand];
}

fn base<P: liquid::partials::PartialCompiler>(b: ParserBuilder<P>, c: Config) -> ParserBuilder<P> {
    let b = match c {
        Config::Empty => b,
        Config::Stdlib => b.stdlib(),
        Config::Jekyll => base_full(b.stdlib()).tag(liquid_lib::jekyll::IncludeTag),
        Config::Full => base_full(b.stdlib()),
    };
    // monitor plugins (harness-owned observation points; never part of generated C01 inputs)
    if c == Config::Empty {
        b
    } else {
        b.filter(plug::VDump).filter(plug::Digest).tag(plug::EnvDumpTag).tag(plug::PartialProbeTag)
    }
}

fn base_full<P: liquid::partials::PartialCompiler>(b: ParserBuilder<P>) -> ParserBuilder<P> {
    b
            .filter(liquid_lib::jekyll::Slugify)
            .filter(liquid_lib::jekyll::Push)
            .filter(liquid_lib::jekyll::Pop)
            .filter(liquid_lib::jekyll::Unshift)
            .filter(liquid_lib::jekyll::Shift)
            .filter(liquid_lib::jekyll::ArrayToSentenceString)
            .filter(liquid_lib::jekyll::Sort)
            .filter(liquid_lib::shopify::Pluralize)
            .filter(liquid_lib::extra::DateInTz)
}

pub fn parser(c: Config) -> Parser {
    base(ParserBuilder::new(), c).build().expect("building a parser without partials cannot fail")
}

pub fn source(partials: &[(String, String)]) -> InMemorySource {
    let mut src = InMemorySource::new();
    for (n, t) in partials {
        src.add(n.clone(), t.clone());
    }
    src
}

pub fn parser_with(
    c: Config,
    policy: Policy,
    partials: &[(String, String)],
) -> liquid_core::Result<Parser> {
    let src = source(partials);
    match policy {
        Policy::Eager => base(ParserBuilder::new().partials(EagerCompiler::new(src)), c).build(),
        Policy::Lazy => base(ParserBuilder::new().partials(LazyCompiler::new(src)), c).build(),
        Policy::OnDemand => {
            base(ParserBuilder::new().partials(OnDemandCompiler::new(src)), c).build()
        }
    }
}

pub fn parser_with_source<S>(c: Config, policy: Policy, src: S) -> liquid_core::Result<Parser>
where
    S: liquid::partials::PartialSource + Send + Sync + 'static,
{
    match policy {
        Policy::Eager => base(ParserBuilder::new().partials(EagerCompiler::new(src)), c).build(),
        Policy::Lazy => base(ParserBuilder::new().partials(LazyCompiler::new(src)), c).build(),
        Policy::OnDemand => {
            base(ParserBuilder::new().partials(OnDemandCompiler::new(src)), c).build()
        }
    }
}
