//! M1 panic monitor: a process-wide panic hook that records message and location in a
//! thread-local instead of printing, and `guard` = catch_unwind + retrieval.
use std::cell::RefCell;
use std::panic::{self, AssertUnwindSafe};
use std::sync::Once;

#[derive(Clone, Debug)]
pub struct Panic {
    pub msg: String,
    pub file: String,
    pub line: u32,
}

impl Panic {
    /// signature used for known-finding keys: `panic@<file basename>:<message up to first ':'>`
    /// (no line numbers, so unrelated edits do not change it)
    pub fn key(&self) -> String {
        let base = self.file.rsplit('/').next().unwrap_or("?");
        let head = self.msg.split(':').next().unwrap_or("").trim();
        let head: String = head.chars().take(60).collect();
        format!("panic@{}:{}", base, head)
    }
    pub fn site(&self) -> String {
        format!("{}:{}", self.file, self.line)
    }
}

thread_local! {
    static LAST: RefCell<Option<Panic>> = const { RefCell::new(None) };
    static DEPTH: std::cell::Cell<u32> = const { std::cell::Cell::new(0) };
}
static INIT: Once = Once::new();

pub fn install() {
    INIT.call_once(|| {
        panic::set_hook(Box::new(|info| {
            let msg = if let Some(s) = info.payload().downcast_ref::<&str>() {
                s.to_string()
            } else if let Some(s) = info.payload().downcast_ref::<String>() {
                s.clone()
            } else {
                "<non-string panic payload>".to_string()
            };
            let (file, line) = info
                .location()
                .map(|l| (l.file().to_string(), l.line()))
                .unwrap_or(("?".into(), 0));
            if DEPTH.with(|d| d.get()) == 0 {
                // not inside a monitored call: a harness bug, make it visible
                eprintln!("HARNESS PANIC at {file}:{line}: {msg}");
            }
            LAST.with(|l| *l.borrow_mut() = Some(Panic { msg, file, line }));
        }));
    });
}

pub fn guard<T>(f: impl FnOnce() -> T) -> Result<T, Panic> {
    install();
    LAST.with(|l| *l.borrow_mut() = None);
    DEPTH.with(|d| d.set(d.get() + 1));
    let r = panic::catch_unwind(AssertUnwindSafe(f));
    DEPTH.with(|d| d.set(d.get() - 1));
    match r {
        Ok(v) => Ok(v),
        Err(_) => Err(LAST.with(|l| l.borrow_mut().take()).unwrap_or(Panic {
            msg: "<panic without hook record>".into(),
            file: "?".into(),
            line: 0,
        })),
    }
}
