#!/usr/bin/env python3
"""Regenerate the generated parts of DESIGN.md:
   §10.1 (from checkers/registry.py), §13.1 table (tools/seeded_matrix.py), §13.2 list (seeded/HISTORY.md)."""
import os, re, subprocess, sys
ROOT = os.path.dirname(os.path.dirname(os.path.abspath(__file__)))
sys.path.insert(0, os.path.join(ROOT, "checkers"))
import registry

p = os.path.join(ROOT, "DESIGN.md")
s = open(p).read()

# ---- 10.1
h = "### 10.1 As-built workload and non-triviality rule per check (generated from `checkers/registry.py`)\n"
i = s.index(h) + len(h)
j = s.index("\n## 11.", i)
parts = []
for cid in sorted(registry.CHECKS):
    c = registry.CHECKS[cid]
    parts.append(f"\n**{cid} — {c['title']}** ({c['level']}). {c['rule']}\n")
s = s[:i] + "".join(parts) + s[j:]

# ---- 13.1 table
m = subprocess.run([sys.executable, os.path.join(ROOT, "tools", "seeded_matrix.py")], stdout=subprocess.PIPE, text=True).stdout.strip()
i = s.index("| change | site | confirmed")
j = s.index("\n### 13.2", i)
s = s[:i] + m + "\n" + s[j:]

# ---- 13.2 list
hist = open(os.path.join(ROOT, "seeded", "HISTORY.md")).read().strip()
i = s.index("ones the sub-agent's summary was read first")
i = s.index("\n\n", i) + 2
j = s.index("Also learnt from the seeding agents", i)
s = s[:i] + hist + "\n\n" + s[j:]
open(p, "w").write(s)
print("DESIGN.md regenerated sections 10.1, 13.1 (table), 13.2 (list)")
