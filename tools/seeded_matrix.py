#!/usr/bin/env python3
"""Print the seeded-change catch matrix (markdown) from seeded/*/meta.json."""
import glob, json, os
rows = []
for f in sorted(glob.glob('/verif/seeded/*/meta.json')):
    m = json.load(open(f))
    patch = open(os.path.join(os.path.dirname(f), 'patch.diff')).read()
    site = next((l[6:] for l in patch.splitlines() if l.startswith('+++ b/')), '?')
    c = m.get('confirmed', {})
    ok = c.get('suite_failed') == 0 and c.get('demo_exit_with_mutant') not in (0, None) and c.get('demo_exit_without') == 0
    rows.append((m['id'], site, 'yes' if ok else 'NO', ', '.join(m['caught_by']) or ('not a violation (see meta.json)' if m.get('judgement') else 'MISSED'), (m.get('first_reports') or [''])[0].replace('|', '/')[:110]))
print('| change | site | confirmed (suite 863/0, demo fails with / passes without) | caught by | first report |')
print('|---|---|---|---|---|')
for r in rows:
    print('| ' + ' | '.join(r) + ' |')
nv = sum(1 for r in rows if r[3].startswith('not a violation'))
print(f'\n{len(rows)} seeded changes kept; {nv} judged not to break its property; {sum(1 for r in rows if r[3] != "MISSED") - nv} of the other {len(rows) - nv} caught.')
