#!/usr/bin/env python3
"""Regenerate /verif/MANIFEST.json from checkers/registry.py (single source of truth)."""
import json
import os
import sys

ROOT = os.path.dirname(os.path.dirname(os.path.abspath(__file__)))
sys.path.insert(0, os.path.join(ROOT, "checkers"))
import registry  # noqa: E402

props = [json.loads(l)["id"] for l in open(os.path.join(ROOT, "properties.jsonl"))]
checks = []
for cid in props:
    if cid not in registry.CHECKS:
        continue
    s = registry.CHECKS[cid]
    checks.append({
        "property_id": cid,
        "quick_cmd": f"./check {cid} --tier quick",
        "thorough_cmd": f"./check {cid} --tier thorough",
        "evidence_file": f"/verif/evidence/{cid}.json",
        "replay_cmd_template": f"./check {cid} --replay {{path}}",
        "engine": "lqverif",
        "level_claimed": {"category": s["level"], "text": s["level_text"], "design_ref": s["design_ref"]},
        "level_note": s["level_note"],
        "technique": s["technique"],
    })
not_applicable = [{"property_id": cid, "reason": getattr(registry, "NOT_APPLICABLE", {}).get(cid, "check not built yet in this session; see DESIGN.md")}
                  for cid in props if cid not in registry.CHECKS]
manifest = {
    "version": 1,
    "setup_cmd": "./setup.sh",
    "hooks": {
        "guard": "liquid_verif_hooks",
        "enable": "no source hooks are needed: every observation point is public API (monitor plugins are registered through ParserBuilder); checks build /repo through path dependencies of /verif/harness",
        "baseline_off_cmd": "cd /repo && cargo test --workspace --no-fail-fast --offline",
        "source_commits": [],
        "add_only": True,
    },
    "engines": [
        {"name": "lqverif", "path": "harness", "serves_properties": [c["property_id"] for c in checks],
         "kind_free_text": "Rust workload driver + monitors linked against /repo's crates (path deps), sharded over worker processes by ./check; offline Python checkers over recorded event logs under checkers/"},
    ],
    "checks": checks,
    "notes": "Technique family: runtime monitoring and sanitizers. See DESIGN.md. Known findings: known_findings.json.",
    "not_applicable": not_applicable,
}
with open(os.path.join(ROOT, "MANIFEST.json"), "w") as f:
    json.dump(manifest, f, indent=1)
print(f"MANIFEST.json: {len(checks)} checks, {len(not_applicable)} not_applicable")
