#!/usr/bin/env python3
"""Development-time tool: *private pre-evaluation* of a seeded change without touching /repo.

usage: eval_scratch.py <PROP> <mN> [--checks C01,C02] [--tier quick|thorough] [--keep]

Copies the committed-or-not working state of /verif (without build output) to /tmp/ev/<PROP>-<mN>/verif,
points the harness's path dependencies at a private worktree /tmp/ev/<PROP>-<mN>/repo of /repo's HEAD with the patch applied,
seeds the copy with /verif/harness/target so the build is incremental, runs the check(s) there and
prints the verdict. The recorded evaluation (seeded/<id>/meta.json) is still made by eval_mutant.py
against /repo itself; this tool only tells early whether a check needs strengthening, and lets
several changes be evaluated at the same time.
"""
import os
import shutil
import subprocess
import sys


def sh(cmd, **kw):
    return subprocess.run(cmd, shell=True, stdout=subprocess.PIPE, stderr=subprocess.STDOUT, text=True, **kw)


def main():
    prop, m = sys.argv[1], sys.argv[2]
    checks = [prop]
    if "--checks" in sys.argv:
        checks = sys.argv[sys.argv.index("--checks") + 1].split(",")
    tier = sys.argv[sys.argv.index("--tier") + 1] if "--tier" in sys.argv else "quick"
    patch = f"/tmp/mut/{prop}/mutants/{m}/patch.diff"
    if not os.path.exists(patch):
        patch = f"/verif/seeded/{prop}-{m}/patch.diff"
    ev = f"/tmp/ev/{prop}-{m}"
    wt = f"{ev}/repo"
    sh(f"git -C /repo worktree remove --force {wt}")
    shutil.rmtree(ev, ignore_errors=True)
    os.makedirs(ev)
    sh(f"git -C /repo worktree add --detach {wt} HEAD")
    sh(f"rsync -a --exclude 'harness/target*' --exclude .git --exclude replays --exclude seeded /verif/ {ev}/verif/")
    sh(f"cp -a /verif/harness/target {ev}/verif/harness/target")
    sh(f"sed -i 's#\"/repo#\"{wt}#' {ev}/verif/harness/Cargo.toml")
    a = sh(f"git -C {wt} apply {patch}")
    if a.returncode != 0:
        print(f"{prop}-{m}: patch does not apply: {a.stdout}")
        return 2
    rc = 0
    results = []
    try:
        for c in checks:
            p = sh(f"./check {c} --tier {tier}", cwd=f"{ev}/verif")
            lines = p.stdout.splitlines()
            firsts = [l.strip()[:260] for l in lines if l.startswith("  ->")][:2]
            nviol = sum(1 for l in lines if l.startswith("VIOLATION"))
            verdict = {0: "MISSED", 1: "caught", 3: "INCONCLUSIVE"}.get(p.returncode, f"exit {p.returncode}")
            print(f"{prop}-{m} vs {c}:{tier}: {verdict} ({nviol} violation lines) {' | '.join(firsts)}")
            if p.returncode not in (0, 1):
                print("\n".join(lines[-15:]))
            rc = rc or (0 if p.returncode == 1 else 1)
            results.append({"check": c, "tier": tier, "exit": p.returncode, "firsts": firsts,
                            "summary": lines[-1] if lines else ""})
    finally:
        if "--keep" not in sys.argv:
            sh(f"git -C /repo worktree remove --force {wt}")
            shutil.rmtree(ev, ignore_errors=True)
    # a provisional meta.json (replaced by eval_mutant.py when the change is evaluated against /repo itself)
    import json
    dst = f"/verif/seeded/{prop}-{m}"
    meta_p = f"{dst}/meta.json"
    prior = json.load(open(meta_p)) if os.path.exists(meta_p) else None
    if os.path.isdir(dst) and (prior is None or prior.get("evaluated_in") == "scratch worktree"):
        confirm = json.load(open(f"{dst}/confirm.json")) if os.path.exists(f"{dst}/confirm.json") else {}
        readme = open(f"{dst}/README.md").read() if os.path.exists(f"{dst}/README.md") else ""
        meta = {
            "id": f"{prop}-{m}",
            "breaks_property": prop,
            "origin": "fresh sub-agent given only the property record and a private worktree",
            "needs_to_manifest": next((l.strip() for l in readme.splitlines() if "rigger" in l or "needs" in l.lower()), ""),
            "confirmed": confirm,
            "base_commit": sh("git -C /repo rev-parse --short HEAD").stdout.strip(),
            "evaluated_in": "scratch worktree",
            "what_was_run": [f"(private worktree of /repo HEAD with the patch applied, copy of /verif pointing at it) ./check {r['check']} --tier {r['tier']} -> exit {r['exit']} ({r['summary']})" for r in results],
            "caught_by": sorted({f"{r['check']}:{r['tier']}" for r in results if r["exit"] == 1}),
            "first_reports": [f for r in results for f in r["firsts"]][:4],
        }
        json.dump(meta, open(meta_p, "w"), indent=1, ensure_ascii=False)
    return rc


if __name__ == "__main__":
    sys.exit(main())
