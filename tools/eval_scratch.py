#!/usr/bin/env python3
"""Development-time tool: *private pre-evaluation* of a seeded change without touching /repo.

usage: eval_scratch.py <PROP> <mN> [--checks C01,C02] [--tier quick|thorough] [--keep]

Copies the committed-or-not working state of /verif (without build output) to /tmp/ev/<PROP>-<mN>/verif,
points the harness's path dependencies at a private worktree /tmp/ev/<PROP>-<mN>/repo of /repo's HEAD with the patch applied,
seeds the copy with /verif/harness/target so the build is incremental, runs the check(s) there and
prints the verdict. The recorded evaluation (seeded/<id>/meta.json) is still made by eval_mutant.py
against /repo itself; this tool only tells early whether a check needs strengthening, and lets
several changes be evaluated at the same time.
"""
import os
import shutil
import subprocess
import sys


def sh(cmd, **kw):
    return subprocess.run(cmd, shell=True, stdout=subprocess.PIPE, stderr=subprocess.STDOUT, text=True, **kw)


def main():
    prop, m = sys.argv[1], sys.argv[2]
    checks = [prop]
    if "--checks" in sys.argv:
        checks = sys.argv[sys.argv.index("--checks") + 1].split(",")
    tier = sys.argv[sys.argv.index("--tier") + 1] if "--tier" in sys.argv else "quick"
    patch = f"/tmp/mut/{prop}/mutants/{m}/patch.diff"
    if not os.path.exists(patch):
        patch = f"/verif/seeded/{prop}-{m}/patch.diff"
    ev = f"/tmp/ev/{prop}-{m}"
    wt = f"{ev}/repo"
    sh(f"git -C /repo worktree remove --force {wt}")
    shutil.rmtree(ev, ignore_errors=True)
    os.makedirs(ev)
    sh(f"git -C /repo worktree add --detach {wt} HEAD")
    sh(f"rsync -a --exclude 'harness/target*' --exclude .git --exclude replays --exclude seeded /verif/ {ev}/verif/")
    sh(f"cp -a /verif/harness/target {ev}/verif/harness/target")
    sh(f"sed -i 's#\"/repo#\"{wt}#' {ev}/verif/harness/Cargo.toml")
    a = sh(f"git -C {wt} apply {patch}")
    if a.returncode != 0:
        print(f"{prop}-{m}: patch does not apply: {a.stdout}")
        return 2
    rc = 0
    try:
        for c in checks:
            p = sh(f"./check {c} --tier {tier}", cwd=f"{ev}/verif")
            lines = p.stdout.splitlines()
            firsts = [l.strip()[:260] for l in lines if l.startswith("  ->")][:2]
            nviol = sum(1 for l in lines if l.startswith("VIOLATION"))
            verdict = {0: "MISSED", 1: "caught", 3: "INCONCLUSIVE"}.get(p.returncode, f"exit {p.returncode}")
            print(f"{prop}-{m} vs {c}:{tier}: {verdict} ({nviol} violation lines) {' | '.join(firsts)}")
            if p.returncode not in (0, 1):
                print("\n".join(lines[-15:]))
            rc = rc or (0 if p.returncode == 1 else 1)
    finally:
        if "--keep" not in sys.argv:
            sh(f"git -C /repo worktree remove --force {wt}")
            shutil.rmtree(ev, ignore_errors=True)
    return rc


if __name__ == "__main__":
    sys.exit(main())
