#!/bin/bash
# usage: process_mutants.sh <mA> <mB> -- <PROP>...   confirm, then evaluate, each listed mutant of each property
MS=(); while [ "$1" != "--" ]; do MS+=("$1"); shift; done; shift
for p in "$@"; do for m in "${MS[@]}"; do
  [ -d /tmp/mut/$p/mutants/$m ] || { echo "$p-$m: missing"; continue; }
  /verif/tools/confirm_mutant.sh $p $m > /dev/null 2>&1
  echo "$p-$m confirm: $(cat /tmp/mut/$p/mutants/$m/confirm.json)"
  /verif/tools/eval_mutant.py $p $m --thorough-if-missed 2>&1 | tail -1
done; done
