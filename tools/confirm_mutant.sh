#!/bin/bash
# usage: confirm_mutant.sh <PROP> <mN>   — confirm a seeded mutant in its scratch worktree /tmp/mut/<PROP>
# (compiles, unedited suite passes, demo fails with / passes without), then write the verdict as JSON.
P=$1; M=$2; W=/tmp/mut/$P; D=$W/mutants/$M; OUT=$D/confirm.json
cd $W || exit 2
git checkout -q -- . ; rm -f tests/seeded_demo.rs
git apply --check $D/patch.diff || { echo "{\"applies\": false}" > $OUT; exit 1; }
git apply $D/patch.diff
cargo test --workspace --no-fail-fast --offline > $D/suite_with.log 2>&1
SUITE_FAILED=$(grep 'test result' $D/suite_with.log | awk '{f+=$6} END {print f+0}')
SUITE_PASSED=$(grep 'test result' $D/suite_with.log | awk '{p+=$4} END {print p+0}')
COMPILED=$(grep -c '^error' $D/suite_with.log)
# where the demo lives: top-level tests/ by default; a README may ask for a sub-crate
DEMO=tests/seeded_demo.rs; DEMOCMD="cargo test --offline --test seeded_demo"
if grep -q 'crates/lib/tests/seeded_demo.rs' $D/README.md 2>/dev/null; then DEMO=crates/lib/tests/seeded_demo.rs; DEMOCMD="cargo test --offline -p liquid-lib --all-features --test seeded_demo"; fi
if grep -q 'crates/core/tests/seeded_demo.rs' $D/README.md 2>/dev/null; then DEMO=crates/core/tests/seeded_demo.rs; DEMOCMD="cargo test --offline -p liquid-core --test seeded_demo"; fi
mkdir -p $(dirname $DEMO); cp $D/demo.rs $DEMO
$DEMOCMD > $D/demo_with.log 2>&1; DEMO_WITH=$?
git checkout -q -- crates src 2>/dev/null; git checkout -q -- . ; mkdir -p $(dirname $DEMO); cp $D/demo.rs $DEMO
$DEMOCMD > $D/demo_without.log 2>&1; DEMO_WITHOUT=$?
rm -f $DEMO; rmdir crates/lib/tests crates/core/tests 2>/dev/null; git checkout -q -- .
echo "{\"applies\": true, \"compile_errors\": $COMPILED, \"suite_passed\": $SUITE_PASSED, \"suite_failed\": $SUITE_FAILED, \"demo_exit_with_mutant\": $DEMO_WITH, \"demo_exit_without\": $DEMO_WITHOUT}" > $OUT
cat $OUT
