#!/usr/bin/env python3
"""Development-time tool: re-run every kept seeded change against the *current* checks.

For each /verif/seeded/<id>/ (except those judged not to break their property) apply patch.diff to
/repo, run the owning check at the tier recorded in meta.json's caught_by (quick unless only the
thorough tier caught it), revert /repo, and write seeded/<id>/recheck.json.  /repo must be clean and
nothing else may use it meanwhile.  Usage: recheck_all.py [ID-prefix ...]
"""
import glob, json, os, subprocess, sys, time

ROOT = "/verif"
sel = sys.argv[1:]
st = subprocess.run(["git", "-C", "/repo", "status", "--porcelain"], stdout=subprocess.PIPE, text=True).stdout.strip()
if st:
    sys.exit("refusing: /repo is not clean")
head = subprocess.run(["git", "-C", ROOT, "rev-parse", "--short", "HEAD"], stdout=subprocess.PIPE, text=True).stdout.strip()
bad = []
for d in sorted(glob.glob(f"{ROOT}/seeded/*-m*")):
    mid = os.path.basename(d)
    if sel and not any(mid.startswith(s) for s in sel):
        continue
    meta = json.load(open(f"{d}/meta.json"))
    if meta.get("judgement"):
        continue
    prop = meta["breaks_property"]
    tier = "quick" if any(c.endswith(":quick") for c in meta["caught_by"]) or not meta["caught_by"] else "thorough"
    ap = subprocess.run(["git", "-C", "/repo", "apply", f"{d}/patch.diff"], stdout=subprocess.PIPE, stderr=subprocess.STDOUT, text=True)
    if ap.returncode != 0:
        print(mid, "patch does not apply:", ap.stdout.strip()); bad.append(mid); continue
    t0 = time.time()
    try:
        p = subprocess.run(["./check", prop, "--tier", tier], cwd=ROOT, stdout=subprocess.PIPE, stderr=subprocess.STDOUT, text=True)
    finally:
        subprocess.run(["git", "-C", "/repo", "checkout", "--", "."])
    lines = p.stdout.splitlines()
    rec = {"id": mid, "check": prop, "tier": tier, "exit": p.returncode, "verif_commit": head,
           "violation_lines": sum(1 for l in lines if l.startswith("VIOLATION")),
           "first_report": next((l.strip()[:300] for l in lines if l.startswith("  ->")), ""),
           "summary": lines[-1] if lines else "", "wall_s": round(time.time() - t0, 1)}
    json.dump(rec, open(f"{d}/recheck.json", "w"), indent=1, ensure_ascii=False)
    print(mid, tier, "exit", p.returncode, rec["summary"][-80:], flush=True)
    if p.returncode != 1:
        bad.append(mid)
print("NOT CAUGHT ON RECHECK:", bad)
