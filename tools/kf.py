#!/usr/bin/env python3
"""Append an entry to known_findings.json (development-time helper; checks never write this file).
usage: kf.py fixed|known <property> <key> <commit-or-'-'> <what>"""
import json, sys
status, prop, key, commit, what = sys.argv[1:6]
p = '/verif/known_findings.json'
d = json.load(open(p))
e = {"property": prop, "key": key, "status": status, "what": what}
if status == 'fixed':
    e["commit"] = commit
    e["line"] = f"fixed: property={prop} {commit} {what}"
d["findings"].append(e)
json.dump(d, open(p, 'w'), indent=1, ensure_ascii=False)
print(e)
