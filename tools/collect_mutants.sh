#!/bin/bash
# copy every finished sub-agent mutant from /tmp/mut/<P>/mutants/<m>/ into /verif/seeded/<P>-<m>/ at once
# (before confirmation/evaluation: /tmp does not survive a restore) and commit
for d in /tmp/mut/C*/mutants/m*; do
  [ -f $d/patch.diff ] || continue
  P=$(basename $(dirname $(dirname $d))); M=$(basename $d); T=/verif/seeded/$P-$M
  mkdir -p $T
  for f in patch.diff demo.rs README.md confirm.json; do [ -f $d/$f ] && cp $d/$f $T/$f; done
done
cd /verif && git add seeded && git commit -qm "seeded: collect sub-agent changes (round 5 redo) as they arrive" && echo committed || true
