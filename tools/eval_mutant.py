#!/usr/bin/env python3
"""Development-time tool: evaluate a confirmed seeded change against the checks.

usage: eval_mutant.py <PROP> <mN> [--checks C01,C02] [--thorough-if-missed]

Copies /tmp/mut/<PROP>/mutants/<mN>/{patch.diff,demo.rs,README.md,confirm.json} to
/verif/seeded/<PROP>-<mN>/, applies the patch to /repo (never committed there), runs the
owning check's quick command (and optionally more checks / the thorough tier when quick misses),
reverts /repo, and writes meta.json with what was observed.
"""
import json
import os
import shutil
import subprocess
import sys
import time

ROOT = "/verif"


def run_check(cid, tier):
    t0 = time.time()
    p = subprocess.run(["./check", cid, "--tier", tier], cwd=ROOT, stdout=subprocess.PIPE, stderr=subprocess.STDOUT, text=True)
    out = p.stdout
    viol = [l for l in out.splitlines() if l.startswith("VIOLATION")]
    keys = sorted({l.split("->", 1)[1].split(":", 1)[0].strip() if "->" in l else "" for l in out.splitlines() if l.startswith("  ->")})
    firsts = [l.strip()[:300] for l in out.splitlines() if l.startswith("  ->")][:3]
    return {"check": cid, "tier": tier, "exit": p.returncode, "violation_lines": len(viol), "first_reports": firsts,
            "wall_s": round(time.time() - t0, 1), "summary": out.strip().splitlines()[-1] if out.strip() else ""}


def main():
    prop, m = sys.argv[1], sys.argv[2]
    checks = [prop]
    if "--checks" in sys.argv:
        checks = sys.argv[sys.argv.index("--checks") + 1].split(",")
    src = f"/tmp/mut/{prop}/mutants/{m}"
    dst = f"{ROOT}/seeded/{prop}-{m}"
    os.makedirs(dst, exist_ok=True)
    for f in ("patch.diff", "demo.rs", "README.md", "confirm.json"):
        if os.path.exists(f"{src}/{f}"):
            shutil.copy(f"{src}/{f}", f"{dst}/{f}")
    confirm = json.load(open(f"{dst}/confirm.json")) if os.path.exists(f"{dst}/confirm.json") else {}
    # /repo must be clean
    st = subprocess.run(["git", "-C", "/repo", "status", "--porcelain"], stdout=subprocess.PIPE, text=True).stdout.strip()
    if st:
        print("refusing: /repo is not clean:\n" + st)
        return 2
    ap = subprocess.run(["git", "-C", "/repo", "apply", f"{dst}/patch.diff"], stdout=subprocess.PIPE, stderr=subprocess.STDOUT, text=True)
    if ap.returncode != 0:
        print("patch does not apply to /repo HEAD:", ap.stdout)
        return 2
    results = []
    try:
        for c in checks:
            r = run_check(c, "quick")
            results.append(r)
            print(json.dumps(r))
            if r["exit"] != 1 and "--thorough-if-missed" in sys.argv:
                r = run_check(c, "thorough")
                results.append(r)
                print(json.dumps(r))
    finally:
        subprocess.run(["git", "-C", "/repo", "checkout", "--", "."])
    caught_by = sorted({f"{r['check']}:{r['tier']}" for r in results if r["exit"] == 1})
    readme = open(f"{dst}/README.md").read() if os.path.exists(f"{dst}/README.md") else ""
    meta = {
        "id": f"{prop}-{m}",
        "breaks_property": prop,
        "origin": "fresh sub-agent given only the property record and a private worktree",
        "needs_to_manifest": next((l.strip() for l in readme.splitlines() if "rigger" in l or "needs" in l.lower()), ""),
        "confirmed": confirm,
        "base_commit": subprocess.run(["git", "-C", "/repo", "rev-parse", "--short", "HEAD"], stdout=subprocess.PIPE, text=True).stdout.strip(),
        "what_was_run": [f"./check {r['check']} --tier {r['tier']} -> exit {r['exit']} ({r['summary']})" for r in results],
        "caught_by": caught_by,
        "first_reports": [fr for r in results for fr in r["first_reports"]][:4],
    }
    json.dump(meta, open(f"{dst}/meta.json", "w"), indent=1, ensure_ascii=False)
    print("caught_by:", caught_by)
    return 0


if __name__ == "__main__":
    sys.exit(main())
