#!/usr/bin/env python3
"""Validate MANIFEST.json and every evidence file against the given schemas (needs jsonschema: run with python3-vt)."""
import glob
import json
import sys

import jsonschema

ok = True
try:
    jsonschema.validate(json.load(open('/verif/MANIFEST.json')), json.load(open('/root/.vp/MANIFEST.schema.json')))
    print('MANIFEST ok')
except Exception as e:
    ok = False
    print('MANIFEST INVALID', e)
es = json.load(open('/root/.vp/EVIDENCE.schema.json'))
for f in sorted(glob.glob('/verif/evidence/*.json')):
    try:
        jsonschema.validate(json.load(open(f)), es)
        print(f, 'ok')
    except Exception as e:
        ok = False
        print(f, 'INVALID', str(e)[:300])
sys.exit(0 if ok else 1)
