#!/bin/bash
# usage: pipeline_scratch.sh <PROP>...   (after the sub-agent of <PROP> has finished)
# confirm m9 and m10 in the agent's worktree, collect into /verif/seeded, then privately pre-evaluate in a scratch copy
for P in "$@"; do for M in ${MS:-m9 m10}; do
  [ -f /tmp/mut/$P/mutants/$M/patch.diff ] || { echo "$P-$M: missing"; continue; }
  /verif/tools/confirm_mutant.sh $P $M > /dev/null 2>&1
  echo "$P-$M confirm: $(cat /tmp/mut/$P/mutants/$M/confirm.json)"
  mkdir -p /verif/seeded/$P-$M; cp /tmp/mut/$P/mutants/$M/{patch.diff,demo.rs,README.md,confirm.json} /verif/seeded/$P-$M/ 2>/dev/null
  /verif/tools/eval_scratch.py $P $M 2>&1 | tail -3
done; done
