#!/bin/sh
# Build the harness (checked profile) offline from files on disk; /repo is a path dependency.
set -e
cd "$(dirname "$0")/harness"
[ -f Cargo.lock ] || cp /repo/Cargo.lock Cargo.lock
export CARGO_NET_OFFLINE=true
cargo build --profile checked --bin lqverif
