"""C17 offline checker: dates (strftime through the `date` filter, print/parse round trips, ordering).

Input: the events recorded by `lqverif c17` (schema in harness/src/checks/c17.rs):
  {"ev":"fmt","ts":{y,mo,d,h,mi,s,ns,off_s},"via","x","fmt","res":{"k","v"}}
  {"ev":"rt","ts":{...},"rt":{x,syntax,printed,reparsed,same_instant,same_offset,ns0,ns1,off0,off1}}
  {"ev":"cmp","cmp":{a,b,via,eq,lt,gt,le,ge,ne}}
All judging happens here.  Calendar facts come from Python's `datetime.date` (ordinal, weekday, ISO
calendar; valid for years 1..9999 and never converted between offsets, so nothing can overflow) plus
integer arithmetic written here (%U, %W, %j, %s); the two are cross-checked against each other and
against date.strftime at import time.

The strftime oracle is EXACT only where the documented (Ruby strftime, as narrowed by the comments and
tests in crates/core/src/model/scalar/datetime/strftime.rs) meaning is unambiguous:
  * every directive without flags: %Y %C %y %m %B %b %h %d %e %j %H %k %I %l %P %p %M %S %L %N %z %:z
    %::z %A %a %u %w %G %g %V %U %W %s %n %t %% and the composites %c %D %F %v %x %X %r %R %T;
    %Z prints +hh:mm (the documented deviation of this implementation);
  * `-` (no padding; sticks), `_` / `0` (padding character; the last one wins) and a width on numeric
    directives; `^` / `#` (upper case; for %p/%P the inverted-case rules written in strftime.rs),
    `-`, `_` and a width (space padding) on alphabetic directives;
  * %L / %N: the width is the number of digits = the LEADING digits of the 9-digit fraction, widths
    above 9 append zeros; flags are ignored there (documented in strftime.rs);
  * E / O modifiers on the conversions Ruby defines them for are ignored;
  * an unknown conversion character (ASCII or not) is echoed with its flags/width text unchanged;
  * '%' followed only by flags / width / a modifier up to the end of the format, or a width that does
    not fit in usize, is an error (the three DateFormatError cases).
Everything else (flags or width on composites, on %z/%Z, on the literals %% %n %t; `^`/`#` on numeric
directives; `0` + width on alphabetic ones; a negative %s with flags; %+; ':' not followed by z;
E/O before other conversions) is counted as `totality-only`: only "no panic" is asserted.
"""
import datetime
import re

_date = datetime.date
MAX_PER_KEY = 5
SAMPLE_AT = frozenset([0, 1, 40000, 60000, 85000, 95000, 98000, 500000, 1500000])
USIZE_MAX = (1 << 64) - 1

MONTHS = ["January", "February", "March", "April", "May", "June", "July", "August", "September", "October",
          "November", "December"]
WEEKDAYS = ["Sunday", "Monday", "Tuesday", "Wednesday", "Thursday", "Friday", "Saturday"]

# numeric directives: default width, default padding character
NUM = {"Y": (4, "0"), "C": (2, "0"), "y": (2, "0"), "m": (2, "0"), "d": (2, "0"), "e": (2, " "), "j": (3, "0"),
       "H": (2, "0"), "k": (2, " "), "I": (2, "0"), "l": (2, " "), "M": (2, "0"), "S": (2, "0"), "u": (1, "0"),
       "w": (1, "0"), "G": (4, "0"), "g": (2, "0"), "V": (2, "0"), "U": (2, "0"), "W": (2, "0"), "s": (1, "0")}
ALPHA = frozenset("AaBbhPp")
COMPOSITE = frozenset("cDFvxXrRT")
LITERAL = {"%": "%", "n": "\n", "t": "\t"}
E_OK = frozenset("cCxXyY")
O_OK = frozenset("deHkIlmMSuUVwWy")
SPEC_RE = re.compile(r"%([-_0^#]*)([0-9]*)")


# ---------------------------------------------------------------------------- calendar
def days_from_civil(y, m, d):
    """own proleptic-Gregorian day number (1970-01-01 = 0), cross-checked against datetime below"""
    if m <= 2:
        y -= 1
    era = y // 400
    yoe = y - era * 400
    mp = (m + 9) % 12
    doy = (153 * mp + 2) // 5 + d - 1
    doe = yoe * 365 + yoe // 4 - yoe // 100 + doy
    return era * 146097 + doe - 719468


_DER = {}


def derive(ts):
    """all calendar values of a timestamp (local fields + offset)"""
    key = (ts["y"], ts["mo"], ts["d"], ts["h"], ts["mi"], ts["s"], ts["ns"], ts["off_s"])
    v = _DER.get(key)
    if v is not None:
        return v
    y, mo, d, h, mi, s, ns, off = key
    dt = _date(y, mo, d)
    ordinal = dt.toordinal()
    wmon = dt.weekday()            # Monday = 0
    wsun = (wmon + 1) % 7          # Sunday = 0
    yday = ordinal - _date(y, 1, 1).toordinal() + 1
    iy, iw, _ = dt.isocalendar()
    unix = (ordinal - 719163) * 86400 + h * 3600 + mi * 60 + s - off
    h12 = h % 12 or 12
    v = {
        "Y": y, "C": y // 100, "y": y % 100, "m": mo, "d": d, "e": d, "j": yday, "H": h, "k": h, "I": h12, "l": h12,
        "M": mi, "S": s, "u": wmon + 1, "w": wsun, "G": iy, "g": iy % 100, "V": iw,
        "U": (yday + 6 - wsun) // 7, "W": (yday + 6 - wmon) // 7, "s": unix,
        "B": MONTHS[mo - 1], "b": MONTHS[mo - 1][:3], "h": MONTHS[mo - 1][:3],
        "A": WEEKDAYS[wsun], "a": WEEKDAYS[wsun][:3], "pm": h >= 12,
        "frac": "%09d" % ns, "off": off, "ns": ns,
    }
    if len(_DER) > 200000:
        _DER.clear()
    _DER[key] = v
    return v


def _selftest():
    # the integer arithmetic written here agrees with Python's datetime on a spread of dates
    for y in (1, 4, 100, 400, 1000, 1582, 1900, 1969, 1970, 1999, 2000, 2020, 2021, 2024, 2026, 2038, 2100, 9999):
        for mo in (1, 2, 3, 6, 12):
            for d in (1, 2, 7, 15, 25, 28, 31):
                try:
                    dt = _date(y, mo, d)
                except ValueError:
                    continue
                assert days_from_civil(y, mo, d) == dt.toordinal() - 719163
                v = derive({"y": y, "mo": mo, "d": d, "h": 0, "mi": 0, "s": 0, "ns": 0, "off_s": 0})
                if y >= 1900:
                    assert dt.strftime("%U %W %j %w") == "%02d %02d %03d %d" % (v["U"], v["W"], v["j"], v["w"]), (y, mo, d)
                    assert dt.strftime("%A %B") == "%s %s" % (v["A"], v["B"])
    _DER.clear()


_selftest()


# ---------------------------------------------------------------------------- format compiler
class Seg(object):
    __slots__ = ("kind", "name", "label", "text", "nopad", "pad", "width", "case", "flagged", "plain")

    def __init__(self, kind, name, label, text=None):
        self.kind = kind
        self.name = name
        self.label = label      # e.g. "%L" (for violation keys)
        self.text = text        # the exact spec text (for echo) / literal text
        self.nopad = False
        self.pad = None
        self.width = None
        self.case = None
        self.flagged = False    # carries flags or a width
        self.plain = True


def compile_fmt(fmt):
    """-> ("ok", [Seg]) | ("err", why) | ("tot", why)"""
    segs = []
    tot = None
    i = 0
    n = len(fmt)
    lit_start = 0
    while True:
        j = fmt.find("%", i)
        if j < 0:
            break
        m = SPEC_RE.match(fmt, j)
        flags, width = m.group(1), m.group(2)
        p = m.end()
        if p >= n:
            return ("err", "nothing after '%' and its flags/width")
        if width and int(width) > USIZE_MAX:
            return ("err", "width does not fit in usize")
        c = fmt[p]
        mod = None
        if c == "E" or c == "O":
            if p + 1 >= n:
                return ("err", "nothing after the E/O modifier")
            mod = c
            p += 1
            c = fmt[p]
        colons = 0
        if c == ":":
            q = p
            while q < n and fmt[q] == ":":
                q += 1
            if q < n and fmt[q] == "z" and q - p <= 2 and mod is None:
                colons = q - p
                p = q
                c = "z"
            else:
                # ':' not followed by z: how much is echoed is not documented
                return ("tot", "':' not followed by z")
        end = p + 1
        if j > lit_start:
            segs.append(Seg("lit", None, "literal", fmt[lit_start:j]))
        spec = fmt[j:end]
        lit_start = end
        i = end
        label = "%" + ":" * colons + c
        if mod is not None:
            ok = (c in E_OK) if mod == "E" else (c in O_OK)
            if not ok:
                tot = tot or "E/O modifier before a conversion Ruby does not define it for"
                continue
        has_fw = bool(flags or width)
        if c in NUM:
            if "^" in flags or "#" in flags:
                tot = tot or "case flag on a numeric directive"
                continue
            sg = Seg("num", c, label, spec)
            sg.nopad = "-" in flags
            dw, dp = NUM[c]
            sg.pad = dp
            for f in flags:
                if f == "_":
                    sg.pad = " "
                elif f == "0":
                    sg.pad = "0"
            sg.width = int(width) if width else dw
            sg.flagged = has_fw
            segs.append(sg)
        elif c in ALPHA:
            zero = False
            case = None
            for f in flags:
                if f == "_":
                    zero = False
                elif f == "0":
                    zero = True
                elif f == "^":
                    case = "U"
                elif f == "#":
                    case = "C"
            if zero and width:
                tot = tot or "zero padding of an alphabetic directive"
                continue
            sg = Seg("alpha", c, label, spec)
            sg.nopad = "-" in flags
            sg.width = int(width) if width else None
            sg.case = case
            sg.flagged = has_fw
            segs.append(sg)
        elif c == "L" or c == "N":
            sg = Seg("frac", c, label, spec)
            sg.width = int(width) if width else (3 if c == "L" else 9)
            sg.flagged = has_fw
            segs.append(sg)
        elif c == "z" or c == "Z":
            if has_fw:
                tot = tot or "flags/width on %z"
                continue
            sg = Seg("z", c, label, spec)
            sg.width = 1 if c == "Z" else colons
            segs.append(sg)
        elif c in COMPOSITE:
            if has_fw:
                tot = tot or "flags/width on a composite directive"
                continue
            segs.append(Seg("comp", c, label, spec))
        elif c in LITERAL:
            if width:
                tot = tot or "width on a literal directive"
                continue
            segs.append(Seg("lit", None, label, LITERAL[c]))
        elif c == "+":
            tot = tot or "%+ is not documented by strftime.rs"
            continue
        else:
            segs.append(Seg("echo", c, "unknown-directive", spec))
    if lit_start < n:
        segs.append(Seg("lit", None, "literal", fmt[lit_start:]))
    if tot:
        return ("tot", tot)
    labels = {}
    for sg in segs:
        if sg.kind != "lit" or sg.label != "literal":
            lb = sg.label + ("+flags/width" if sg.flagged else "")
            labels[lb] = labels.get(lb, 0) + 1
    return ("ok", segs, tuple(labels.items()))


def zone(v, colons):
    off = v["off"]
    a = -off if off < 0 else off
    sign = "-" if off < 0 else "+"
    hh, mm, ss = a // 3600, a // 60 % 60, a % 60
    if colons == 0:
        return "%s%02d%02d" % (sign, hh, mm)
    if colons == 1:
        return "%s%02d:%02d" % (sign, hh, mm)
    return "%s%02d:%02d:%02d" % (sign, hh, mm, ss)


def render_seg(sg, v):
    """expected text of one segment; None = outside the exact sub-domain for this timestamp"""
    k = sg.kind
    if k == "lit" or k == "echo":
        return sg.text
    if k == "num":
        val = v[sg.name]
        if val < 0:
            if sg.flagged:
                return None
            return str(val)
        s = str(val)
        if sg.nopad:
            return s
        return s.rjust(sg.width, sg.pad)
    if k == "alpha":
        nm = sg.name
        if nm == "p":
            # upper case by default; '#' changes the case
            s = ("pm" if v["pm"] else "am") if sg.case == "C" else ("PM" if v["pm"] else "AM")
        elif nm == "P":
            # lower case by default; '^' and '#' both give upper case
            s = ("PM" if v["pm"] else "AM") if sg.case else ("pm" if v["pm"] else "am")
        else:
            s = v[nm]
            if sg.case:
                s = s.upper()
        if sg.width and not sg.nopad:
            s = s.rjust(sg.width, " ")
        return s
    if k == "frac":
        w = sg.width
        f = v["frac"]
        return f[:w] if w <= 9 else f + "0" * (w - 9)
    if k == "z":
        return zone(v, sg.width)
    # composites
    nm = sg.name
    if nm == "c":
        return "%s %s %2d %02d:%02d:%02d %04d" % (v["a"], v["b"], v["d"], v["H"], v["M"], v["S"], v["Y"])
    if nm == "D" or nm == "x":
        return "%02d/%02d/%02d" % (v["m"], v["d"], v["y"])
    if nm == "F":
        return "%04d-%02d-%02d" % (v["Y"], v["m"], v["d"])
    if nm == "v":
        return "%2d-%s-%04d" % (v["d"], v["b"].upper(), v["Y"])
    if nm == "T" or nm == "X":
        return "%02d:%02d:%02d" % (v["H"], v["M"], v["S"])
    if nm == "R":
        return "%02d:%02d" % (v["H"], v["M"])
    if nm == "r":
        return "%02d:%02d:%02d %s" % (v["I"], v["M"], v["S"], "PM" if v["pm"] else "AM")
    return None


# ---------------------------------------------------------------------------- text -> instant
DEFAULT_RE = re.compile(r"(\d{4})-(\d\d)-(\d\d) (\d\d):(\d\d):(\d\d)(?:\.(\d{1,9}))?(?: ([+-])(\d\d)(\d\d))?\Z")


def parse_default(text):
    """-> (instant in ns since the epoch, offset seconds) of a text in the default form, or None"""
    m = DEFAULT_RE.match(text)
    if not m:
        return None
    y, mo, d, h, mi, s = (int(m.group(i)) for i in range(1, 7))
    frac = m.group(7)
    ns = int(frac.ljust(9, "0")) if frac else 0
    off = 0
    if m.group(8):
        off = int(m.group(9)) * 3600 + int(m.group(10)) * 60
        if m.group(8) == "-":
            off = -off
    try:
        days = days_from_civil(y, mo, d)
        _date(y, mo, d)
    except ValueError:
        return None
    return ((days * 86400 + h * 3600 + mi * 60 + s - off) * 1000000000 + ns, off)


def ts_instant(ts):
    days = days_from_civil(ts["y"], ts["mo"], ts["d"])
    return ((days * 86400 + ts["h"] * 3600 + ts["mi"] * 60 + ts["s"] - ts["off_s"]) * 1000000000 + ts["ns"], ts["off_s"])


# ---------------------------------------------------------------------------- checker
class Checker(object):
    def __init__(self):
        self.n = 0
        self.violations = []
        self.vcounts = {}
        self.counters = {}
        self.samples = []
        self.cache = {}
        self.kinds_sampled = set()
        self.dirs = {}

    def count(self, name, k=1):
        c = self.counters
        c[name] = c.get(name, 0) + k

    def violate(self, key, what, replay):
        n = self.vcounts.get(key, 0) + 1
        self.vcounts[key] = n
        if n <= MAX_PER_KEY:
            self.violations.append({"key": key, "what": what, "replay": replay})

    def one(self, ev):
        idx = self.n
        self.n += 1
        k = ev.get("ev")
        if (idx in SAMPLE_AT or k not in self.kinds_sampled) and len(self.samples) < 10:
            self.kinds_sampled.add(k)
            self.samples.append(ev)
        if k == "fmt":
            self.fmt(ev)
        elif k == "rt":
            self.rt(ev)
        elif k == "cmp":
            self.cmp(ev)
        else:
            self.count("unknown-event")

    # ------------------------------------------------------------------ strftime
    def fmt(self, ev):
        fmt = ev["fmt"]
        res = ev["res"]
        rk = res["k"]
        self.count("fmt:events")

        def replay():
            return {"kind": "fmt", "ts": ev["ts"], "via": ev["via"], "x": ev["x"], "fmt": fmt}

        if rk == "panic":
            self.violate("strftime:panic", "date filter panicked on format %r at %r: %s at %s (%s)" % (
                fmt, ev["x"], res.get("v"), res.get("site"), (res.get("msg") or "")[:100]), replay())
            return
        if rk == "unparsed":
            self.violate("parse:rejected-valid-input", "DateTime::from_str rejected %r" % ev["x"], replay())
            return
        if rk == "other":
            self.violate("strftime:non-utf8-output", "format %r at %r: %s" % (fmt, ev["x"], res.get("v")), replay())
            return
        if fmt == "":
            self.count("fmt:empty-format(totality-only)")
            return
        comp = self.cache.get(fmt)
        if comp is None:
            comp = compile_fmt(fmt)
            if len(self.cache) > 100000:
                self.cache.clear()
            self.cache[fmt] = comp
        tag = comp[0]
        if tag == "tot":
            self.count("fmt:totality-only")
            self.count("fmt:totality-only:" + comp[1])
            return
        if tag == "err":
            if rk == "err":
                self.count("fmt:malformed->err")
            else:
                self.violate("strftime:malformed-format-accepted",
                             "format %r is malformed (%s): expected an error, observed %r" % (fmt, comp[1], res.get("v")), replay())
            return
        segs = comp[1]
        v = derive(ev["ts"])
        parts = []
        for sg in segs:
            t = render_seg(sg, v)
            if t is None:
                self.count("fmt:totality-only")
                self.count("fmt:totality-only:negative %s with flags")
                return
            parts.append(t)
        if rk == "err":
            self.violate("strftime:error-on-valid-format",
                         "format %r at %r: expected %r, observed the error %r" % (fmt, ev["x"], "".join(parts), res.get("v")), replay())
            return
        out = res["v"]
        exp = "".join(parts)
        if out == exp:
            c = self.counters
            c["fmt:exact-ok"] = c.get("fmt:exact-ok", 0) + 1
            d = self.dirs
            for lb, k in comp[2]:
                d[lb] = d.get(lb, 0) + k
            return
        if ev["via"] == "string" and out == ev["x"]:
            self.violate("parse:string-not-recognised-by-date-filter",
                         "the date filter echoed the string input %r instead of formatting it (from_str failed?)" % ev["x"], replay())
            return
        # attribute to the first diverging segment; a fraction directive has a fixed length, so the
        # scan continues behind it (one defect must not hide another one later in the same format)
        pos = 0
        found = []
        for sg, t in zip(segs, parts):
            if out.startswith(t, pos):
                pos += len(t)
                continue
            found.append((sg, t, pos))
            if sg.kind == "frac":
                pos += len(t)
                continue
            break
        else:
            if pos != len(out) and not found:
                self.violate("strftime:trailing-output", "format %r at %r: output %r continues after the expected %r" % (
                    fmt, ev["x"], out[:120], exp[:120]), replay())
                return
        seen = set()
        for culprit, cexp, at in found:
            got = out[at:at + max(len(cexp), 1) + 8]
            detail = "at %s (spec %r) expected %r, observed %r…" % (culprit.label, culprit.text, cexp, got)
            if culprit.kind == "frac":
                lead = v["frac"][:min(culprit.width, 9)]
                if lead.startswith("0") and v["ns"] != 0:
                    key = "strftime:%s-leading-zeros" % culprit.label
                else:
                    key = "strftime:%s" % culprit.label
            elif culprit.kind == "echo":
                key = "strftime:unknown-directive-not-echoed"
            elif culprit.kind == "lit":
                key = "strftime:literal"
            elif culprit.flagged:
                # right value, wrong padding / case?
                plain = Seg(culprit.kind, culprit.name, culprit.label, culprit.text)
                if culprit.kind == "num":
                    plain.nopad = True
                core = render_seg(plain, v)
                window = out[at:at + max(len(cexp), len(core or "")) + 2]
                if core and core.lower() in window.lower():
                    key = "strftime:width-padding" if culprit.kind == "num" or culprit.case is None else "strftime:case-flag"
                else:
                    key = "strftime:%s" % culprit.label
            else:
                key = "strftime:%s" % culprit.label
            if key in seen:
                continue
            seen.add(key)
            self.violate(key, "format %r at %r (%s): %s; whole output %r, expected %r" % (
                fmt, ev["x"], ev["via"], detail, out[:120], exp[:120]), replay())

    # ------------------------------------------------------------------ round trip
    def rt(self, ev):
        rt = ev["rt"]
        ts = ev["ts"]
        self.count("rt:events")
        self.count("rt:syntax:" + str(rt.get("syntax")))
        replay = {"kind": "rt", "ts": ts, "x": rt["x"], "syntax": rt.get("syntax")}
        if "panic" in rt:
            self.violate("roundtrip:panic", "print/parse of %r panicked: %s at %s (%s)" % (
                rt["x"], rt["panic"], rt.get("site"), (rt.get("msg") or "")[:100]), replay)
            return
        printed = rt.get("printed")
        if printed is None:
            self.violate("parse:rejected-valid-input",
                         "DateTime::from_str rejected %r (syntax %s)" % (rt["x"], rt.get("syntax")), replay)
            return
        want_ns, want_off = ts_instant(ts)
        ok = True
        # the parser understood the input as the instant / offset it denotes
        if str(want_ns) != rt.get("ns0") or want_off != rt.get("off0"):
            ok = False
            self.violate("parse:wrong-instant",
                         "%r (syntax %s) denotes instant %d ns, offset %d s; parsed as %s ns, offset %s s" % (
                             rt["x"], rt.get("syntax"), want_ns, want_off, rt.get("ns0"), rt.get("off0")), replay)
        # the default printed form denotes that same instant and offset (read independently here)
        pp = parse_default(printed)
        if pp is None:
            ok = False
            self.violate("roundtrip:printed-form-malformed",
                         "%r printed as %r, which is not `YYYY-MM-DD HH:MM:SS[.f] +HHMM`" % (rt["x"], printed), replay)
        elif pp != (want_ns, want_off):
            ok = False
            self.violate("roundtrip:printed-denotes-other-instant",
                         "%r printed as %r = instant %d ns, offset %d s; expected %d ns, %d s" % (
                             rt["x"], printed, pp[0], pp[1], want_ns, want_off), replay)
        if rt.get("reparsed") is None:
            self.violate("roundtrip:printed-form-not-parseable",
                         "%r printed as %r, which DateTime::from_str rejects" % (rt["x"], printed), replay)
            return
        same_ns = rt.get("ns0") == rt.get("ns1")
        if not same_ns:
            ok = False
            self.violate("roundtrip:instant-changed",
                         "%r -> printed %r -> reparsed %r: instant %s ns became %s ns" % (
                             rt["x"], printed, rt["reparsed"], rt.get("ns0"), rt.get("ns1")), replay)
        if rt.get("off0") != rt.get("off1") or not rt.get("same_offset"):
            ok = False
            self.violate("roundtrip:offset-changed",
                         "%r -> printed %r -> reparsed %r: offset %s s became %s s" % (
                             rt["x"], printed, rt["reparsed"], rt.get("off0"), rt.get("off1")), replay)
        if bool(rt.get("same_instant")) != same_ns:
            ok = False
            self.violate("compare:not-chronological",
                         "== between %r and its reparsed print says %s but the instants are %s / %s" % (
                             rt["x"], rt.get("same_instant"), rt.get("ns0"), rt.get("ns1")), replay)
        if ok:
            self.count("rt:ok")
            if ts["ns"]:
                self.count("rt:ok-with-fraction")

    # ------------------------------------------------------------------ ordering
    def cmp(self, ev):
        c = ev["cmp"]
        self.count("cmp:events")
        replay = {"kind": "cmp", "a": c["a"], "b": c["b"], "via": c.get("via")}
        res = c.get("res")
        if res is not None:
            key = "compare:panic" if res.get("k") == "panic" else "compare:error"
            self.violate(key, "comparing %r with %r (%s): %s %s" % (c["a"], c["b"], c.get("via"), res.get("k"), res.get("v")), replay)
            return
        if c.get("unparsed"):
            self.violate("parse:rejected-valid-input", "DateTime::from_str rejected %r or %r" % (c["a"], c["b"]), replay)
            return
        pa = parse_default(c["a"])
        pb = parse_default(c["b"])
        if pa is None or pb is None:
            self.count("cmp:harness-text-not-understood")
            return
        a, b = pa[0], pb[0]
        want = {"eq": a == b, "lt": a < b, "gt": a > b, "le": a <= b, "ge": a >= b, "ne": a != b}
        bad = [k for k in ("eq", "lt", "gt", "le", "ge", "ne") if bool(c.get(k)) != want[k]]
        if bad:
            self.violate("compare:not-chronological",
                         "%r vs %r via %s: instants %d / %d ns, so %s expected, observed %s" % (
                             c["a"], c["b"], c.get("via"), a, b,
                             {k: want[k] for k in bad}, {k: c.get(k) for k in bad}), replay)
            return
        self.count("cmp:ok")
        self.count("cmp:ok:" + ("equal-instants" if a == b else "different-instants")
                   + ("/different-offsets" if pa[1] != pb[1] else "/same-offset"))
        if pa[1] != pb[1] and (c["a"][:19] < c["b"][:19]) != (a < b) and a != b:
            self.count("cmp:ok:local-order-opposite-to-chronological")

    def result(self):
        for lb, k in self.dirs.items():
            self.counters["fmt:exact-ok:" + lb] = k
        self.counters["fmt:directives-checked"] = sum(self.dirs.values())
        return {
            "events": self.n,
            "violations": self.violations,
            "violation_counts": dict(sorted(self.vcounts.items())),
            "counters": dict(sorted(self.counters.items())),
            "samples": self.samples,
        }


def check_events(events):
    c = Checker()
    one = c.one
    for ev in events:
        one(ev)
    return c.result()


if __name__ == "__main__":
    import json
    import sys
    import time

    t0 = time.time()

    def lines():
        for p in sys.argv[1:]:
            with open(p, encoding="utf-8") as f:
                for line in f:
                    if line.startswith("{"):
                        yield json.loads(line)

    r = check_events(lines())
    dt = time.time() - t0
    print(json.dumps({k: r[k] for k in ("events", "violation_counts", "counters")}, indent=1, ensure_ascii=False))
    for v in r["violations"]:
        print("VIOLATION", v["key"], "::", v["what"])
        print("   replay:", json.dumps(v["replay"], ensure_ascii=False))
    print("%.1f s, %.0f events/s" % (dt, r["events"] / max(dt, 1e-9)), file=sys.stderr)
