"""Per-check configuration used by ./check and by tools/gen_manifest.py."""

CHECKS = {}


def reg(cid, **kw):
    CHECKS[cid] = kw


reg(
    "C01",
    title="parsing is total",
    level="exploration",
    technique="runtime monitoring: panic/abort/hang monitor + result-shape oracle over bounded-exhaustive token/element enumeration, random soups, mutations and definite-fault injection",
    design_ref="DESIGN.md §5 C01",
    rule=("cases = (parser configuration, text). Families: every token sequence up to the stated length over the lexical "
          "alphabet (joined with and without spaces), every sequence of whole elements up to the stated length, block "
          "nesting sweep to depth 32 (closed / unclosed at every level / mis-nested), random token soups, character- and "
          "token-level mutations of generated well-formed templates, and well-formed templates with one definite fault "
          "injected (31 fault shapes: unknown tag/filter incl. in identifier positions, excess/missing/unknown-named filter arguments, unclosed blocks, stray end/else/when tags, unterminated strings and delimiters, ...). "
          "The alphabets include case variants of the literal keywords, keyword-prefixed identifiers and multi-line quote fragments; element sequences whose first element opens a block that no later element closes must be rejected. distinct = distinct (config, text) by content hash; non-trivial = the text contains at least one "
          "Liquid delimiter ({{ or {%), i.e. the strict tag/expression parser is actually entered."),
    exhaustive=False,
    profiles={"quick": ["checked"], "thorough": ["checked"]},
    floor={"quick": 500000, "thorough": 20000000},
    hang_is_violation=True,
    assumptions=[
        "termination is observed as 'returned before the 60 s no-progress watchdog'",
        "nesting depth <= 32, token sequences <= the enumerated length; longer inputs only sampled",
        "the harness profile unwinds on panic (the repository's own profiles abort); a panic is a violation either way",
    ],
    level_text=("Bounded-exhaustive plus randomized exploration of Parser::parse under a crash/hang/result-shape monitor. "
                "Right level: the property is a universally quantified totality claim over strings; a monitor over a dense "
                "enumeration of the lexical alphabet reaches the interactions (blocks inside comment/raw, out-of-range literals) "
                "that hand-written tests sample once."),
    level_note="Trusts rustc/std unwinding and the harness's own generators; says nothing about inputs outside the enumerated bounds.",
)

reg(
    "C02",
    title="rendering is total and emits UTF-8",
    level="exploration",
    technique="runtime monitoring: panic/abort/hang + UTF-8 sink monitor over an exhaustive filter x input-kind x argument-kind matrix, tag/block edge sweeps and random programs on type-confused data; checked (overflow-trapping) and release builds, ASan/valgrind in the thorough tier",
    design_ref="DESIGN.md §5 C02",
    rule=("cases = (configuration, template, data). Families: every registered filter (stdlib, jekyll, shopify, extra) at arity 0, 1, 2 "
          "with input and arguments drawn exhaustively from the hostile value pool; ~65 tag/block/path edge templates over x, y, z with "
          "the data sweeping the pool for every variable used; an array-stress family (random arrays of 15..60 nested / mixed / object elements through every sort-like filter); random whole programs with partials on type-confused data. "
          "The pool holds boundary integers, NaN/inf, long non-ASCII texts, property-path strings, dates at the range end, arrays of objects. "
          "distinct = distinct (template, data) by content hash; non-trivial = the template parsed and the render was actually executed "
          "(templates rejected at parse are counted separately and are not evaluations)."),
    profiles={"quick": ["checked"], "thorough": ["checked", "release"]},
    floor={"quick": 150000, "thorough": 3000000},
    hang_is_violation=True,
    assumptions=[
        "sizes that control allocation (range spans, integer bindings in random programs) are capped at 10^4 as the property's quantifier says",
        "termination is observed as 'returned before the 60 s no-progress watchdog'; workers run under RLIMIT_AS = 8 GiB",
        "integer overflow is observable because the checked profile traps it (overflow-checks=on); the release profile is run in the thorough tier to observe wrapping / unchecked UTF-8 conversion",
    ],
    level_text=("Exhaustive filter x input x argument matrix at arity <= 2 over a pool containing every value kind and the boundary "
                "values of every parameter, plus edge sweeps of every tag and block, under crash, hang and UTF-8 monitors. Right level: "
                "the property is a totality claim over (template, data) pairs whose failures live at type-confused and boundary inputs that no hand-written test renders."),
    level_note="Trusts the harness's value pool to contain the boundary values of each parameter; memory-safety is only 'no sanitizer report on the sampled executions'.",
)

reg(
    "C09",
    title="rendering is repeatable",
    level="exploration",
    technique="runtime monitoring: history monitor — every render in every call history on a shared parser is compared with its stand-alone result on a freshly built parser; caller-data immutability monitor",
    design_ref="DESIGN.md §5 C09",
    rule=("a case = (pool of 2-3 templates x 2-3 data objects over one partial set, compilation policy eager|lazy, history r1..rk). "
          "Every pool also holds a designed template that fails midway at a point chosen by the data (inside a capture / an ifchanged body after text was written, inside a loop after stateful tags ran, while a break is pending in a tablerow, inside an included partial) and includes/renders a partial whose name comes from the data. All histories of length <= 3 over the pool's (template, data) pairs are enumerated, lengths 4-6 are sampled. Every call's result "
          "(the output, or the failure identified by an order-insensitive fingerprint of its whole message) must equal the result of the same (template, data) on a fresh parser; the pool also holds partials `pg0` and a differently-bodied `pg0.liquid`, selected by the data. distinct = distinct (pool, policy, history); "
          "non-trivial = history length >= 2 (a single call cannot observe leaked state)."),
    profiles={"quick": ["checked"], "thorough": ["checked"]},
    floor={"quick": 20000, "thorough": 1000000},
    assumptions=[
        "objects with more than one key are never iterated or printed whole (the licensed source of non-determinism)",
        "errors are compared as 'failed', not by message text",
    ],
    level_text=("Exhaustive short histories and sampled longer ones over pools rich in stateful constructs (cycle, increment, ifchanged, "
                "capture, break/continue, partials, renders failing midway), with a differential oracle per call. Right level: the property "
                "quantifies over histories, which only a driver that replays sequences against a stand-alone baseline can observe."),
    level_note="Baseline = the same library on a fresh parser (differential): a defect that is history-independent is out of scope here and belongs to C04-C08.",
)

reg(
    "C10",
    title="failing sink: error, no further writes, clean prefix",
    level="fault_enumeration",
    technique="runtime monitoring with fault injection: recording/failing io::Write sink, every write index of the fault-free run faulted in turn (hard failure, short-write-then-failure, and a legal short write by a sink that never fails)",
    design_ref="DESIGN.md §5 C10",
    rule=("a case = (generated template with partials and data, fault mode in {fail, short-then-fail, short-but-never-fails}, k) for every k in 1..W where W is the "
          "number of write calls of the fault-free run (W <= 400 exhaustively, stride-sampled above). Oracle: render_to returns Err, the sink "
          "sees zero calls after the failing one, accepted bytes are a prefix of the fault-free bytes; with an infallible sink the streamed bytes "
          "equal render()'s string. distinct = distinct (scenario, mode, k); non-trivial = the fault point was injected into a run that writes (W >= 1)."),
    exhaustive=False,
    profiles={"quick": ["checked"], "thorough": ["checked"]},
    floor={"quick": 3000, "thorough": 200000},
    assumptions=["ErrorKind::Interrupted is not injected (std retries it by contract)"],
    level_text=("Exhaustive enumeration of fault points per generated template under a sink that records what it was offered. Right level: the "
                "property quantifies over fault sequences, and the suite never calls render_to."),
    level_note="Templates are generated, so constructs the generator cannot express are not covered; counts per construct are in the evidence.",
)

reg(
    "C19",
    title="eager / lazy / on-demand partial policies agree",
    level="exploration",
    technique="runtime monitoring: differential monitor across the three compilation policies, with an instrumented PartialSource recording which partial names an execution actually requested",
    design_ref="DESIGN.md §5 C19",
    rule=("a case = (main template, 0-4 partials some broken, some stored under '<name>.liquid' (alone or next to the bare name), some with an empty source, a possibly missing name, data, 1-3 renders per parser). Oracle: build() is Ok under "
          "all three policies; results agree across policies (same output, or failures with the same first line); repeated renders on one parser equal the first (failures by whole-message fingerprint); if the instrumented source saw no lookup "
          "of a broken partial, every policy must give exactly what the same policy gives with the broken partials made healthy (output, or failure by whole-message fingerprint). distinct = distinct scenario by "
          "content hash; non-trivial = the main template contains an include or render tag."),
    profiles={"quick": ["checked"], "thorough": ["checked"]},
    floor={"quick": 10000, "thorough": 500000},
    assumptions=["sources list their names truthfully (InMemorySource)", "across policies only the output or the first line of the error is compared ('fail alike'); whole messages are compared within one policy"],
    level_text=("Differential execution of generated scenarios under every policy. Right level: the property quantifies over configurations; "
                "the suite never builds two policies for the same scenario."),
    level_note="'Reached' is what the on-demand run's instrumented source observed.",
)

reg(
    "C20",
    title="parsers and templates shared across threads",
    level="exploration",
    technique="runtime monitoring under stress: barrier-released threads on shared Arc<Parser>/Arc<Template>, per-call differential oracle against stand-alone results, instrumented PartialSource (delay injection inside the lazy store's critical section) and PartialStore (enter/leave event log); ThreadSanitizer and Miri in the thorough tier",
    design_ref="DESIGN.md §5 C20",
    rule=("a case = one concurrent round: pool (3 templates incl. one full of ifchanged/capture bodies, 2 data objects, partials incl. a broken one, a missing name and two selected by a data-dependent name), 2-16 threads released by a "
          "barrier, 10-50 seeded calls each (Template::render, render_to, render_to+render, parse+render) on shared objects, lazy or eager policy, delay mode in "
          "{none, yield, sleep 50us, sleep 500us} injected inside PartialSource::try_get, optional start skew. Every call's result must equal "
          "its stand-alone sequential result; afterwards the parser must still work sequentially. distinct = distinct round by content hash; "
          "non-trivial = at least one call interval overlapped a call of another thread (from the recorded call/return stamps)."),
    profiles={"quick": ["checked"], "thorough": ["checked"]},
    floor={"quick": 800, "thorough": 10000},
    hang_is_violation=True,
    assumptions=[
        "schedules are sampled by the OS scheduler, thread-count sweep, start skew and injected delays; no enumeration of interleavings is claimed",
        "a round that makes no progress for 300 s is reported as a deadlock",
    ],
    level_text=("Stress exploration of real threads with a per-call oracle (stronger than linearizability here: every call is a pure function of "
                "its arguments) and evidence of actual contention (overlapping calls, contended first use of lazily compiled partials). Right "
                "level: the property quantifies over schedules; the suite is single-threaded."),
    level_note="Race freedom is only 'no ThreadSanitizer/Miri report on the executions run' (thorough tier).",
)

reg(
    "C18",
    title="runtime stack algebra",
    level="exploration",
    technique="runtime monitoring against an executable model: every operation sequence up to the bound is executed on the real StackFrame/SandboxedStackFrame/GlobalFrame types (push = frame over &dyn Runtime in a recursive call, pop = return) and all lookups, roots and counters are compared with an abstract stack-of-maps model",
    design_ref="DESIGN.md §5 C18",
    rule=("a case = (start runtime with/without caller data, operation sequence) over 28 operations {push plain d, push sandboxed d (d in the 9 maps "
          "over {x,y} x {absent, scalar, object}), push global layer, pop, assign-global k v, set-counter k v}; all sequences up to the stated length "
          "(pop on an empty stack pruned) are enumerated; after each sequence get and try_get for 8 paths of length 1-2 (incl. the never-defined names size and first), roots() and get_index are "
          "observed and compared with the model. distinct = distinct (start, sequence); non-trivial = the sequence contains at least one push."),
    exhaustive=True,
    profiles={"quick": ["checked"], "thorough": ["checked"]},
    floor={"quick": 500000, "thorough": 10000000},
    assumptions=["values in maps are a scalar or a one-key object; names from a 2-name alphabet", "frames cannot be rolled back, so each sequence is replayed from a fresh runtime and observed at its end; every prefix is itself an enumerated sequence"],
    level_text=("Exhaustive bounded exploration of the operation alphabet with an independent abstract model as the oracle and every trace executed on the real "
                "frame types. Right level: the property is an algebraic law over histories of a small API; bounded exhaustion covers all interactions of "
                "shadowing, sandboxing, global assignment and counters up to the bound."),
    level_note="The abstract model (about 80 lines) is trusted; sequences longer than the bound are not explored.",
)


def c11_post(cid, tier, seed, jobs, rundir, merged, notes, inconclusive, api):
    """Cross-process clause of C11: the comparison matrices recorded by all worker processes
    (each with its own HashMap seeds and its own rebuild order) must be identical cell by cell."""
    mats = merged.get("each", {}).get("each:matrix", [])
    if len(mats) < 2:
        inconclusive.append("fewer than two worker processes exported a comparison matrix")
        return
    ref_shard, ref = mats[0]
    n = int(round(len(ref) ** 0.5))
    cells = 0
    for shard, m in mats[1:]:
        if len(m) != len(ref):
            inconclusive.append(f"matrix of worker {shard} has a different size")
            continue
        for idx, (x, y) in enumerate(zip(ref, m)):
            cells += 1
            if x != y:
                i, j = divmod(idx, n)
                key = "process-dependent-comparison"
                merged["violations"].append({"key": key, "what": f"pool pair ({i},{j}) compared as {x} in worker {ref_shard} and as {y} in worker {shard}",
                                             "replay": {"check": cid, "kind": "pair-index", "i": i, "j": j, "key": key}})
                merged["violation_counts"][key] = merged["violation_counts"].get(key, 0) + 1
                break
    merged["counters"]["cross-process:matrices-compared"] = len(mats)
    merged["counters"]["cross-process:cells-compared"] = cells


reg(
    "C11",
    title="equality and ordering coherence",
    level="exploration",
    technique="runtime monitoring: law monitors (reflexive, symmetric, negation, duality, <=/>= coherence, equal-not-ordered, int/float) on every ordered pair of the pool through Value, ValueCow, ValueViewCmp and through if/case/contains/uniq/sort templates, each pair repeated on independently rebuilt values; cross-process matrix comparison",
    design_ref="DESIGN.md §5 C11",
    rule=("a case = ordered pair (a, b) from a pool of 68 values (nil, booleans, integers incl. 2^53 and the i64 bounds, floats incl. +-0, infinities and NaN, "
          "strings, dates, date-times of one instant in different offsets, empty/blank markers, arrays and objects nested two deep, multi-key objects "
          "written in different key orders). Each pair is compared R times (quick 20, thorough 200) on values rebuilt independently (fresh HashMaps, shuffled "
          "insertion order) through Value, ValueViewCmp, ValueCow (borrowed/owned, against ValueCow, Value, ValueViewCmp and bare i64/bool/&str) and through if/case templates; every worker process evaluates the whole matrix and the orchestrator requires the 16 matrices to be identical. "
          "distinct = distinct ordered pair (counted once, by shard 0, since all shards deliberately repeat the same matrix); non-trivial = a and b differ by "
          "strict dump, or a is composite."),
    exhaustive=True,
    profiles={"quick": ["checked"], "thorough": ["checked"]},
    floor={"quick": 60000, "thorough": 60000},
    post=c11_post,
    assumptions=["only the empty/blank markers are pooled, not the internal Truthy/DefaultValue states", "transitivity is not part of the statement and is not checked"],
    level_text=("Exhaustive over the pool's ordered pairs with literal law monitors and repetition over independent constructions and processes. Right level: "
                "construction- and process-dependence only shows when the same comparison is repeated on rebuilt values, which no unit test does."),
    level_note="The pool is finite; laws are checked on its pairs only.",
)

reg(
    "C14",
    title="array filters neither invent nor lose elements",
    level="exploration",
    technique="runtime monitoring: reference functions and multiset/sortedness/stability monitors over filter results read structurally through the dump plugin; bounded-exhaustive small arrays plus random arrays beyond the 20-element sort threshold in every initial order",
    design_ref="DESIGN.md §5 C14",
    rule=("a case = (input array, filter battery). Exhaustive: all arrays of length 0..L (quick 4, thorough 5) over {nil, 1, 1.0, 2, 1.5, 'a', 'B', 'b'} and over case-variant "
          "strings; all arrays of length 0..3 (thorough 4) over 8 one-/two-key objects with a present, missing, nil or false property, for property names present/absent, where-targets 1, 'a', 2, false, nil, true; non-array inputs to sort/sort_natural; "
          "slice with every offset in [-n-2, n+1] x lengths; random arrays of length 0..60 (half of them longer than 20) of five kinds (ints, numbers, strings, ints with nils, "
          "mixed incomparable types) in random, sorted, reversed and organ-pipe order. distinct = distinct input array (and slice arguments); non-trivial = the array has at least 2 elements."),
    profiles={"quick": ["checked"], "thorough": ["checked"]},
    floor={"quick": 15000, "thorough": 300000},
    assumptions=["equality for uniq/where is asserted only on cells whose meaning the statements fix (numbers, strings, nil)",
                 "for arrays whose elements are not mutually comparable only 'permutation' and 'no failure' are asserted for sort",
                 "map may keep or drop a property that is present but nil; [] | first may be nil or an error"],
    level_text=("Reference implementations and structural laws across bounded-exhaustive and random inputs, including lengths beyond the threshold where the standard sort "
                "switches algorithm. Right level: failures depend on length and initial order, which unit tests sample with a few short arrays."),
    level_note="The reference functions (stable sort with nils last, first-occurrence dedup, indexing) are trusted.",
)

reg(
    "C12",
    title="views and conversions of a datum agree",
    level="exploration",
    technique="runtime monitoring: agreement monitor over every view of a generated datum (Value, &Value, as_view, to_value, ValueCow owned/borrowed, Option, Vec, HashMap/BTreeMap), serde and JSON round trips, derive(ObjectView, ValueView) structs compared with their serde conversion through the object API and a template battery, out-of-range integer probes",
    design_ref="DESIGN.md §5 C12",
    rule=("cases: (a) data from a recursive generator (depth <= 4, every scalar kind incl. dates, numeric-looking strings, arrays, single- and multi-key objects with keys like 'size'/'first'): "
          "all views (Value, &Value, as_view, to_value, ValueCow owned/borrowed, Some(v), Some(Some(v)), None/Some(None) for nil, Vec, HashMap, BTreeMap) must agree on type_name, the four query_state answers, kind predicates, strict dump of to_value(), and (when no multi-key object is involved) render/source/to_kstr; "
          "to_value, from_value::<Value> and the JSON text round trip must preserve the strict dump (dates, date-shaped strings and the empty/blank markers are excluded from the serde clauses); "
          "(b) every instance of a family of derived structs (2160 field combinations: i64, f64, bool, String, Option, Vec, BTreeMap, nested struct, optional nested struct; a single-field struct; an empty struct) "
          "compared with its serde conversion on get/contains_key/size/keys/iter/values and on 12 templates; enums and tuples round-tripped on the serde side; (c) integers across the i64/u64/i128 boundaries "
          "through Rust integer types and JSON, and u64 round trips Rust -> liquid -> Rust (bare and as a struct field). distinct = distinct datum / struct instance by content; non-trivial = the datum is not nil."),
    profiles={"quick": ["checked"], "thorough": ["checked"]},
    floor={"quick": 15000, "thorough": 200000},
    assumptions=["dates are encoded as strings by serde by design, so date-shaped strings are excluded from the kind clause", "the empty/blank query markers are not data and are excluded from the serde clauses"],
    level_text=("Agreement of many views and conversion paths of the same generated datum, plus derived-vs-serde structs through templates. Right level: the property quantifies over all data and "
                "all conversion paths; unit tests pin a handful of literals per path."),
    level_note="Generated values and struct field pools are finite samples of the value space.",
)

reg(
    "C03",
    title="literal text, trim markers, raw, comment",
    level="exploration",
    technique="runtime monitoring against a structural prediction: templates are generated as item lists with independent trim markers on every delimiter side and the rendered output is compared with pure string algebra over that structure; comment side-effect probe",
    design_ref="DESIGN.md §5 C03",
    rule=("cases: (1) exhaustive single-item core: every whitespace run of length 0-2 over {space, tab, LF, CR} (plus CRLF/NBSP/U+3000 runs; text atoms include U+FEFF, U+200B, U+2028, U+0085, U+000B, which are text, not trimmable) on the left x on the right x all 16 marker combinations x "
          "item kind {if, for, capture+print, raw, comment, output, assign} (x 4 inner paddings in the thorough tier); (2) random multi-item templates nested to depth 2 with raw bodies that look like markup "
          "and comment bodies with side effects, followed by a probe that the variables and counters touched inside comments are unchanged; (3) markup-free random texts must render to themselves; "
          "(4) a labelled sub-family of quote characters pairing across the closing tag of raw/comment. distinct = distinct template text; non-trivial = a delimiter is adjacent to a non-empty text segment "
          "(identity family: the text contains a brace, percent, quote, dash or whitespace)."),
    profiles={"quick": ["checked"], "thorough": ["checked"]},
    floor={"quick": 100000, "thorough": 1000000},
    assumptions=["text segments never contain a delimiter start and never end in '{' directly before a delimiter (that would be markup, not text)",
                 "comment bodies contain no unbalanced block openers (C01 covers those)"],
    level_text=("Bounded-exhaustive plus random exploration with an oracle derived from the generator's own structure, so no second parser is involved. Right level: the property quantifies over all "
                "texts and marker placements; the suite pins a few dozen hand-written layouts."),
    level_note="The prediction (25 lines of string algebra) is trusted.",
)

reg(
    "C13",
    title="string filters compute their documented function",
    level="exploration",
    technique="runtime monitoring: independent reference functions (written from each filter's documentation) and algebraic-law monitors over filter results read structurally through the dump plugin; bounded-exhaustive strings over a 10-character alphabet incl. non-ASCII, combining mark and emoji, every integer argument in [-6, 8], random long strings, filter chains",
    design_ref="DESIGN.md §5 C13",
    rule=("a case = (filter or chain, input x, arguments). Inputs: every string of length <= 4 (quick: <= 3 exhaustively + seeded samples of length 4) over {a, B, space, LF, TAB, ',', '<', e-acute, U+0301, thumbs-up}; "
          "string arguments of length <= 2; two-argument replace/replace_first on x <= 3; every integer in [-6, 8] for truncate/truncatewords (alone and with an ellipsis) and every offset x length pair for slice; "
          "array inputs for join/first/last/size; default on nil/false/empty values; random strings <= 200 characters (ASCII, Latin-1, combining marks, emoji, ZWJ sequences, flags, CRLF, Unicode spaces, CJK) through every filter; "
          "chains of 1..4 filters; chains whose entry is a literal and whose arguments are variables, parsed once and evaluated with 64 argument pairs. Each cell is compared with a reference written from the filter's documentation, or with laws only where the documentation is silent (split|join identity, strip = lstrip.rstrip, truncate length, "
          "slice contiguity, chain = composition of separately rendered steps). distinct = distinct (template, data) by content; non-trivial = the input x is non-empty."),
    profiles={"quick": ["checked"], "thorough": ["checked", "release"]},
    floor={"quick": 1000000, "thorough": 30000000},
    assumptions=["truncate: every combination of {characters, grapheme clusters} is accepted for the length decision, the cut position and the ellipsis size (an existing unit test pins a string that matches neither pure reading); bytes are never accepted",
                 "truncatewords is compared exactly only where 'word' is unambiguous (single spaces); split of the empty string may be [] or ['']",
                 "upcase/downcase use std's Unicode case mapping as reference primitive"],
    level_text=("Reference-implementation and law monitors over an exhaustive small-string space that contains multi-byte characters, a combining mark and an emoji, so byte/character confusions cannot hide. Right level: "
                "the property quantifies over all strings; unit tests use a few ASCII examples."),
    level_note="The reference functions and the small UAX#29 subset used for cluster boundaries are trusted.",
)

reg(
    "C16",
    title="escape / escape_once / url_encode / url_decode / strip_html",
    level="exploration",
    technique="runtime monitoring: character-class scanners, inverse functions and idempotence monitors over exhaustive strings on the three entity/URL/tag alphabets plus random texts seeded with entity, tag and percent tokens",
    design_ref="DESIGN.md §5 C16",
    rule=("a case = one input in one group (escape: 1 render; escape_once: once and twice; url: encode, encode|decode, decode; strip_html: 1 render). Inputs: all strings of length <= 5 (quick 4) over "
          "{<, >, &, \", ', ;, #, a, l, t, m, p, space, e-acute} and all sequences of <= 4 (quick 3) entity tokens; all strings of length <= 4 over {%, +, 2, F, f, space, /, e-acute, emoji}; all strings of length <= 6 (quick 5) over "
          "{<, >, !, -, /, s, c, r, i, p, t, a} (each also split on 'a' into an array and handed to strip_html: what is printed must be tag-free too); random texts <= 200 characters mixed with entity/tag/percent tokens (incl. overlong and surrogate percent sequences). distinct = distinct (group, input); "
          "non-trivial = the input contains a character the group treats specially."),
    profiles={"quick": ["checked"], "thorough": ["checked"]},
    floor={"quick": 300000, "thorough": 5000000},
    assumptions=["which strings count as 'existing entities' for escape_once is undocumented: safety, invertibility and idempotence are asserted, and equality with 'escape of the non-entity parts' under either of two readings",
                 "url_decode of a '%' not followed by two hex digits may be left literal (percent-encoding crate behaviour) or be an error"],
    level_text=("Exhaustive over alphabets that spell every entity, near-entity, percent sequence and tag shape, with oracles stated as scans and inverses. Right level: the properties are universally quantified "
                "safety/inversion claims over strings."),
    level_note="The scanners and the reference url decoder are trusted.",
)

reg(
    "C05",
    title="loops visit exactly the selected elements",
    level="exploration",
    technique="runtime monitoring against a reference interpreter over generator ASTs: exhaustive (length x offset x limit x reversed x cols x collection kind) windows with bodies printing the item and every forloop/tablerow field, break/continue at every index of two nested loops, random deeper nests",
    design_ref="DESIGN.md §5 C05",
    rule=("cases: (1) every collection length 0..6 x offset in {absent, 0..8} x limit in {absent, 0..8} (as literals and through variables) x reversed x {for, tablerow with cols absent/1..4} x collection kind "
          "{array variable, literal range, range with variable bounds, descending range, single-key object, nil}, body prints the item and all loop fields, else branch marked; (2) break/continue guarded by forloop.index == k for "
          "every k at both levels of two nested loops of lengths 0..4, before and after the inner loop, with parentloop fields printed and a leak probe after the loop; (3) random nests to depth 3 over arrays up to 40 elements. "
          "The expected output comes from the reference interpreter. distinct = distinct (program text, data); non-trivial = the source collection is non-empty."),
    exhaustive=True,
    profiles={"quick": ["checked"], "thorough": ["checked", "release"]},
    floor={"quick": 60000, "thorough": 1000000},
    assumptions=["tablerow markup is compared after deleting newlines (the statement promises truthful fields, not exact markup)", "break/continue inside tablerow and negative limit/offset are outside the statement and not generated"],
    level_text=("Exhaustive over the quantified window space with an independent interpreter as oracle. Right level: the property is about all (length, offset, limit) combinations and all interrupt positions; "
                "the suite fixes a handful."),
    level_note="The reference interpreter (harness/src/refm.rs) is trusted; its loop semantics are 15 lines (window = a[min(off,n)..min(off+lim,n)], then reverse).",
)

reg(
    "C15",
    title="arithmetic filters are exact or fail",
    level="exploration",
    technique="runtime monitoring with an offline checker: the harness only records {op, operands, result} events (checked and release builds); a Python checker with big-integer, Fraction and IEEE-double arithmetic judges them",
    design_ref="DESIGN.md §5 C15",
    rule=("a case = (filter, operand a, operand b or none) over the eleven math filters. All 18x18 pairs of the boundary set as integers, decimal strings and nearest floats; all 81x81 pairs of k/8, |k| <= 40; 34 special doubles; "
          "34 free strings; twelve random families (full 64-bit ints, sums/products next to +-2^63, division by special divisors, random f64 bit patterns, n+0.5 ties +-1 ulp, int/float/string mixes). divided_by events carry the modulo result of "
          "the same operands so the identity n = q*d + r is checked on one observation. distinct = distinct (op, a, b); non-trivial = every operand is a number or a string the coercion parses as a number."),
    offline="c15_arith",
    profiles={"quick": ["checked"], "thorough": ["checked", "release"]},
    floor={"quick": 100000, "thorough": 5000000},
    assumptions=["float modulo may follow fmod, floored or IEEE-remainder convention; a zero divisor of any numeric kind (0, 0.0, -0.0, '0', '0.0') must be an error", "ceil/floor/round are asserted for floats within the i64 range only; integer operands and round with decimal places are counted, not asserted"],
    level_text=("Boundary-exhaustive and random operands judged by an independent arithmetic (Python big integers / Fractions / IEEE doubles). Right level: wrap-around and tie errors live at boundaries the suite never multiplies; "
                "the release build is needed to observe wrapping, the checked build to observe overflow panics."),
    level_note="The offline checker (checkers/c15_arith.py) is trusted.",
)

reg(
    "C17",
    title="dates: round trips and strftime directives",
    level="exploration",
    technique="runtime monitoring with an offline checker: the harness records format, round-trip and comparison events; a Python checker with an independent calendar (datetime + integer arithmetic) rebuilds the expected strftime text segment by segment",
    design_ref="DESIGN.md §5 C17",
    rule=("cases: format = (timestamp, value-or-string input, format) through {{ ts | date: fmt }}; round trip = input text in one of the 7 accepted syntaxes; comparison = (a, b) via Value or template. Timestamps: years 1, 1000, 1970..2040, 9999 x 20 boundary days x every hour; "
          "range ends x 42 offsets (-12:00..+14:00 incl. :30/:45) x 10 sub-second values; every directive x flag {none,-,_,0,^,#} x width {none,1,3,6,12}; ~190 special formats (unknown ASCII/non-ASCII directives, malformed, trailing %); random concatenations. "
          "distinct by content; non-trivial: the format contains a '%' / any round trip / comparison operands in different offsets."),
    offline="c17_dates",
    profiles={"quick": ["checked"], "thorough": ["checked"]},
    floor={"quick": 80000, "thorough": 1500000},
    assumptions=["exact comparison only on the sub-domain where the documented (Ruby) meaning is unambiguous; flags/widths on composites, on %z, '#'/'^' on numerics etc. are totality-only and counted per reason", "widths above 1000 are not generated"],
    level_text=("Dense enumeration of calendar edge cases and directive/flag/width combinations judged by an independent calendar. Right level: the defects are at leap days, ISO-week-year edges and leading-zero fractions, which example tests miss."),
    level_note="The offline checker (checkers/c17_dates.py) is trusted; it self-checks its calendar against Python's datetime at import.",
)

reg(
    "C06",
    title="conditionals render exactly one branch",
    level="exploration",
    technique="runtime monitoring with a two-layer oracle: (L1) the branch taken by `{% if a OP b %}` must equal the same operator on ValueViewCmp through the Rust API for every cell, (L2) an independent table on the cells whose meaning the statement fixes; if/elsif, unless, case/when and and/or chains against the reference interpreter with distinct branch markers",
    design_ref="DESIGN.md §5 C06",
    rule=("cases: (1) every operator (==, !=, <>, <, >, <=, >=, contains) x every ordered pair of a 32-value pool (nil, booleans, ints, floats equal to ints, numeric and other strings, blank strings, arrays, objects, empty/blank markers), each side as literal and through a variable; bare truthiness of every value under if and unless; "
          "(2) if/elsif chains of 1..4 arms over all assignments of {true, false, undefined}, with and without else; unless; and/or chains of length <= 4 of the shape or* and*, all truth assignments; "
          "(3) case/when with 1..4 arms, value lists with duplicates and overlaps, ',' and 'or' separators, target as literal and variable; (4) random nestings of if/unless/case with comparisons, contains, empty/blank tests and undefined names; (5) bare member tests where a loop variable shadows an outer object that has the member, and bare tests of undefined names equal to the special names size/first/last/forloop; (6) re-evaluation: every literal-vs-variable comparison compiled once and rendered against every pool value, and evaluated inside a loop over the values, must answer what a freshly parsed template answers for that value alone. "
          "distinct = distinct (template, data); non-trivial = operands differ or are not plain scalars / at least two arms or atoms."),
    exhaustive=True,
    profiles={"quick": ["checked"], "thorough": ["checked"]},
    floor={"quick": 40000, "thorough": 200000},
    assumptions=["cells involving a boolean against a non-boolean, nil against a marker, or two markers are checked against the Rust API only (the statement defers to the value model there)",
                 "and/or shapes other than or* and* are not generated (only that grouping is claimed)"],
    level_text=("Exhaustive operator x operand matrix with a plumbing oracle and an independent semantic table, plus exhaustive truth assignments for chains. Right level: misparsed operators, literal-vs-variable differences and precedence "
                "slips show up only when every cell and every assignment is tried."),
    level_note="The L2 table (refm::eq / cmp / compare, about 100 lines) is trusted.",
)

reg(
    "C07",
    title="variable paths and literals",
    level="exploration",
    technique="runtime monitoring against a reference lookup: every path of length 1..4 over nested data, with every index in [-len-2, len+1] and special/colliding keys, written in dot/bracket literal form, through variables and through nested paths; literals parsed back structurally through the dump plugin",
    design_ref="DESIGN.md §5 C07",
    rule=("cases: (paths) two hand-built and 30 (thorough 400) generated nested data roots (arrays of length 0..5 inside objects inside arrays, own keys named size/first/last, integer-like keys in canonical and non-canonical spelling ('7', '007', '+1', '01'), non-ASCII and spaced keys, non-ASCII strings); "
          "from every reachable value every candidate step is tried (array: every integer in [-len-2, len+1], first, last, size, an absent name; object: own keys, size, absent and integer-like keys; strings: size, absent, 0), to depth 4, "
          "each path written with literal indices (dot and bracket forms), with indices supplied by variables, by nested paths r[ix.p0]..., and with the root re-assigned in the template over a decoy caller datum that has more members everywhere; expected = the reference step function; a missing step must make the output tag fail. "
          "(literals) i64 boundaries and a sweep of 2*10^3 (thorough 2*10^4) integers with +, - and leading zeros, decimals with 1..6 fraction digits, strings in both quote styles over a hostile alphabet, true/false/nil/null, out-of-range integers. "
          "distinct = distinct (template, data); non-trivial = the path has at least one step / every literal."),
    profiles={"quick": ["checked"], "thorough": ["checked"]},
    floor={"quick": 15000, "thorough": 300000},
    assumptions=["[].first / [].last, first/last/size of numbers, numeric strings as array indices and float indices are not specified and not compared", "in the quick tier paths deeper than 2 steps are sampled (1 in 6)"],
    level_text=("Systematic enumeration of path steps around every boundary of the generated data with an independent 60-line lookup as oracle; 'fails loudly' is observed as an error result. Right level: off-by-one and "
                "key-collision defects hide at indices and names the suite never tries."),
    level_note="The reference step function (refm::step) is trusted.",
)

reg(
    "C04",
    title="scoping: innermost binding wins, assignments persist, caller data untouched",
    level="exploration",
    technique="runtime monitoring against a reference interpreter: programs over a 3-name alphabet (each name at once caller datum, assigned variable, loop variable, counter and include argument) with a state probe (envdump monitor tag: try_get / get / roots / counter of every name, plus a guarded output read) after every statement; caller-data immutability monitor",
    design_ref="DESIGN.md §5 C04",
    rule=("cases: all programs with at most N binding statements (quick N = 3: ~1.6*10^4 programs, thorough N = 4: ~5*10^5) over the grammar {assign x = literal, assign x = x, capture x, capture x with a body that prints nothing, increment x, decrement x (x in a,b,c), include 'pa', include 'pa' a: .., include 'pb' b: .., c: .., "
          "for x in (1..2) {..}, if true {..}} with a probe before, inside and after every construct; a seeded sample of the next two sizes; random programs of up to 14 statements nested to depth 4 with captures containing statements and generated partials, on three data objects. "
          "The whole output trace is compared with the reference interpreter; the data object's strict dump must be unchanged. distinct = distinct (program, partials, data); non-trivial = the program has at least one binding statement."),
    exhaustive=True,
    profiles={"quick": ["checked"], "thorough": ["checked"]},
    floor={"quick": 30000, "thorough": 500000},
    assumptions=["values printed by probes longer than 40 characters are compared by length and hash (digest monitor filter)", "assigning from an undefined variable and undefined include arguments are outside the statement and not generated"],
    level_text=("Bounded-exhaustive program enumeration with a full state trace per program and an independent scope-chain model as oracle. Right level: scoping defects need a specific combination of shadowing constructs and a read at the "
                "right program point; enumerating small programs with reads everywhere reaches all of them up to the bound."),
    level_note="The reference interpreter (harness/src/refm.rs) is trusted; its scope chain is the one the statement describes.",
)

reg(
    "C08",
    title="include shares the caller's scope; render isolates the partial",
    level="exploration",
    technique="runtime monitoring against a reference interpreter: generated caller + 1..3 partials (nested, no recursion) using every include/render argument form, stateful constructs and interrupts, with state probes before/after every tag and inside the partials; missing and broken partials on executed and dead paths",
    design_ref="DESIGN.md §5 C08",
    rule=("cases: twelve fixed scenarios (one per clause of the statement, one include/render tag whose partial name changes from pass to pass, and a render-for inside a caller loop whose partial breaks/continues at its top level and is also handed an argument named forloop) plus generated scenarios: caller and 1..3 partials over names {a,b,c} built from assign, capture, increment/decrement, cycle, ifchanged, for with break/continue, if, "
          "include (with/without arguments) and render (plain arguments, with..as, for..as), partial names literal and through variables, break/continue at the top level of partials, a missing name and a syntactically broken partial on executed and on dead paths. "
          "The output trace (probes print every name's try_get/get/roots/counter at every point) must equal the reference interpreter's, and errors must occur exactly where the reference says. Under render-for a top-level break ends the remaining elements and a continue the current one, neither reaching the caller; left unspecified (counted, not compared): interrupts outside any loop in the main template, an alias also given as an argument, and the two situations in which the moment of evaluating render-for arguments matters. distinct = distinct scenario; "
          "non-trivial = the scenario is inside the specified behaviour (unspecified ones are counted separately and not compared)."),
    profiles={"quick": ["checked"], "thorough": ["checked"]},
    floor={"quick": 30000, "thorough": 500000},
    assumptions=["isolation of increment/decrement counters across render is NOT demanded (C18: counters are shared by all layers)",
                 "a top-level break in a partial run by render..for, an interrupt outside any loop, and a render alias that is also an argument are unspecified: counted, not compared"],
    level_text=("Generated multi-partial programs with full state traces and an independent model of the two scoping disciplines. Right level: leaks between caller and partial need a particular combination of tag form, argument, "
                "assignment and read position."),
    level_note="The reference interpreter is trusted.",
)


# ---------------------------------------------------------------------------------------------
# sanitizer passes (thorough tier only)
# ---------------------------------------------------------------------------------------------
import glob as _glob
import json as _json
import os as _os
import re as _re
import shutil as _shutil
import subprocess as _subprocess

TRIPLE = "x86_64-unknown-linux-gnu"


def _add_violation(merged, key, what, replay):
    merged["violations"].append({"key": key, "what": what, "replay": replay})
    merged["violation_counts"][key] = merged["violation_counts"].get(key, 0) + 1


def _first_repo_frame(block):
    for line in block.splitlines():
        m = _re.search(r"(/repo/[^ :]+):(\d+)", line)
        if m:
            return m.group(1)
    for line in block.splitlines():
        m = _re.search(r"#\d+ (\S+)", line)
        if m:
            return m.group(1)
    return "?"


def sanitizer_pass(cid, workload_check, kind, seed, jobs, rundir, merged, notes, inconclusive, api, extra_args=(), tier="quick"):
    """Build the harness with a compiler sanitizer and run `workload_check`'s workload under it.
    kind: 'address' | 'thread'. Reports are counted from the sanitizer's log files."""
    tdir = _os.path.join(api["HARNESS"], f"target-{kind}")
    flags = "-Zsanitizer=thread" if kind == "thread" else "-Zsanitizer=address -Cforce-frame-pointers=yes"
    extra = ["--target", TRIPLE] + (["-Zbuild-std"] if kind == "thread" else [])
    built = api["build"]("checked", extra_env={"RUSTFLAGS": flags}, target_dir=tdir, toolchain="nightly", extra_args=extra)
    if built is None:
        inconclusive.append(f"{kind} sanitizer build failed")
        return
    binpath = api["binary"](tdir, "checked", TRIPLE)
    logbase = _os.path.join(rundir, f"{kind}san")
    env = dict(api["ENV"], LQVERIF_NO_RLIMIT="1")
    if kind == "thread":
        env["TSAN_OPTIONS"] = f"halt_on_error=0 exitcode=0 log_path={logbase}"
    else:
        env["ASAN_OPTIONS"] = f"halt_on_error=0 detect_leaks=0 exitcode=0 log_path={logbase}"
    results = api["run_workers"](binpath, workload_check, tier, seed, jobs, rundir, f"{kind}san", extra_args=extra_args, env=env, timeout=3600)
    m = api["merge"](results)
    for r in m["dead"]:
        if r.get("hang"):
            inconclusive.append(f"{kind} sanitizer worker {r['shard']} timed out")
        else:
            # ASan with recover disabled aborts on the first report: that is a report
            _add_violation(merged, f"{kind}-sanitizer:worker-died", f"worker died under the {kind} sanitizer (rc={r['rc']}): {r.get('stderr', '')[-1500:]}",
                           {"check": cid, "kind": "progress", "progress": r.get("progress", ""), "sanitizer": kind})
    blocks = []
    for path in _glob.glob(logbase + ".*"):
        text = open(path, errors="replace").read()
        for b in _re.split(r"(?m)^={10,}$", text):
            if "WARNING: ThreadSanitizer" in b or "ERROR: AddressSanitizer" in b:
                blocks.append(b.strip())
    by_site = {}
    for b in blocks:
        by_site.setdefault(_first_repo_frame(b), []).append(b)
    for site, bs in by_site.items():
        _add_violation(merged, f"{kind}-sanitizer:{site}", f"{len(bs)} {kind} sanitizer report(s), first in-repo frame {site}: {bs[0][:1500]}",
                       {"check": cid, "kind": "sanitizer-report", "sanitizer": kind, "report": bs[0][:6000]})
    merged["counters"][f"{kind}-sanitizer:executions"] = m["evaluations"]
    merged["counters"][f"{kind}-sanitizer:reports"] = len(blocks)
    for k, v in m["counters"].items():
        if k.startswith(("calls", "store:", "rounds:")):
            merged["counters"][f"{kind}-sanitizer:{k}"] = v
    for k, c in m["violation_counts"].items():
        for v in m["violations"]:
            if v["key"] == k:
                v["replay"]["sanitizer_build"] = kind
        merged["violation_counts"][k] = merged["violation_counts"].get(k, 0) + c
    merged["violations"] += m["violations"]
    notes.append(f"{kind} sanitizer: {m['evaluations']} executions of the {workload_check} {tier} workload, {len(blocks)} report(s)")
    if not _os.environ.get("VERIF_KEEP_SANITIZER_BUILDS"):
        _shutil.rmtree(tdir, ignore_errors=True)


def miri_pass(cid, seeds, args, rundir, merged, notes, inconclusive, api):
    """Run a reduced scenario of `cid` under Miri with several scheduler seeds in parallel."""
    tdir = _os.path.join(api["HARNESS"], "target-miri")
    env = dict(api["ENV"], CARGO_TARGET_DIR=tdir)
    # build once (serialises on the cargo lock otherwise)
    b = _subprocess.run(["cargo", "+nightly", "miri", "run", "--bin", "lqverif", "--", "help-nothing"], cwd=api["HARNESS"],
                        env=dict(env, MIRIFLAGS="-Zmiri-disable-isolation"), stdout=_subprocess.PIPE, stderr=_subprocess.STDOUT, text=True)
    if "unknown check" not in b.stdout and "usage" not in b.stdout:
        inconclusive.append("Miri build/run failed: " + b.stdout[-600:])
        return
    procs = []
    for s in seeds:
        out = _os.path.join(rundir, f"miri-{s}.json")
        e = dict(env, MIRIFLAGS=f"-Zmiri-disable-isolation -Zmiri-ignore-leaks -Zmiri-seed={s}")
        cmd = ["cargo", "+nightly", "miri", "run", "--bin", "lqverif", "--", cid.lower(), "--tier", "quick", "--seed", str(s), "--out", out] + list(args)
        procs.append((s, out, _subprocess.Popen(cmd, cwd=api["HARNESS"], env=e, stdout=_subprocess.PIPE, stderr=_subprocess.STDOUT, text=True)))
    done = 0
    calls = 0
    evals = 0
    for s, out, p in procs:
        try:
            text, _ = p.communicate(timeout=3000)
        except _subprocess.TimeoutExpired:
            p.kill()
            inconclusive.append(f"Miri seed {s} timed out")
            continue
        if "Undefined Behavior" in text or "data race" in text.lower() or "error: unsupported" in text:
            first = next((l for l in text.splitlines() if l.startswith("error")), "error")
            if "unsupported" in first:
                inconclusive.append(f"Miri seed {s}: {first}")
                continue
            _add_violation(merged, "miri:" + first[:80], f"Miri (seed {s}) reported: {text[-3000:]}", {"check": cid, "kind": "miri-report", "seed": s, "report": text[-6000:]})
            continue
        if p.returncode != 0 or not _os.path.exists(out):
            inconclusive.append(f"Miri seed {s} exited with {p.returncode}: {text[-400:]}")
            continue
        j = _json.load(open(out))
        done += 1
        calls += j["counters"].get("calls", 0)
        evals += j.get("evaluations", 0)
        for v in j["violations"]:
            v["replay"]["under"] = "miri"
            merged["violations"].append(v)
        for k, c in j["violation_counts"].items():
            merged["violation_counts"][k] = merged["violation_counts"].get(k, 0) + c
    merged["counters"]["miri:seeds-completed"] = done
    merged["counters"]["miri:calls"] = calls
    merged["counters"]["miri:evaluations"] = evals
    notes.append(f"Miri: {done}/{len(seeds)} seeds completed, {evals} cases ({calls} concurrent calls) interpreted, arguments {list(args)}")
    if not _os.environ.get("VERIF_KEEP_SANITIZER_BUILDS"):
        _shutil.rmtree(tdir, ignore_errors=True)


def valgrind_pass(cid, workload_check, seed, rundir, merged, notes, inconclusive, api, shards=(0, 1), of=256):
    tdir = api["build"]("release")
    if tdir is None:
        inconclusive.append("release build for valgrind failed")
        return
    binpath = api["binary"](tdir, "release")
    procs = []
    for i in shards:
        out = _os.path.join(rundir, f"valgrind-{i}.json")
        cmd = ["valgrind", "-q", "--error-exitcode=99", "--errors-for-leak-kinds=none", binpath, workload_check.lower(), "--tier", "quick", "--seed", str(seed), "--shard", f"{i}/{of}", "--out", out]
        procs.append((i, out, _subprocess.Popen(cmd, cwd=api["ROOT"], env=dict(api["ENV"], LQVERIF_NO_RLIMIT="1"), stdout=_subprocess.PIPE, stderr=_subprocess.STDOUT, text=True)))
    total = 0
    for i, out, p in procs:
        try:
            text, _ = p.communicate(timeout=3000)
        except _subprocess.TimeoutExpired:
            p.kill()
            inconclusive.append(f"valgrind shard {i} timed out")
            continue
        if p.returncode == 99:
            _add_violation(merged, "valgrind:memcheck-error", f"valgrind memcheck reported errors: {text[-2500:]}", {"check": cid, "kind": "valgrind-report", "report": text[-6000:]})
        elif p.returncode != 0 or not _os.path.exists(out):
            inconclusive.append(f"valgrind shard {i} exited with {p.returncode}: {text[-300:]}")
        else:
            total += _json.load(open(out))["evaluations"]
    merged["counters"]["valgrind:executions"] = total
    notes.append(f"valgrind memcheck (release binary): {total} executions, shards {list(shards)} of {of}")


def c20_post(cid, tier, seed, jobs, rundir, merged, notes, inconclusive, api):
    if tier != "thorough":
        return
    sanitizer_pass(cid, "c20", "thread", seed, min(jobs, 8), rundir, merged, notes, inconclusive, api, extra_args=["--rounds", "800"])
    miri_pass(cid, list(range(8)), ["--rounds", "1", "--max-threads", "2", "--max-calls", "3"], rundir, merged, notes, inconclusive, api)


def c02_post(cid, tier, seed, jobs, rundir, merged, notes, inconclusive, api):
    if tier != "thorough":
        return
    sanitizer_pass(cid, "c02", "address", seed, jobs, rundir, merged, notes, inconclusive, api)
    valgrind_pass(cid, "c02", seed, rundir, merged, notes, inconclusive, api, shards=(0, 1, 2, 3), of=128)


def c01_post(cid, tier, seed, jobs, rundir, merged, notes, inconclusive, api):
    if tier != "thorough":
        return
    sanitizer_pass(cid, "c01", "address", seed, jobs, rundir, merged, notes, inconclusive, api)


def c12_post(cid, tier, seed, jobs, rundir, merged, notes, inconclusive, api):
    if tier != "thorough":
        return
    sanitizer_pass(cid, "c12", "address", seed, jobs, rundir, merged, notes, inconclusive, api)
    # Miri over a small sample of data through every view and conversion (kstring's inline-string unsafe code)
    miri_pass(cid, [0, 1], ["--miri-sample"], rundir, merged, notes, inconclusive, api)


_c11_post_plain = c11_post


def c11_post_thorough(cid, tier, seed, jobs, rundir, merged, notes, inconclusive, api):
    _c11_post_plain(cid, tier, seed, jobs, rundir, merged, notes, inconclusive, api)
    if tier == "thorough":
        miri_pass(cid, [0, 1], ["--miri-sample"], rundir, merged, notes, inconclusive, api)


CHECKS["C20"]["post"] = c20_post
CHECKS["C02"]["post"] = c02_post
CHECKS["C01"]["post"] = c01_post
CHECKS["C12"]["post"] = c12_post
CHECKS["C11"]["post"] = c11_post_thorough

# ---- families added after the fourth seeding round and the reach report (appended to the rule texts)
_ADDED = {
    "C01": "Also: 64 definite argument-list faults of the library's tags and blocks (missing / doubled / trailing pieces, arguments on closing tags, faults behind an else) that must be rejected wherever they are inserted; Parser::parse_file must give the verdict of parse on the file's text, and a missing or non-UTF-8 file is an error.",
    "C04": "Capture bodies inside loops may raise break/continue (the capture still binds what its body printed up to there).",
    "C06": "Also: pool arrays holding nil / empty-string / array elements (contains with non-scalar needles); every generated case node evaluated again inside a loop over several targets; member tests after an assign and after a capture re-bound the name over the caller's object.",
    "C07": "Two further path forms hand the path to a partial as an include and as a render argument (all index variables defined: the partial sees the denoted value; the last one undefined: the tag fails or binds nil).",
    "C08": "The render-for scenario also tests forloop.parentloop inside the partial (the caller's loop is not its parent).",
    "C09": "Results go through Template::render as well as render_to (they must agree); the designed pool has a template printing more than 10 KB before a data-chosen failure and a case with overlapping arms keyed on the data.",
    "C11": "Each pair is also compared through Value / ValueCow / ValueViewCmp / ScalarCow against bare Rust scalars, &str / String / KString / KStringCow and Date / DateTime values; the pool has same-key objects whose entries pull in opposite directions and date-times that fall on another day in UTC.",
    "C12": "Also: bare Rust scalars (i8..u32, i64, f32, f64, bool, &str, String, KString, KStringCow), Scalar and ScalarCow as views; the ArrayView / ObjectView interfaces (size, values, keys, iter, get, contains_key, first, last) of every container view; integer texts read into u64 / usize / i64 / u32 / Option<u64> / Vec<u64> (exact or rejected); a 'Rust shapes' family (narrow integers, f32, char, newtype / tuple / unit structs, tuples, arrays, unit enum variants, integer-keyed maps, narrowing rejections).",
    "C13": "The script pool includes characters whose upper-case form is wider or narrower in UTF-8 (U+0149, dotless i, long s, the fi ligature, U+0390, U+01C6).",
    "C16": "strip_html additionally over all strings of length <= 7 (quick 6) over {<, >, double quote, single quote, a, =, space, LF}.",
    "C18": "The empty path is observed too (names nothing under every layering). Beyond the exhaustive lengths a seeded sample of sequences of length 5-7 (thorough 6-8) is run; the assignable values coincide with what some pushed maps hold for one name each (assigning what is already visible) and differ for the other name.",
    "C19": "One scenario in six gives a partial invisible characters / white space at its edges; one in four is additionally probed through a monitor tag that asks the runtime's partial store contains / names / try_get / get for present, broken, missing and '.liquid'-suffixed names under every policy (answers fixed by the source; what try_get hands out renders like include).",
    "C20": "All shared templates also apply strip_html, date, split|sort|join|upcase|truncate, escape_once and replace|url_encode to per-data inputs long enough to be worth caching; every 50th round is a hammer round (one small hot template, four data objects, 8 threads x 1500 calls).",
}
for _k, _v in _ADDED.items():
    CHECKS[_k]["rule"] = CHECKS[_k]["rule"].replace(" distinct = ", " " + _v + " distinct = ", 1)
# ---- families added in the fifth seeding round (redo) and from the line-level reach listing
_ADDED5 = {
    "C01": "A fourth configuration 'jekyll' (the jekyll-style include tag in place of the stdlib one): every argument list of up to 3 (thorough 4) tokens for it, its 12 definite faults in 5 surroundings, its well-formed spellings. Every definite fault that is invalid wherever a body element may stand is also placed inside 14 kinds of block body (incl. the slot of a case before its first when, after else, two blocks deep). Per-tag argument enumeration: every stdlib tag / block keyword with every argument list of up to 3 (thorough 4) atoms out of 34 (plain, dotted and indexed variables, literals, ranges, separators, keywords, filter applications, group names), also inside a comment and under the jekyll configuration.",
    "C03": "Raw bodies also hold closing-tag look-alikes that carry arguments ({% endraw x %}, {%- endraw , -%}: body text) and white space the grammar treats as text (U+2003, U+3000, U+2028, U+0085, FF, VT, U+FEFF).",
    "C07": "Array steps are also tried with fractional positions (0.5, 1.5, -0.5, len-0.1 as numbers and '1.5' / '0.9' as strings): they name no element, so the output tag must fail.",
    "C08": "When a partial is named through a variable (one tag in three), half of the include / render tags also pass an argument of that very name holding another partial's name (arguments are visible only inside the partial: the tag still resolves the caller's value).",
    "C05": "In the break/continue family the inner loop's else branch (it runs when the inner loop selects nothing) also raises a break or a continue: the interrupt belongs to the enclosing loop.",
    "C09": "Soak histories: every failing (template, data) pair 130 times in a row on one parser, then every pair once (state that creeps by one per failing render only shows after many of them).",
    "C19": "Every other candidate name is asked of the store (contains / try_get / get / names) before its first use, so that under the lazy policy the optional lookup is the one that compiles it.",
    "C02": "Every slugify mode is named literally (none / raw / default / pretty / ascii / latin / an unknown one) over the whole pool.",
    "C12": "The three serde entry points to_value / to_object / to_scalar are run on 80 Rust shapes (every scalar type, unit, unit / newtype / tuple structs, unit / newtype / tuple / struct enum variants, options, sequences, tuples, maps keyed by every scalar kind): whatever two of them accept they convert alike, an object for to_value is accepted by to_object, none panics, integer / char map keys arrive as their text.",
    "C20": "A parse failure is identified by its whole message; one round in five adds a template that does not parse (unknown filter / tag / block) and lets every thread start by parsing it, so the first failing parse on the shared parser is simultaneous; every 25th round is a cross round (two partials that include each other, never recursively, from inside the body of ifchanged / capture / for / tablerow / if / unless / case, entered from opposite ends by 8 threads x 300 calls: a block holding a lock while its body renders would deadlock).",
}
for _k, _v in _ADDED5.items():
    CHECKS[_k]["rule"] = CHECKS[_k]["rule"].replace(" distinct = ", " " + _v + " distinct = ", 1)
CHECKS["C17"]["rule"] += " Composition law (checked in the worker, no reference needed): a format of 2..8 pieces (directives with flags / widths, literals) renders to the concatenation of what its pieces render one by one, and fails iff a piece fails."
CHECKS["C17"]["rule"] += " Also (checked in the worker): date-times near midnight in every offset against the calendar date they show and its neighbours, through the Value API in both directions and through a template."
