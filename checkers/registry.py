"""Per-check configuration used by ./check and by tools/gen_manifest.py."""

CHECKS = {}


def reg(cid, **kw):
    CHECKS[cid] = kw


reg(
    "C01",
    title="parsing is total",
    level="exploration",
    technique="runtime monitoring: panic/abort/hang monitor + result-shape oracle over bounded-exhaustive token/element enumeration, random soups, mutations and definite-fault injection",
    design_ref="DESIGN.md §5 C01",
    rule=("cases = (parser configuration, text). Families: every token sequence up to the stated length over the lexical "
          "alphabet (joined with and without spaces), every sequence of whole elements up to the stated length, block "
          "nesting sweep to depth 32 (closed / unclosed at every level / mis-nested), random token soups, character- and "
          "token-level mutations of generated well-formed templates, and well-formed templates with one definite fault "
          "injected. distinct = distinct (config, text) by content hash; non-trivial = the text contains at least one "
          "Liquid delimiter ({{ or {%), i.e. the strict tag/expression parser is actually entered."),
    exhaustive=False,
    profiles={"quick": ["checked"], "thorough": ["checked"]},
    floor={"quick": 500000, "thorough": 20000000},
    hang_is_violation=True,
    assumptions=[
        "termination is observed as 'returned before the 60 s no-progress watchdog'",
        "nesting depth <= 32, token sequences <= the enumerated length; longer inputs only sampled",
        "the harness profile unwinds on panic (the repository's own profiles abort); a panic is a violation either way",
    ],
    level_text=("Bounded-exhaustive plus randomized exploration of Parser::parse under a crash/hang/result-shape monitor. "
                "Right level: the property is a universally quantified totality claim over strings; a monitor over a dense "
                "enumeration of the lexical alphabet reaches the interactions (blocks inside comment/raw, out-of-range literals) "
                "that hand-written tests sample once."),
    level_note="Trusts rustc/std unwinding and the harness's own generators; says nothing about inputs outside the enumerated bounds.",
)

reg(
    "C02",
    title="rendering is total and emits UTF-8",
    level="exploration",
    technique="runtime monitoring: panic/abort/hang + UTF-8 sink monitor over an exhaustive filter x input-kind x argument-kind matrix, tag/block edge sweeps and random programs on type-confused data; checked (overflow-trapping) and release builds, ASan/valgrind in the thorough tier",
    design_ref="DESIGN.md §5 C02",
    rule=("cases = (configuration, template, data). Families: every registered filter (stdlib, jekyll, shopify, extra) at arity 0, 1, 2 "
          "with input and arguments drawn exhaustively from the hostile value pool; ~65 tag/block/path edge templates over x, y, z with "
          "the data sweeping the pool for every variable used; random whole programs with partials on type-confused data. "
          "distinct = distinct (template, data) by content hash; non-trivial = the template parsed and the render was actually executed "
          "(templates rejected at parse are counted separately and are not evaluations)."),
    profiles={"quick": ["checked"], "thorough": ["checked", "release"]},
    floor={"quick": 150000, "thorough": 3000000},
    hang_is_violation=True,
    assumptions=[
        "sizes that control allocation (range spans, integer bindings in random programs) are capped at 10^4 as the property's quantifier says",
        "termination is observed as 'returned before the 60 s no-progress watchdog'; workers run under RLIMIT_AS = 8 GiB",
        "integer overflow is observable because the checked profile traps it (overflow-checks=on); the release profile is run in the thorough tier to observe wrapping / unchecked UTF-8 conversion",
    ],
    level_text=("Exhaustive filter x input x argument matrix at arity <= 2 over a pool containing every value kind and the boundary "
                "values of every parameter, plus edge sweeps of every tag and block, under crash, hang and UTF-8 monitors. Right level: "
                "the property is a totality claim over (template, data) pairs whose failures live at type-confused and boundary inputs that no hand-written test renders."),
    level_note="Trusts the harness's value pool to contain the boundary values of each parameter; memory-safety is only 'no sanitizer report on the sampled executions'.",
)
