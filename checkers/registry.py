"""Per-check configuration used by ./check and by tools/gen_manifest.py."""

CHECKS = {}


def reg(cid, **kw):
    CHECKS[cid] = kw


reg(
    "C01",
    title="parsing is total",
    level="exploration",
    technique="runtime monitoring: panic/abort/hang monitor + result-shape oracle over bounded-exhaustive token/element enumeration, random soups, mutations and definite-fault injection",
    design_ref="DESIGN.md §5 C01",
    rule=("cases = (parser configuration, text). Families: every token sequence up to the stated length over the lexical "
          "alphabet (joined with and without spaces), every sequence of whole elements up to the stated length, block "
          "nesting sweep to depth 32 (closed / unclosed at every level / mis-nested), random token soups, character- and "
          "token-level mutations of generated well-formed templates, and well-formed templates with one definite fault "
          "injected. distinct = distinct (config, text) by content hash; non-trivial = the text contains at least one "
          "Liquid delimiter ({{ or {%), i.e. the strict tag/expression parser is actually entered."),
    exhaustive=False,
    profiles={"quick": ["checked"], "thorough": ["checked"]},
    floor={"quick": 500000, "thorough": 20000000},
    hang_is_violation=True,
    assumptions=[
        "termination is observed as 'returned before the 60 s no-progress watchdog'",
        "nesting depth <= 32, token sequences <= the enumerated length; longer inputs only sampled",
        "the harness profile unwinds on panic (the repository's own profiles abort); a panic is a violation either way",
    ],
    level_text=("Bounded-exhaustive plus randomized exploration of Parser::parse under a crash/hang/result-shape monitor. "
                "Right level: the property is a universally quantified totality claim over strings; a monitor over a dense "
                "enumeration of the lexical alphabet reaches the interactions (blocks inside comment/raw, out-of-range literals) "
                "that hand-written tests sample once."),
    level_note="Trusts rustc/std unwinding and the harness's own generators; says nothing about inputs outside the enumerated bounds.",
)
