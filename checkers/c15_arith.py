"""C15 offline checker: arithmetic filters against Python big integers / IEEE doubles.

Input: the events recorded by `lqverif c15` (see harness/src/checks/c15.rs for the schema):
    {"op", "a", "b", "prof", "res"[, "res2"][, "twin"]}
All judging happens here; the Rust side only records.

What is asserted (and nothing more than the property states):

* integer operands (integers, or strings spelling a 64-bit integer) of plus, minus, times, abs,
  at_least, at_most: the exact mathematical integer when it fits in i64; otherwise an error, or a
  float equal to the correctly rounded exact result or to float(a) op float(b).  An integer that
  differs from the exact result ("wrapped") and a panic are violations.
* integer divided_by / modulo: zero divisor => error; otherwise q and r (recorded in ONE event,
  `res` and `res2`) satisfy n == q*d + r and |r| < |d|; truncated and floored conventions both
  pass.  If q does not fit (MIN / -1): error or the float 2^63.
* a float operand (float, or a string spelling a non-integer / a number outside i64): the IEEE
  double result of the operation on float(a), float(b) (bit-exact, any NaN for NaN).
  at_least / at_most = max / min (for NaN or +-0 ties either operand passes).  Division / modulo by
  a float zero: an error as well ("division by zero is an error").  Float modulo: fmod (truncated),
  floored and IEEE-754 remainder all pass (the statement does not say which), counted.
* ceil, floor, round on a float x with -2^63 <= x < 2^63: the neighbouring integer in the documented
  direction, round half away from zero, computed exactly from x.as_integer_ratio(); the result may
  be an integer or an integral float.  Outside that range / NaN / inf: only "no panic".
  Integer operands of ceil/floor/round and `round: n` with n >= 1 decimal places are NOT covered by
  the statement: only "no panic" is asserted, what was seen is counted.
* strings: a string that spells a number must give exactly the result of that number (the `twin`
  evaluation recorded in the same event), and is judged like that number.  Strings that are not
  plain decimal numbers (" 3", "abc", "NaN", ...) : only "no panic".
"""
import math
import re
import struct

I64_MIN = -(1 << 63)
I64_MAX = (1 << 63) - 1
TWO63 = float(1 << 63)

_pd = struct.Struct(">d")
_pq = struct.Struct(">Q")
INT_RE = re.compile(r"[+-]?[0-9]+\Z")
FLOAT_RE = re.compile(r"[+-]?(?:[0-9]+\.?[0-9]*|\.[0-9]+)(?:[eE][+-]?[0-9]+)?\Z")

MAX_PER_KEY = 5
SAMPLE_AT = frozenset([0, 1, 999, 9999, 49999, 99999, 999999])

ARITH = ("plus", "minus", "times")
ROUNDERS = ("ceil", "floor", "round")


def f_of_hex(h):
    return _pd.unpack(bytes.fromhex(h))[0]


def bits(x):
    return _pq.unpack(_pd.pack(x))[0]


def hexf(x):
    return "%016x" % bits(x)


def same_float(res_hex, exp):
    """result (hex bits) is the IEEE value exp: bit-exact, any NaN matches NaN"""
    if exp != exp:
        r = f_of_hex(res_hex)
        return r != r
    return int(res_hex, 16) == bits(exp)


def operand(o):
    """-> (kind, value, flags): kind 'i' (i64), 'f' (double), 'x' (does not spell a number);
    flags: 'big' for an integer spelled out that does not fit in 64 bits"""
    k = o["k"]
    v = o["v"]
    if k == "int":
        return ("i", int(v), "")
    if k == "float":
        return ("f", f_of_hex(v), "")
    # string
    if INT_RE.match(v):
        n = int(v)
        if n == 0 and v[0] == "-":
            return ("x", None, "")  # "-0": integer 0 or double -0.0? ambiguous, totality only
        if I64_MIN <= n <= I64_MAX:
            return ("i", n, "")
        return ("f", float(n), "big")
    if FLOAT_RE.match(v):
        try:
            return ("f", float(v), "")
        except (ValueError, OverflowError):
            return ("x", None, "")
    return ("x", None, "")


def fdiv(a, b):
    if b == 0.0:
        if a != a or a == 0.0:
            return math.nan
        neg = (math.copysign(1.0, a) < 0) != (math.copysign(1.0, b) < 0)
        return -math.inf if neg else math.inf
    return a / b


def fmods(a, b):
    """the defensible float remainders: (fmod, floored, ieee-remainder)"""
    if a != a or b != b or math.isinf(a) or b == 0.0:
        return (math.nan, math.nan, math.nan)
    if math.isinf(b):
        fm = a
        fl = a if (a == 0.0 or (a < 0) == (b < 0)) else b
        return (fm, fl, a)
    fm = math.fmod(a, b)
    fl = a % b
    try:
        rem = math.remainder(a, b)
    except ValueError:
        rem = math.nan
    return (fm, fl, rem)


def fmax(a, b):
    return a if a > b else b


def res_text(r):
    if r is None:
        return "none"
    k = r.get("k")
    v = r.get("v")
    if k == "float":
        return "float %r (bits %s)" % (f_of_hex(v), v)
    return "%s %s" % (k, v)


def opnd_text(o):
    if o is None:
        return "-"
    if o["k"] == "float":
        return "float %r" % f_of_hex(o["v"])
    if o["k"] == "str":
        return "string %r" % o["v"]
    return "int %s" % o["v"]


class Checker:
    def __init__(self):
        self.n = 0
        self.violations = []
        self.vcounts = {}
        self.counters = {}
        self.samples = []

    def count(self, name, k=1):
        c = self.counters
        c[name] = c.get(name, 0) + k

    def violate(self, key, what, ev):
        n = self.vcounts.get(key, 0) + 1
        self.vcounts[key] = n
        if n <= MAX_PER_KEY:
            full = "%s | %s: %s [profile %s]" % (
                ev["op"], opnd_text(ev["a"]),
                opnd_text(ev.get("b")), ev.get("prof", "?"))
            self.violations.append({
                "key": key,
                "what": what + " -- " + full,
                "replay": {"op": ev["op"], "a": ev["a"], "b": ev.get("b")},
            })

    # ------------------------------------------------------------------ one event
    def one(self, ev):
        idx = self.n
        self.n += 1
        if idx in SAMPLE_AT and len(self.samples) < 8:
            self.samples.append(ev)
        op = ev["op"]
        res = ev["res"]
        rk = res["k"]
        self.count("events:" + op)
        if rk == "panic":
            self.violate(op + ":panic", "the filter panicked: %s at %s (%s)" % (
                res.get("v"), res.get("site"), (res.get("msg") or "")[:120]), ev)
            return
        res2 = ev.get("res2")
        if res2 is not None and res2["k"] == "panic":
            self.violate("modulo:panic", "the filter panicked: %s at %s (%s)" % (
                res2.get("v"), res2.get("site"), (res2.get("msg") or "")[:120]), ev)
            return
        A = operand(ev["a"])
        bj = ev.get("b")
        B = operand(bj) if bj is not None else None
        tw = ev.get("twin")
        if tw is not None:
            self.twin(ev, tw, op)
        if A[0] == "x" or (B is not None and B[0] == "x" and op != "round"):
            # not a plain decimal number: the statement says nothing; totality only
            self.count("non-numeric-string:" + rk)
            return
        if op in ARITH:
            self.arith(ev, op, A, B, res)
        elif op == "abs":
            self.abs_(ev, A, res)
        elif op == "at_least" or op == "at_most":
            self.clamp(ev, op, A, B, res)
        elif op == "divided_by":
            self.divided_by(ev, A, B, res, res2)
        elif op == "modulo":
            self.modulo(ev, A, B, res)
        elif op in ROUNDERS:
            self.rounder(ev, op, A, B, bj, res)
        else:
            self.count("unknown-op")

    # ------------------------------------------------------------------ strings vs numbers
    def twin(self, ev, tw, op):
        self.count("string-twin:compared")
        for f in ("res", "res2"):
            r = ev.get(f)
            t = tw.get(f)
            if r is None and t is None:
                continue
            if r is None or t is None:
                same = False
            elif r["k"] != t["k"]:
                same = False
            elif r["k"] == "float":
                same = r["v"] == t["v"] or (f_of_hex(r["v"]) != f_of_hex(r["v"]) and f_of_hex(t["v"]) != f_of_hex(t["v"]))
            elif r["k"] == "err":
                same = True
            else:
                same = r["v"] == t["v"]
            if not same:
                self.violate("string-operand-differs",
                             "with string operands the result is %s but with the numbers they spell (%s, %s) it is %s" % (
                                 res_text(r), opnd_text(tw["a"]), opnd_text(tw.get("b")), res_text(t)), ev)
                return

    # ------------------------------------------------------------------ helpers
    def expect_float(self, ev, op, res, exp, big, key=None):
        rk = res["k"]
        if rk == "float":
            if same_float(res["v"], exp):
                self.count(op + ":float-ieee-ok")
                return
            self.violate(key or (op + ":not-ieee"),
                         "expected the IEEE double result %r (bits %s), observed %s" % (exp, hexf(exp), res_text(res)), ev)
        elif rk == "err" and big:
            self.count(op + ":big-integer-string:err")
        elif rk == "err":
            self.violate(op + ":error-on-valid-operands", "numeric operands but the filter failed: %s" % res["v"], ev)
        elif rk == "int":
            self.violate(op + ":wrong-kind", "expected the IEEE double result %r, observed %s" % (exp, res_text(res)), ev)
        else:
            self.violate(op + ":unexpected-result-kind", "expected a number, observed %s" % res_text(res), ev)

    def expect_int(self, ev, op, res, exact, fa_op_fb):
        """integer operands: `exact` is the mathematical result; fa_op_fb the float fallback value"""
        rk = res["k"]
        if I64_MIN <= exact <= I64_MAX:
            if rk == "int":
                if int(res["v"]) == exact:
                    self.count(op + ":int-exact-ok")
                else:
                    self.violate(op + ":wrapped-or-wrong-integer",
                                 "exact result %d fits in 64 bits, observed %s" % (exact, res_text(res)), ev)
            elif rk == "float":
                self.violate(op + ":wrong-kind", "exact result %d fits in 64 bits, observed %s" % (exact, res_text(res)), ev)
            elif rk == "err":
                self.violate(op + ":error-on-valid-operands", "exact result %d fits in 64 bits but the filter failed: %s" % (exact, res["v"]), ev)
            else:
                self.violate(op + ":unexpected-result-kind", "expected integer %d, observed %s" % (exact, res_text(res)), ev)
            return
        # outside the 64-bit range
        if rk == "err":
            self.count(op + ":overflow->err")
        elif rk == "float":
            if same_float(res["v"], float(exact)) or same_float(res["v"], fa_op_fb):
                self.count(op + ":overflow->float")
            else:
                self.violate(op + ":wrong-float-on-overflow",
                             "exact result %d does not fit; expected an error or the float %r / %r, observed %s" % (
                                 exact, float(exact), fa_op_fb, res_text(res)), ev)
        elif rk == "int":
            self.violate(op + ":wrapped-or-wrong-integer",
                         "exact result %d does not fit in 64 bits, observed the (wrapped) %s" % (exact, res_text(res)), ev)
        else:
            self.violate(op + ":unexpected-result-kind", "expected an error or a float, observed %s" % res_text(res), ev)

    # ------------------------------------------------------------------ the filters
    def arith(self, ev, op, A, B, res):
        a = A[1]
        b = B[1]
        if A[0] == "i" and B[0] == "i":
            fa = float(a)
            fb = float(b)
            if op == "plus":
                self.expect_int(ev, op, res, a + b, fa + fb)
            elif op == "minus":
                self.expect_int(ev, op, res, a - b, fa - fb)
            else:
                self.expect_int(ev, op, res, a * b, fa * fb)
            return
        fa = float(a)
        fb = float(b)
        if op == "plus":
            exp = fa + fb
        elif op == "minus":
            exp = fa - fb
        else:
            exp = fa * fb
        self.expect_float(ev, op, res, exp, A[2] or B[2])

    def abs_(self, ev, A, res):
        if A[0] == "i":
            self.expect_int(ev, "abs", res, abs(A[1]), abs(float(A[1])))
        else:
            self.expect_float(ev, "abs", res, abs(A[1]), A[2])

    def clamp(self, ev, op, A, B, res):
        a = A[1]
        b = B[1]
        if A[0] == "i" and B[0] == "i":
            exact = max(a, b) if op == "at_least" else min(a, b)
            self.expect_int(ev, op, res, exact, float(exact))
            return
        fa = float(a)
        fb = float(b)
        if fa != fa or fb != fb or fa == fb:
            # NaN operand or a tie (incl. +0/-0): IEEE minNum/maxNum and plain comparison differ; any operand passes
            if res["k"] == "float" and (same_float(res["v"], fa) or same_float(res["v"], fb)):
                self.count(op + ":float-ieee-ok")
                return
            exp = fa
        elif op == "at_least":
            exp = fa if fa > fb else fb
        else:
            exp = fa if fa < fb else fb
        self.expect_float(ev, op, res, exp, A[2] or B[2])

    def divided_by(self, ev, A, B, res, res2):
        a = A[1]
        b = B[1]
        if A[0] == "i" and B[0] == "i":
            if b == 0:
                for name, r in (("divided_by", res), ("modulo", res2)):
                    if r is None:
                        continue
                    if r["k"] == "err":
                        self.count(name + ":int-zero-divisor->err")
                    else:
                        self.violate(name + ":zero-divisor-not-error",
                                     "integer division by zero must be an error, observed %s" % res_text(r), ev)
                return
            # q
            q = None
            if res["k"] == "int":
                q = int(res["v"])
            elif a == I64_MIN and b == -1:
                if res["k"] == "err" or (res["k"] == "float" and same_float(res["v"], TWO63)):
                    self.count("divided_by:overflow->" + res["k"])
                    q = 1 << 63
                else:
                    self.violate("divided_by:wrong-float-on-overflow",
                                 "i64::MIN / -1 does not fit: expected an error or the float 2^63, observed %s" % res_text(res), ev)
                    return
            elif res["k"] == "err":
                self.violate("divided_by:error-on-valid-operands", "non-zero divisor but the filter failed: %s" % res["v"], ev)
                return
            elif res["k"] == "float":
                self.violate("divided_by:wrong-kind", "integer operands, quotient fits, observed %s" % res_text(res), ev)
                return
            else:
                self.violate("divided_by:unexpected-result-kind", "expected an integer, observed %s" % res_text(res), ev)
                return
            if q is not None and not (I64_MIN <= q <= I64_MAX) and res["k"] == "int":
                q = None
            if res2 is None:
                return
            if res2["k"] != "int":
                key = "modulo:error-on-valid-operands" if res2["k"] == "err" else "modulo:wrong-kind"
                self.violate(key, "integer operands, non-zero divisor: expected an integer remainder, observed %s" % res_text(res2), ev)
                return
            r = int(res2["v"])
            if a != q * b + r or abs(r) >= abs(b):
                self.violate("divided_by:identity-broken",
                             "n = q*d + r with |r| < |d| fails: n=%d d=%d q=%d r=%d (q*d+r = %d)" % (a, b, q, r, q * b + r), ev)
            else:
                self.count("divided_by:identity-ok")
                if r != 0:
                    self.count("divided_by:convention:" + ("truncated" if (r < 0) == (a < 0) else "floored-only"))
            return
        fa = float(a)
        fb = float(b)
        if fb == 0.0:
            # "division by zero is an error": also for a float (or float-spelling) zero divisor
            if res["k"] == "err":
                self.count("divided_by:float-zero-divisor->err")
            else:
                self.violate("divided_by:zero-divisor-not-error",
                             "division by a zero divisor (%r) must be an error, observed %s" % (fb, res_text(res)), ev)
            if res2 is not None:
                self.float_mod(ev, fa, fb, res2, A[2] or B[2])
            return
        self.expect_float(ev, "divided_by", res, fdiv(fa, fb), A[2] or B[2])
        if res2 is not None:
            self.float_mod(ev, fa, fb, res2, A[2] or B[2])

    def float_mod(self, ev, fa, fb, res, big):
        if fb == 0.0:
            if res["k"] == "err":
                self.count("modulo:float-zero-divisor->err")
            else:
                self.violate("modulo:zero-divisor-not-error",
                             "modulo by a zero divisor (%r) must be an error, observed %s" % (fb, res_text(res)), ev)
            return
        if res["k"] != "float":
            self.expect_float(ev, "modulo", res, math.nan, big)
            return
        fm, fl, rem = fmods(fa, fb)
        okm = same_float(res["v"], fm)
        okf = same_float(res["v"], fl)
        okr = same_float(res["v"], rem)
        if not (okm or okf or okr):
            self.violate("modulo:not-ieee",
                         "float remainder: expected fmod %r (or floored %r, or IEEE remainder %r), observed %s" % (fm, fl, rem, res_text(res)), ev)
            return
        if okm and okf and okr:
            self.count("modulo:float-ok:conventions-agree")
        elif okm:
            self.count("modulo:float-ok:truncated(fmod)")
        elif okf:
            self.count("modulo:float-ok:floored")
        else:
            self.count("modulo:float-ok:ieee-remainder")

    def modulo(self, ev, A, B, res):
        a = A[1]
        b = B[1]
        if A[0] == "i" and B[0] == "i":
            if b == 0:
                if res["k"] == "err":
                    self.count("modulo:int-zero-divisor->err")
                else:
                    self.violate("modulo:zero-divisor-not-error",
                                 "integer modulo by zero must be an error, observed %s" % res_text(res), ev)
                return
            if res["k"] != "int":
                key = "modulo:error-on-valid-operands" if res["k"] == "err" else "modulo:wrong-kind"
                self.violate(key, "integer operands, non-zero divisor: expected an integer remainder, observed %s" % res_text(res), ev)
                return
            r = int(res["v"])
            if abs(r) >= abs(b) or (a - r) % b != 0:
                self.violate("modulo:remainder-wrong",
                             "no integer q with n = q*d + r and |r| < |d|: n=%d d=%d r=%d" % (a, b, r), ev)
            else:
                self.count("modulo:int-ok")
            return
        self.float_mod(ev, float(a), float(b), res, A[2] or B[2])

    def rounder(self, ev, op, A, B, bj, res):
        places = 0
        if B is not None:
            # the decimal-places argument
            if B[0] != "i" or bj["k"] != "int":
                self.count("round:places-not-an-integer:" + res["k"])
                return
            places = B[1]
        rk = res["k"]
        if A[0] == "i":
            # statement covers floats only; record what happens to integers (they travel through f64)
            if rk == "int" and int(res["v"]) == A[1]:
                self.count(op + ":int-operand:unchanged")
            elif rk == "float" and places >= 1 and same_float(res["v"], float(A[1])):
                self.count(op + ":int-operand:unchanged-as-float")
            else:
                self.count(op + ":int-operand:CHANGED(not asserted)")
            return
        x = A[1]
        if x != x or math.isinf(x) or not (-TWO63 <= x < TWO63):
            self.count(op + ":outside-i64-range(totality-only):" + rk)
            return
        if places >= 1:
            self.round_places(ev, x, places, res)
            return
        n, d = x.as_integer_ratio()
        lo = n // d
        hi = -((-n) // d)
        if op == "ceil":
            exp = hi
        elif op == "floor":
            exp = lo
        elif n >= 0:
            exp = (2 * n + d) // (2 * d)
        else:
            exp = -((-2 * n + d) // (2 * d))
        got = None
        if rk == "int":
            got = int(res["v"])
        elif rk == "float":
            g = f_of_hex(res["v"])
            if g == g and not math.isinf(g) and g == math.floor(g):
                got = int(g)
        if got == exp:
            self.count(op + ":float-ok")
            if op == "round" and 2 * (n - lo * d) == d:
                self.count("round:ties-checked")
            return
        if rk == "err":
            self.violate(op + ":error-on-valid-operands", "float within the 64-bit range but the filter failed: %s" % res["v"], ev)
        elif op == "round" and got is not None and got in (lo, hi):
            self.violate("round:wrong-direction",
                         "round(%r) must be %d (nearest, ties away from zero), observed %s" % (x, exp, res_text(res)), ev)
        else:
            self.violate(op + (":wrong" if op != "round" else ":wrong"),
                         "%s(%r) must be %d, observed %s" % (op, x, exp, res_text(res)), ev)

    def round_places(self, ev, x, places, res):
        """`round: n` with n >= 1: not covered by the statement (it speaks of the neighbouring integer);
        classify what is seen against exact decimal rounding, never a violation"""
        if places > 30:
            self.count("round-places:>30(totality-only):" + res["k"])
            return
        if res["k"] != "float":
            self.count("round-places:result-kind:" + res["k"])
            return
        n, d = x.as_integer_ratio()
        p = 10 ** places
        lo = (n * p) // d
        hi = -((-n * p) // d)
        twice = 2 * n * p
        mid = (lo + hi) * d
        if lo == hi:
            near = far = lo
        elif twice > mid or (twice == mid and n > 0):
            near, far = hi, lo
        elif twice < mid or (twice == mid and n < 0):
            near, far = lo, hi
        else:
            near, far = hi, lo
        if same_float(res["v"], near / p) or (near == 0 and f_of_hex(res["v"]) == 0.0):
            self.count("round-places:exact-decimal-rounding")
        elif same_float(res["v"], far / p) or (far == 0 and f_of_hex(res["v"]) == 0.0):
            self.count("round-places:other-neighbour(double rounding)")
        else:
            self.count("round-places:neither-neighbour")

    def result(self):
        return {
            "events": self.n,
            "violations": self.violations,
            "violation_counts": dict(sorted(self.vcounts.items())),
            "counters": dict(sorted(self.counters.items())),
            "samples": self.samples,
        }


def check_events(events):
    c = Checker()
    one = c.one
    for ev in events:
        one(ev)
    return c.result()


if __name__ == "__main__":
    import json
    import sys
    import time

    t0 = time.time()

    def lines():
        for p in sys.argv[1:]:
            with open(p, encoding="utf-8") as f:
                for line in f:
                    if line.startswith("{"):
                        yield json.loads(line)

    r = check_events(lines())
    dt = time.time() - t0
    print(json.dumps({k: r[k] for k in ("events", "violation_counts", "counters")}, indent=1))
    for v in r["violations"]:
        print("VIOLATION", v["key"], "::", v["what"])
        print("   replay:", json.dumps(v["replay"]))
    print("%.1f s, %.0f events/s" % (dt, r["events"] / max(dt, 1e-9)), file=sys.stderr)
